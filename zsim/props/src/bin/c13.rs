//! C13 — serialised values decode to themselves and consume exactly their own bytes
//! (claimed for the stream back ends, DESIGN.md "### C13").
//!
//! Every scenario writes a seeded sequence of values through a real zipora writer (stack)
//! into a simulated medium behind `FaultyWrite`, then reads it back through a real zipora
//! reader (stack) behind `FaultyRead`.  Oracle = round trip: the value read equals the value
//! written, the reader's position after value i equals the writer's position after value i,
//! the medium holds exactly the bytes the writer reported.  `*/clean` scenarios use benign
//! faults only (short transfers, odd chunk sizes) and demand strict equality; `*/faulty`
//! scenarios inject EINTR / errors / cut / flush failure on one side: calls may fail, what
//! was returned before must be right, nothing returned may be wrong, checking of that stream
//! stops at the first surfaced error.

use std::cell::RefCell;
use std::collections::{BTreeMap, BTreeSet, HashMap, HashSet};
use std::fmt::Debug;
use std::io::{self, BufRead, Cursor, Read, Seek, SeekFrom, Write};
use std::path::PathBuf;
use std::rc::{Rc, Weak as RcWeak};
use std::sync::atomic::{AtomicU64, Ordering};
use std::sync::{Arc, Weak as ArcWeak};

use zipora::error::Result as ZResult;
use zipora::io::complex_types::{ComplexSerialize, ComplexTypeConfig, ComplexTypeSerializer, NestedSerialize};
use zipora::io::endian::{EndianConvert, EndianIO, Endianness};
use zipora::io::smart_ptr::{DeserializationContext, SerializableType, SerializationContext, SmartPtrConfig, SmartPtrSerialize, SmartPtrSerializer};
use zipora::io::versioning::{Version, VersionConfig, VersionManager, VersionProxy, VersionedSerialize, VersionedSerializer};
use zipora::io::zero_copy::mmap::MmapZeroCopyReader;
use zipora::io::{
    DataInput, DataOutput, FileDataOutput, MemoryMappedInput, MemoryMappedOutput, MmapDataInput, MultiRangeReader, RangeReader, RangeWriter, ReaderDataInput, SliceDataInput, StreamBufferConfig,
    StreamBufferedReader, StreamBufferedWriter, VecDataOutput, WriterDataOutput, ZeroCopyRead, ZeroCopyReader, ZeroCopyWrite, ZeroCopyWriter,
};
use zsim_core::e3::{self, FaultCfg, FaultyRead, FaultyWrite, SharedLog};
use zsim_core::{Chan, CheckSpec, Run, Scenario, Tier};

// ---------------------------------------------------------------------------------------
// plumbing: shared medium, object-safe shims, position-reporting ends

struct Shared<T>(Rc<RefCell<T>>);
impl<T> Shared<T> {
    fn new(t: T) -> Self {
        Shared(Rc::new(RefCell::new(t)))
    }
}
impl<T> Clone for Shared<T> {
    fn clone(&self) -> Self {
        Shared(self.0.clone())
    }
}
impl<T: Write> Write for Shared<T> {
    fn write(&mut self, b: &[u8]) -> io::Result<usize> {
        self.0.borrow_mut().write(b)
    }
    fn flush(&mut self) -> io::Result<()> {
        self.0.borrow_mut().flush()
    }
}
impl<T: Read> Read for Shared<T> {
    fn read(&mut self, b: &mut [u8]) -> io::Result<usize> {
        self.0.borrow_mut().read(b)
    }
}
impl<T: Seek> Seek for Shared<T> {
    fn seek(&mut self, p: SeekFrom) -> io::Result<u64> {
        self.0.borrow_mut().seek(p)
    }
}
type Medium = Shared<Cursor<Vec<u8>>>;
fn medium(v: Vec<u8>) -> Medium {
    Shared::new(Cursor::new(v))
}
fn medium_bytes(m: &Medium) -> Vec<u8> {
    m.0.borrow().get_ref().clone()
}

/// `&mut dyn DataOutput` as a sized `DataOutput` (the typed encoders are generic over `O: DataOutput`).
struct DynOut<'a>(&'a mut dyn DataOutput);
impl<'a> DataOutput for DynOut<'a> {
    fn write_u8(&mut self, v: u8) -> ZResult<()> {
        self.0.write_u8(v)
    }
    fn write_u16(&mut self, v: u16) -> ZResult<()> {
        self.0.write_u16(v)
    }
    fn write_u32(&mut self, v: u32) -> ZResult<()> {
        self.0.write_u32(v)
    }
    fn write_u64(&mut self, v: u64) -> ZResult<()> {
        self.0.write_u64(v)
    }
    fn write_var_int(&mut self, v: u64) -> ZResult<()> {
        self.0.write_var_int(v)
    }
    fn write_bytes(&mut self, d: &[u8]) -> ZResult<()> {
        self.0.write_bytes(d)
    }
    fn write_length_prefixed_bytes(&mut self, d: &[u8]) -> ZResult<()> {
        self.0.write_length_prefixed_bytes(d)
    }
    fn write_string(&mut self, s: &str) -> ZResult<()> {
        self.0.write_string(s)
    }
    fn write_length_prefixed_string(&mut self, s: &str) -> ZResult<()> {
        self.0.write_length_prefixed_string(s)
    }
    fn flush(&mut self) -> ZResult<()> {
        self.0.flush()
    }
    fn position(&self) -> Option<u64> {
        self.0.position()
    }
    fn bytes_written(&self) -> Option<u64> {
        self.0.bytes_written()
    }
}

struct DynIn<'a>(&'a mut dyn DataInput);
impl<'a> DataInput for DynIn<'a> {
    fn read_u8(&mut self) -> ZResult<u8> {
        self.0.read_u8()
    }
    fn read_u16(&mut self) -> ZResult<u16> {
        self.0.read_u16()
    }
    fn read_u32(&mut self) -> ZResult<u32> {
        self.0.read_u32()
    }
    fn read_u64(&mut self) -> ZResult<u64> {
        self.0.read_u64()
    }
    fn read_var_int(&mut self) -> ZResult<u64> {
        self.0.read_var_int()
    }
    fn read_bytes(&mut self, b: &mut [u8]) -> ZResult<()> {
        self.0.read_bytes(b)
    }
    fn read_vec(&mut self, n: usize) -> ZResult<Vec<u8>> {
        self.0.read_vec(n)
    }
    fn read_length_prefixed_bytes(&mut self) -> ZResult<Vec<u8>> {
        self.0.read_length_prefixed_bytes()
    }
    fn read_string(&mut self, n: usize) -> ZResult<String> {
        self.0.read_string(n)
    }
    fn read_length_prefixed_string(&mut self) -> ZResult<String> {
        self.0.read_length_prefixed_string()
    }
    fn skip(&mut self, n: usize) -> ZResult<()> {
        self.0.skip(n)
    }
    fn position(&self) -> Option<u64> {
        self.0.position()
    }
    fn has_remaining(&self) -> Option<bool> {
        self.0.has_remaining()
    }
}

/// A writing end that reports how many bytes it has produced so far.
trait PosOut {
    fn out(&mut self) -> &mut dyn DataOutput;
    fn pos(&self) -> u64;
    fn finish(&mut self) -> ZResult<()>;
    fn bytes(&self) -> Option<Vec<u8>> {
        None
    }
}
struct WOut<'a>(WriterDataOutput<Box<dyn Write + 'a>>);
impl<'a> PosOut for WOut<'a> {
    fn out(&mut self) -> &mut dyn DataOutput {
        &mut self.0
    }
    fn pos(&self) -> u64 {
        self.0.bytes_written()
    }
    fn finish(&mut self) -> ZResult<()> {
        DataOutput::flush(&mut self.0)
    }
}
struct VOut(VecDataOutput);
impl PosOut for VOut {
    fn out(&mut self) -> &mut dyn DataOutput {
        &mut self.0
    }
    fn pos(&self) -> u64 {
        self.0.len() as u64
    }
    fn finish(&mut self) -> ZResult<()> {
        self.0.flush()
    }
    fn bytes(&self) -> Option<Vec<u8>> {
        Some(self.0.as_slice().to_vec())
    }
}
struct FOut(FileDataOutput);
impl PosOut for FOut {
    fn out(&mut self) -> &mut dyn DataOutput {
        &mut self.0
    }
    fn pos(&self) -> u64 {
        self.0.bytes_written()
    }
    fn finish(&mut self) -> ZResult<()> {
        DataOutput::flush(&mut self.0)
    }
}
struct MOut(MemoryMappedOutput, bool);
impl PosOut for MOut {
    fn out(&mut self) -> &mut dyn DataOutput {
        &mut self.0
    }
    fn pos(&self) -> u64 {
        self.0.position() as u64
    }
    fn finish(&mut self) -> ZResult<()> {
        if self.1 {
            self.0.truncate()?;
        }
        self.0.flush()
    }
}

/// A reading end that reports how many bytes it has consumed so far.
trait PosIn {
    fn inp(&mut self) -> &mut dyn DataInput;
    fn pos(&self) -> u64;
}
struct RIn<'a>(ReaderDataInput<Box<dyn Read + 'a>>);
impl<'a> PosIn for RIn<'a> {
    fn inp(&mut self) -> &mut dyn DataInput {
        &mut self.0
    }
    fn pos(&self) -> u64 {
        self.0.pos()
    }
}
struct SIn<'a>(SliceDataInput<'a>);
impl<'a> PosIn for SIn<'a> {
    fn inp(&mut self) -> &mut dyn DataInput {
        &mut self.0
    }
    fn pos(&self) -> u64 {
        self.0.pos() as u64
    }
}
struct MDIn(MmapDataInput);
impl PosIn for MDIn {
    fn inp(&mut self) -> &mut dyn DataInput {
        &mut self.0
    }
    fn pos(&self) -> u64 {
        self.0.pos() as u64
    }
}
struct MMIn(MemoryMappedInput);
impl PosIn for MMIn {
    fn inp(&mut self) -> &mut dyn DataInput {
        &mut self.0
    }
    fn pos(&self) -> u64 {
        self.0.position() as u64
    }
}
struct RgIn(RangeReader<FaultyRead<Cursor<Vec<u8>>>>);
impl PosIn for RgIn {
    fn inp(&mut self) -> &mut dyn DataInput {
        &mut self.0
    }
    fn pos(&self) -> u64 {
        DataInput::position(&self.0).unwrap_or(u64::MAX)
    }
}

fn to_io(e: zipora::error::ZiporaError) -> io::Error {
    io::Error::new(io::ErrorKind::Other, e.to_string())
}

fn fnv(b: &[u8]) -> u64 {
    let mut h: u64 = 0xcbf2_9ce4_8422_2325;
    for &c in b {
        h ^= c as u64;
        h = h.wrapping_mul(0x0000_0100_0000_01B3);
    }
    h
}
fn short_bytes(b: &[u8]) -> String {
    if b.len() <= 8 {
        format!("{:02x?}", b)
    } else {
        format!("{}B#{:08x}", b.len(), fnv(b) as u32)
    }
}
fn short_str(s: &str) -> String {
    if s.len() <= 16 {
        format!("{:?}", s)
    } else {
        format!("str{}B#{:08x}", s.len(), fnv(s.as_bytes()) as u32)
    }
}
fn clip(e: &dyn std::fmt::Display) -> String {
    let s = e.to_string();
    s.chars().take(110).collect()
}

fn take_ops(cx: &mut Run, name: &str, planned: u64) -> Vec<[u64; 4]> {
    let mut ops = cx.src.ops(name, planned);
    let mut v = vec![];
    while let Some(o) = ops.next() {
        v.push(o);
    }
    v
}

/// Position-dependent bytes: any shift or duplication of a window of >= 2 bytes is visible.
fn pattern(n: usize, salt: usize) -> Vec<u8> {
    (0..n).map(|j| (j.wrapping_mul(167) ^ (j >> 8).wrapping_mul(59) ^ salt.wrapping_mul(101)).wrapping_add(13) as u8).collect()
}

fn note_faults(cx: &mut Run, log: &SharedLog, side: &str) {
    let l = log.lock().unwrap();
    for (k, n) in [("short", l.short), ("eintr", l.eintr), ("error", l.errors), ("cut", l.cut), ("flush_error", l.flush_errors)] {
        if n > 0 {
            *cx.faults.entry(format!("{}.{}", side, k)).or_insert(0) += n;
        }
    }
    let mut shown = 0;
    for (call, off, kind) in &l.events {
        if *kind != "short" && shown < 6 {
            cx.trace.ev(format!("  fault[{}] call#{} @{} {}", side, call, off, kind));
            shown += 1;
        }
    }
}
fn hard_fired(log: &SharedLog) -> bool {
    log.lock().unwrap().hard_faults() > 0
}

static FILE_N: AtomicU64 = AtomicU64::new(0);
struct TmpFile(PathBuf);
impl TmpFile {
    fn new(used: bool) -> TmpFile {
        let d = PathBuf::from(format!("/dev/shm/zsim-c13-{}", std::process::id()));
        if used {
            let _ = std::fs::create_dir_all(&d);
        }
        TmpFile(d.join(format!("f{}", FILE_N.fetch_add(1, Ordering::Relaxed))))
    }
}
impl Drop for TmpFile {
    fn drop(&mut self) {
        let _ = std::fs::remove_file(&self.0);
        if let Some(d) = self.0.parent() {
            let _ = std::fs::remove_dir(d);
        }
    }
}

// ---------------------------------------------------------------------------------------
// values

type T3 = (u32, String, bool);
type T7 = (u8, u16, u64, i8, i16, i32, i64);
type T12 = (u8, u8, u8, u8, u8, u8, u8, u8, u8, u8, u8, u8);
type Nest = (Option<Vec<Option<u16>>>, BTreeMap<u32, Vec<String>>, Box<String>, Rc<u32>);

#[derive(Clone, Debug)]
enum Cx {
    Unit,
    T1((u32,)),
    T3(T3),
    T7(T7),
    T12(T12),
    ArrU([u16; 3]),
    ArrS([String; 2]),
    Arr0([u32; 0]),
    OptS(Option<String>),
    OptV(Option<Vec<u32>>),
    Res(Result<u32, String>),
    BMap(BTreeMap<String, u64>),
    BSet(BTreeSet<i32>),
    HMap(HashMap<u32, u64>),
    HSet(HashSet<u64>),
    Nest(Nest),
}

#[derive(Clone, Debug, PartialEq)]
struct Rec {
    id: u32,
    name: String,
    extra: Option<u64>,
}
impl VersionedSerialize for Rec {
    fn current_version() -> Version {
        Version::new(1, 2, 0)
    }
    fn serialize_with_manager<O: DataOutput>(&self, m: &mut VersionManager, o: &mut O) -> ZResult<()> {
        m.register_field("extra", Version::new(1, 1, 0));
        o.write_u32(self.id)?;
        o.write_length_prefixed_string(&self.name)?;
        m.serialize_field("extra", &self.extra.unwrap_or(0), o)
    }
    fn deserialize_with_manager<I: DataInput>(m: &mut VersionManager, i: &mut I) -> ZResult<Self> {
        m.register_field("extra", Version::new(1, 1, 0));
        let id = i.read_u32()?;
        let name = i.read_length_prefixed_string()?;
        let extra = m.deserialize_field::<u64, _>("extra", i)?;
        Ok(Rec { id, name, extra })
    }
}

type V3 = (u16, u16, u16);
fn ver(v: V3) -> Version {
    Version::new(v.0, v.1, v.2)
}

#[derive(Clone, Debug)]
enum Sp {
    BoxS(String),
    BoxBox(u64),
    OptBox(Option<u32>),
    RcS(String),
    ArcU(u64),
    ArcVec(Vec<u16>),
    VecRc(Vec<u32>),
    /// several references into a few shared objects, one (de)serialisation context
    Shared { vals: Vec<String>, refs: Vec<usize>, detect: bool, arc: bool },
    SerBytes(String, u8),
    /// Some = the referent is alive while serialising, None = dangling
    WeakRc(Option<u32>),
    WeakArc(Option<u64>),
}

#[derive(Clone, Debug)]
enum Ver {
    V(V3),
    Field { cur: V3, min: Option<V3>, read: Option<V3>, val: u32, sval: Option<String> },
    Proxy { cur: V3, min: V3, max: Option<V3>, val: u32 },
    ProxyPlain(String),
    SerBytes(Rec, u8),
    /// serialize_versioned / deserialize_versioned
    Struct(Rec),
}

#[derive(Clone, Debug)]
enum Val {
    U8(u8),
    U16(u16),
    U32(u32),
    U64(u64),
    Var(u64),
    LpStr(String),
    LpBytes(Vec<u8>),
    Raw(Vec<u8>),
    RawStr(String),
    Skip(Vec<u8>),
    /// EndianIO<type>(endianness) over raw bytes: (type, endianness, bits)
    End(u8, u8, u64),
    Cx(Cx, u8),
    CxBatch(Vec<T3>, u8),
    CxBytes(T3, u8),
    Sp(Sp),
    Ver(Ver),
}

fn bounds() -> &'static [u64] {
    static B: std::sync::OnceLock<Vec<u64>> = std::sync::OnceLock::new();
    B.get_or_init(|| {
        let mut v = vec![0u64, 1, 0xFF, 0x100, 0xFFFF, 0x1_0000, u32::MAX as u64, u32::MAX as u64 + 1, i64::MAX as u64, i64::MIN as u64, u64::MAX - 1, u64::MAX];
        for k in 1..=9u32 {
            let b = 1u64 << (7 * k);
            v.push(b - 1);
            v.push(b);
            v.push(b + 1);
        }
        v
    })
}
fn gen_u64(a: u64, b: u64, i: usize) -> u64 {
    if a % 4 == 3 {
        ((i as u64 + 1) << 44) ^ b.wrapping_mul(0x9E37_79B9)
    } else {
        let bs = bounds();
        bs[(b as usize) % bs.len()]
    }
}
fn gen_len(a: u64, b: u64, big: usize) -> usize {
    match a % 8 {
        0 => 0,
        1..=4 => 1 + (b % 12) as usize,
        5 => 12 + (b % 60) as usize,
        6 => 100 + (b % 200) as usize,
        _ => {
            if big > 300 {
                300 + ((b as usize).wrapping_mul(7919)) % (big - 300)
            } else {
                (b as usize) % big.max(1)
            }
        }
    }
}
fn gen_bytes(i: usize, len: usize) -> Vec<u8> {
    pattern(len, i + 1)
}
fn gen_str(i: usize, len: usize) -> String {
    if len == 0 {
        return String::new();
    }
    const AL: [char; 9] = ['a', 'Z', '0', ' ', '\u{e9}', '\u{4e16}', '\u{1f980}', '\n', '\0'];
    let mut s = format!("s{}:", i);
    let mut j = i;
    while s.len() < len {
        s.push(AL[j % AL.len()]);
        j = j.wrapping_mul(5).wrapping_add(3);
    }
    s
}

#[derive(Clone, Copy, PartialEq, Debug)]
enum Fam {
    Prim,
    Complex,
    Smart,
    SmartWeak,
    Versioned,
    VersionedStruct,
}

fn gen_v3(x: u64) -> V3 {
    // major/minor stay within the documented packed format 0xMMmmpppp
    const VS: [V3; 8] = [(1, 0, 0), (1, 1, 0), (1, 2, 0), (1, 2, 7), (2, 0, 0), (0, 0, 0), (255, 255, 65535), (1, 255, 1)];
    VS[(x % 8) as usize]
}

fn gen_val(fam: Fam, i: usize, o: [u64; 4], big: usize) -> Val {
    match fam {
        Fam::Prim => match o[0] % 12 {
            0 => Val::U8(gen_u64(o[1], o[2], i) as u8),
            1 => Val::U16(gen_u64(o[1], o[2], i) as u16),
            2 => Val::U32(gen_u64(o[1], o[2], i) as u32),
            3 => Val::U64(gen_u64(o[1], o[2], i)),
            4 | 11 => Val::Var(gen_u64(o[1], o[2], i)),
            5 => Val::LpStr(gen_str(i, gen_len(o[1], o[2], big))),
            6 => Val::LpBytes(gen_bytes(i, gen_len(o[1], o[2], big))),
            7 => Val::Raw(gen_bytes(i, gen_len(o[1], o[2], big))),
            8 => Val::RawStr(gen_str(i, gen_len(o[1], o[2], big))),
            9 => Val::Skip(gen_bytes(i, gen_len(o[1], o[2], big))),
            _ => Val::End((o[1] % 11) as u8, (o[2] % 3) as u8, gen_u64(o[3], o[1] >> 4, i)),
        },
        Fam::Complex => {
            let a = o[1];
            let b = o[2];
            let s = |k: u64| gen_str(i, gen_len(k, b, big.min(300)));
            let meta = (o[3] % 3) as u8;
            let cx = match o[0] % 18 {
                0 => Cx::Unit,
                1 => Cx::T1((gen_u64(a, b, i) as u32,)),
                2 => Cx::T3((gen_u64(a, b, i) as u32, s(a), b % 2 == 1)),
                3 => Cx::T7((a as u8, b as u16, gen_u64(a, b, i), (a >> 3) as i8, (b >> 2) as i16, gen_u64(b, a, i) as i32, gen_u64(a, b >> 1, i) as i64)),
                4 => Cx::T12((i as u8, 1, 2, 3, 4, 5, 6, 7, 8, 9, a as u8, b as u8)),
                5 => Cx::ArrU([a as u16, b as u16, i as u16]),
                6 => Cx::ArrS([s(a), s(a >> 3)]),
                7 => Cx::Arr0([]),
                8 => Cx::OptS(if a % 3 == 0 { None } else { Some(s(a >> 2)) }),
                9 => Cx::OptV(if a % 3 == 0 { None } else { Some((0..(b % 5)).map(|k| gen_u64(a + k, b + k, i) as u32).collect()) }),
                10 => Cx::Res(if a % 2 == 0 { Ok(gen_u64(a, b, i) as u32) } else { Err(s(a >> 1)) }),
                11 => Cx::BMap((0..(a % 4)).map(|k| (format!("k{}-{}", i, k), gen_u64(b + k, a + k, i))).collect()),
                12 => Cx::BSet((0..(a % 5)).map(|k| (gen_u64(b + k, a + k, i) as i32).wrapping_add(k as i32)).collect()),
                13 => Cx::HMap((0..(a % 5)).map(|k| ((i as u32) << 8 | k as u32, gen_u64(b + k, a + k, i))).collect()),
                14 => Cx::HSet((0..(a % 5)).map(|k| gen_u64(3, b + k, i + k as usize)).collect()),
                15 => return Val::CxBatch((0..(a % 4)).map(|k| ((i as u32) << 8 | k as u32, s(a + k), k % 2 == 0)).collect(), (b % 5) as u8),
                16 => return Val::CxBytes((gen_u64(a, b, i) as u32, s(a), b % 2 == 1), (b % 5) as u8),
                _ => Cx::Nest((
                    if a % 3 == 0 { None } else { Some((0..(b % 4)).map(|k| if (a >> k) & 1 == 1 { Some((b + k) as u16) } else { None }).collect()) },
                    (0..(a % 3)).map(|k| (k as u32 + i as u32 * 10, (0..(b % 3)).map(|q| s(q + k)).collect())).collect(),
                    Box::new(s(b)),
                    Rc::new(gen_u64(a, b, i) as u32),
                )),
            };
            Val::Cx(cx, meta)
        }
        Fam::Smart => {
            let a = o[1];
            let b = o[2];
            let s = |k: u64| gen_str(i, gen_len(k, b, big.min(300)));
            Val::Sp(match o[0] % 9 {
                0 => Sp::BoxS(s(a)),
                1 => Sp::BoxBox(gen_u64(a, b, i)),
                2 => Sp::OptBox(if a % 3 == 0 { None } else { Some(gen_u64(a, b, i) as u32) }),
                3 => Sp::RcS(s(a)),
                4 => Sp::ArcU(gen_u64(a, b, i)),
                5 => Sp::ArcVec((0..(a % 5)).map(|k| (b + k) as u16).collect()),
                6 => Sp::VecRc((0..(a % 5)).map(|k| gen_u64(a + k, b + k, i) as u32).collect()),
                7 => {
                    let nv = 1 + (a % 3) as usize;
                    let vals: Vec<String> = (0..nv).map(|k| format!("sh{}-{}-{}", i, k, s(a + k as u64))).collect();
                    let refs: Vec<usize> = (0..(1 + b % 5)).map(|k| ((b >> (2 * k)) as usize) % nv).collect();
                    Sp::Shared { vals, refs, detect: o[3] % 2 == 0, arc: o[3] % 4 >= 2 }
                }
                _ => Sp::SerBytes(s(a), (b % 4) as u8),
            })
        }
        Fam::SmartWeak => Val::Sp(match o[0] % 4 {
            0 => Sp::WeakRc(Some(gen_u64(o[1], o[2], i) as u32)),
            1 => Sp::WeakArc(Some(gen_u64(o[1], o[2], i))),
            2 => Sp::WeakRc(None),
            _ => Sp::WeakArc(None),
        }),
        Fam::Versioned => {
            let a = o[1];
            let b = o[2];
            Val::Ver(match o[0] % 5 {
                0 => Ver::V(gen_v3(a)),
                1 => Ver::Field {
                    cur: gen_v3(a),
                    min: if b % 4 == 0 { None } else { Some(gen_v3(b >> 2)) },
                    read: if o[3] % 3 == 0 { Some(gen_v3(o[3] >> 2)) } else { None },
                    val: gen_u64(a, b, i) as u32,
                    sval: if o[3] % 2 == 1 { Some(gen_str(i, gen_len(a, b, 60))) } else { None },
                },
                2 => Ver::Proxy { cur: gen_v3(a), min: gen_v3(b), max: if o[3] % 2 == 0 { None } else { Some(gen_v3(o[3] >> 1)) }, val: gen_u64(b, a, i) as u32 },
                3 => Ver::ProxyPlain(gen_str(i, gen_len(a, b, 60))),
                _ => Ver::SerBytes(Rec { id: gen_u64(a, b, i) as u32, name: gen_str(i, gen_len(a, b, 60)), extra: Some(gen_u64(b, a, i)) }, (b % 4) as u8),
            })
        }
        // Every byte of these records is < 0x80: the known asymmetry of deserialize_versioned
        // (it reads a version header serialize_versioned never wrote) then misparses at most
        // one-byte length prefixes, so the defect shows as a wrong value / refusal inside the
        // process instead of an unvalidated multi-terabyte allocation that kills the worker
        // (that part is C15's subject).
        Fam::VersionedStruct => {
            let name: String = (0..gen_len(o[1], o[2], 40)).map(|j| (b'a' + ((i + j) % 26) as u8) as char).collect();
            Val::Ver(Ver::Struct(Rec { id: gen_u64(o[1], o[2], i) as u32 & 0x7F7F_7F7F, name, extra: Some(gen_u64(o[2], o[1], i) & 0x7F7F_7F7F_7F7F_7F7F) }))
        }
    }
}

fn endianness(e: u8) -> Endianness {
    match e {
        0 => Endianness::Little,
        1 => Endianness::Big,
        _ => Endianness::Native,
    }
}
fn end_write<T: EndianConvert>(v: T, e: u8, o: &mut DynOut) -> ZResult<()> {
    let mut buf = vec![0u8; std::mem::size_of::<T>()];
    EndianIO::<T>::new(endianness(e)).write_to_bytes(v, &mut buf)?;
    o.write_bytes(&buf)
}
fn end_read<T: EndianConvert>(e: u8, i: &mut DynIn) -> ZResult<T> {
    let mut buf = vec![0u8; std::mem::size_of::<T>()];
    i.read_bytes(&mut buf)?;
    EndianIO::<T>::new(endianness(e)).read_from_bytes(&buf)
}
fn cmp<T: PartialEq + Debug>(want: &T, got: &T) -> Option<String> {
    if want == got {
        None
    } else {
        let s = format!("{:?}", got);
        Some(s.chars().take(120).collect())
    }
}

fn cx_cfg(k: u8) -> ComplexTypeConfig {
    match k {
        0 => ComplexTypeConfig::new(),
        1 => ComplexTypeConfig::safe(),
        2 => ComplexTypeConfig::fast(),
        3 => ComplexTypeConfig::compact(),
        _ => ComplexTypeConfig::compatible(),
    }
}
fn cx_write<T: ComplexSerialize>(v: &T, meta: u8, o: &mut DynOut) -> ZResult<()> {
    match meta {
        0 => v.serialize_data(o),
        1 => v.serialize_with_metadata(o),
        _ => v.serialize_nested(o, 0),
    }
}
fn cx_read<T: ComplexSerialize>(meta: u8, i: &mut DynIn) -> ZResult<T> {
    match meta {
        0 => T::deserialize_with_version(i, T::version()),
        1 => T::deserialize_with_metadata(i),
        _ => T::deserialize_nested(i, 0),
    }
}

macro_rules! cx_each {
    ($cx:expr, $v:ident, $body:expr) => {
        match $cx {
            Cx::Unit => {
                let $v = &();
                $body
            }
            Cx::T1($v) => $body,
            Cx::T3($v) => $body,
            Cx::T7($v) => $body,
            Cx::T12($v) => $body,
            Cx::ArrU($v) => $body,
            Cx::ArrS($v) => $body,
            Cx::Arr0($v) => $body,
            Cx::OptS($v) => $body,
            Cx::OptV($v) => $body,
            Cx::Res($v) => $body,
            Cx::BMap($v) => $body,
            Cx::BSet($v) => $body,
            Cx::HMap($v) => $body,
            Cx::HSet($v) => $body,
            Cx::Nest($v) => $body,
        }
    };
}
fn cx_check<T: ComplexSerialize + PartialEq + Debug>(want: &T, meta: u8, i: &mut DynIn) -> ZResult<Option<String>> {
    let got: T = cx_read(meta, i)?;
    Ok(if &got == want { None } else { Some("(differs)".to_string()) })
}

impl Cx {
    fn name(&self) -> &'static str {
        match self {
            Cx::Unit => "()",
            Cx::T1(_) => "(u32,)",
            Cx::T3(_) => "(u32,String,bool)",
            Cx::T7(_) => "tuple7",
            Cx::T12(_) => "tuple12",
            Cx::ArrU(_) => "[u16;3]",
            Cx::ArrS(_) => "[String;2]",
            Cx::Arr0(_) => "[u32;0]",
            Cx::OptS(_) => "Option<String>",
            Cx::OptV(_) => "Option<Vec<u32>>",
            Cx::Res(_) => "Result<u32,String>",
            Cx::BMap(_) => "BTreeMap<String,u64>",
            Cx::BSet(_) => "BTreeSet<i32>",
            Cx::HMap(_) => "HashMap<u32,u64>",
            Cx::HSet(_) => "HashSet<u64>",
            Cx::Nest(_) => "nested",
        }
    }
    /// deterministic description (hash containers sorted)
    fn desc(&self) -> String {
        let s = match self {
            Cx::HMap(m) => format!("{:?}", m.iter().collect::<BTreeMap<_, _>>()),
            Cx::HSet(m) => format!("{:?}", m.iter().collect::<BTreeSet<_>>()),
            other => format!("{:?}", other),
        };
        if s.len() > 70 {
            format!("{}..#{:08x}", s.chars().take(40).collect::<String>(), fnv(s.as_bytes()) as u32)
        } else {
            s
        }
    }
}

const META: [&str; 3] = ["data", "with_metadata", "nested"];

impl Val {
    /// stable name of the value kind (used as the site in the value-family scenarios)
    fn kind(&self) -> String {
        match self {
            Val::U8(_) => "u8".into(),
            Val::U16(_) => "u16".into(),
            Val::U32(_) => "u32".into(),
            Val::U64(_) => "u64".into(),
            Val::Var(_) => "var_int".into(),
            Val::LpStr(_) => "length_prefixed_string".into(),
            Val::LpBytes(_) => "length_prefixed_bytes".into(),
            Val::Raw(_) => "bytes".into(),
            Val::RawStr(_) => "string".into(),
            Val::Skip(_) => "skip".into(),
            Val::End(t, _, _) => format!("EndianIO<{}>", END_TY[*t as usize]),
            Val::Cx(c, m) => format!("ComplexSerialize<{}>.{}", c.name(), META[*m as usize]),
            Val::CxBatch(..) => "ComplexTypeSerializer.batch".into(),
            Val::CxBytes(..) => "ComplexTypeSerializer.bytes".into(),
            Val::Sp(s) => match s {
                Sp::BoxS(_) => "Box<String>".into(),
                Sp::BoxBox(_) => "Box<Box<u64>>".into(),
                Sp::OptBox(_) => "Option<Box<u32>>".into(),
                Sp::RcS(_) => "Rc<String>".into(),
                Sp::ArcU(_) => "Arc<u64>".into(),
                Sp::ArcVec(_) => "Arc<Vec<u16>>".into(),
                Sp::VecRc(_) => "Vec<Rc<u32>>".into(),
                Sp::Shared { arc, .. } => if *arc { "Arc.shared_context".into() } else { "Rc.shared_context".into() },
                Sp::SerBytes(..) => "SmartPtrSerializer.bytes".into(),
                Sp::WeakRc(Some(_)) => "rc::Weak(live)".into(),
                Sp::WeakRc(None) => "rc::Weak(dangling)".into(),
                Sp::WeakArc(Some(_)) => "sync::Weak(live)".into(),
                Sp::WeakArc(None) => "sync::Weak(dangling)".into(),
            },
            Val::Ver(v) => match v {
                Ver::V(_) => "Version".into(),
                Ver::Field { .. } => "VersionManager.field".into(),
                Ver::Proxy { .. } => "VersionManager.proxy".into(),
                Ver::ProxyPlain(_) => "VersionProxy<String>".into(),
                Ver::SerBytes(..) => "VersionedSerializer.bytes".into(),
                Ver::Struct(_) => "VersionedSerialize.versioned".into(),
            },
        }
    }
    fn desc(&self) -> String {
        match self {
            Val::U8(v) => format!("u8 {:#x}", v),
            Val::U16(v) => format!("u16 {:#x}", v),
            Val::U32(v) => format!("u32 {:#x}", v),
            Val::U64(v) => format!("u64 {:#x}", v),
            Val::Var(v) => format!("var_int {:#x}", v),
            Val::LpStr(s) => format!("lp_string {}", short_str(s)),
            Val::LpBytes(b) => format!("lp_bytes {}", short_bytes(b)),
            Val::Raw(b) => format!("bytes {}", short_bytes(b)),
            Val::RawStr(s) => format!("string {}", short_str(s)),
            Val::Skip(b) => format!("bytes(to be skipped) {}", short_bytes(b)),
            Val::End(t, e, bits) => format!("EndianIO<{}>({:?}) bits={:#x}", END_TY[*t as usize], endianness(*e), bits),
            Val::Cx(c, m) => format!("{} [{}] {}", c.name(), META[*m as usize], c.desc()),
            Val::CxBatch(v, k) => format!("batch of {} (u32,String,bool) cfg{}", v.len(), k),
            Val::CxBytes(v, k) => format!("to_bytes ({:#x},{},{}) cfg{}", v.0, short_str(&v.1), v.2, k),
            Val::Sp(s) => {
                let d = format!("{:?}", s);
                format!("{} {}", self.kind(), if d.len() > 60 { format!("#{:08x}", fnv(d.as_bytes()) as u32) } else { d })
            }
            Val::Ver(v) => {
                let d = format!("{:?}", v);
                format!("{} {}", self.kind(), if d.len() > 90 { format!("#{:08x}", fnv(d.as_bytes()) as u32) } else { d })
            }
        }
    }
}
const END_TY: [&str; 11] = ["u8", "u16", "u32", "u64", "i8", "i16", "i32", "i64", "f32", "f64", "u128"];

fn sp_cfg(k: u8) -> SmartPtrConfig {
    match k {
        0 => SmartPtrConfig::new(),
        1 => SmartPtrConfig::performance_optimized(),
        2 => SmartPtrConfig::space_optimized(),
        _ => SmartPtrConfig::robust(),
    }
}
fn ver_cfg(k: u8) -> VersionConfig {
    match k {
        0 => VersionConfig::new(),
        1 => VersionConfig::strict(),
        2 => VersionConfig::flexible(),
        _ => VersionConfig::development(),
    }
}

impl Val {
    fn write(&self, o: &mut DynOut) -> ZResult<()> {
        match self {
            Val::U8(v) => o.write_u8(*v),
            Val::U16(v) => o.write_u16(*v),
            Val::U32(v) => o.write_u32(*v),
            Val::U64(v) => o.write_u64(*v),
            Val::Var(v) => o.write_var_int(*v),
            Val::LpStr(s) => o.write_length_prefixed_string(s),
            Val::LpBytes(b) => o.write_length_prefixed_bytes(b),
            Val::Raw(b) | Val::Skip(b) => o.write_bytes(b),
            Val::RawStr(s) => o.write_string(s),
            Val::End(t, e, bits) => {
                let b = *bits;
                match t {
                    0 => end_write(b as u8, *e, o),
                    1 => end_write(b as u16, *e, o),
                    2 => end_write(b as u32, *e, o),
                    3 => end_write(b, *e, o),
                    4 => end_write(b as i8, *e, o),
                    5 => end_write(b as i16, *e, o),
                    6 => end_write(b as i32, *e, o),
                    7 => end_write(b as i64, *e, o),
                    8 => end_write(f32::from_bits(b as u32), *e, o),
                    9 => end_write(f64::from_bits(b), *e, o),
                    _ => end_write(((b as u128) << 64) | (!b as u128), *e, o),
                }
            }
            Val::Cx(c, m) => cx_each!(c, v, cx_write(v, *m, o)),
            Val::CxBatch(vs, k) => {
                let bytes = ComplexTypeSerializer::new(cx_cfg(*k)).serialize_batch(vs)?;
                o.write_length_prefixed_bytes(&bytes)
            }
            Val::CxBytes(v, k) => {
                let bytes = ComplexTypeSerializer::new(cx_cfg(*k)).serialize_to_bytes(v)?;
                o.write_length_prefixed_bytes(&bytes)
            }
            Val::Sp(s) => match s {
                Sp::BoxS(v) => <Box<String> as SerializableType>::serialize(&Box::new(v.clone()), o),
                Sp::BoxBox(v) => <Box<Box<u64>> as SerializableType>::serialize(&Box::new(Box::new(*v)), o),
                Sp::OptBox(v) => <Option<Box<u32>> as SmartPtrSerialize<u32>>::serialize(&v.map(Box::new), o),
                Sp::RcS(v) => <Rc<String> as SerializableType>::serialize(&Rc::new(v.clone()), o),
                Sp::ArcU(v) => <Arc<u64> as SerializableType>::serialize(&Arc::new(*v), o),
                Sp::ArcVec(v) => <Arc<Vec<u16>> as SerializableType>::serialize(&Arc::new(v.clone()), o),
                Sp::VecRc(v) => <Vec<Rc<u32>> as SerializableType>::serialize(&v.iter().map(|x| Rc::new(*x)).collect(), o),
                Sp::Shared { vals, refs, detect, arc } => {
                    let mut ctx = if *detect { SerializationContext::new() } else { SerializationContext::without_cycle_detection() };
                    if *arc {
                        let objs: Vec<Arc<String>> = vals.iter().map(|s| Arc::new(s.clone())).collect();
                        for &r in refs {
                            <Arc<String> as SmartPtrSerialize<String>>::serialize_with_context(&objs[r], o, &mut ctx)?;
                        }
                    } else {
                        let objs: Vec<Rc<String>> = vals.iter().map(|s| Rc::new(s.clone())).collect();
                        for &r in refs {
                            <Rc<String> as SmartPtrSerialize<String>>::serialize_with_context(&objs[r], o, &mut ctx)?;
                        }
                    }
                    Ok(())
                }
                Sp::SerBytes(v, k) => {
                    let bytes = SmartPtrSerializer::new(sp_cfg(*k)).serialize_to_bytes::<String, Box<String>>(&Box::new(v.clone()))?;
                    o.write_length_prefixed_bytes(&bytes)
                }
                Sp::WeakRc(v) => {
                    let keep = Rc::new(v.unwrap_or(0));
                    let w = Rc::downgrade(&keep);
                    if v.is_none() {
                        drop(keep);
                        return <RcWeak<u32> as SmartPtrSerialize<u32>>::serialize(&w, o);
                    }
                    <RcWeak<u32> as SmartPtrSerialize<u32>>::serialize(&w, o)
                }
                Sp::WeakArc(v) => {
                    let keep = Arc::new(v.unwrap_or(0));
                    let w = Arc::downgrade(&keep);
                    if v.is_none() {
                        drop(keep);
                        return <ArcWeak<u64> as SmartPtrSerialize<u64>>::serialize(&w, o);
                    }
                    <ArcWeak<u64> as SmartPtrSerialize<u64>>::serialize(&w, o)
                }
            },
            Val::Ver(v) => match v {
                Ver::V(x) => ver(*x).serialize(o),
                Ver::Field { cur, min, val, sval, .. } => {
                    let mut m = VersionManager::new(ver(*cur));
                    if let Some(mn) = min {
                        m.register_field("f", ver(*mn));
                    }
                    match sval {
                        Some(s) => m.serialize_field("f", s, o),
                        None => m.serialize_field("f", val, o),
                    }
                }
                Ver::Proxy { cur, min, max, val } => {
                    let m = VersionManager::new(ver(*cur));
                    let p = match max {
                        Some(mx) => VersionProxy::with_range(*val, ver(*min), ver(*mx)),
                        None => VersionProxy::new(*val, ver(*min)),
                    };
                    m.serialize_proxy(&p, o)
                }
                Ver::ProxyPlain(s) => VersionProxy::new(s.clone(), Version::new(1, 0, 0)).serialize(o),
                Ver::SerBytes(r, k) => {
                    let bytes = VersionedSerializer::new(ver_cfg(*k)).serialize_to_bytes(r)?;
                    o.write_length_prefixed_bytes(&bytes)
                }
                Ver::Struct(r) => r.serialize_versioned(o),
            },
        }
    }

    /// Ok(None): read back an equal value.  Ok(Some(what)): read a different value.
    fn read_check(&self, i: &mut DynIn) -> ZResult<Option<String>> {
        Ok(match self {
            Val::U8(v) => cmp(v, &i.read_u8()?),
            Val::U16(v) => cmp(v, &i.read_u16()?),
            Val::U32(v) => cmp(v, &i.read_u32()?),
            Val::U64(v) => cmp(v, &i.read_u64()?),
            Val::Var(v) => cmp(v, &i.read_var_int()?),
            Val::LpStr(s) => {
                let g = i.read_length_prefixed_string()?;
                if &g == s { None } else { Some(short_str(&g)) }
            }
            Val::LpBytes(b) => {
                let g = i.read_length_prefixed_bytes()?;
                if &g == b { None } else { Some(short_bytes(&g)) }
            }
            Val::Raw(b) => {
                let g = i.read_vec(b.len())?;
                if &g == b { None } else { Some(short_bytes(&g)) }
            }
            Val::RawStr(s) => {
                let g = i.read_string(s.len())?;
                if &g == s { None } else { Some(short_str(&g)) }
            }
            Val::Skip(b) => {
                i.skip(b.len())?;
                None
            }
            Val::End(t, e, bits) => {
                let b = *bits;
                match t {
                    0 => cmp(&(b as u8), &end_read(*e, i)?),
                    1 => cmp(&(b as u16), &end_read(*e, i)?),
                    2 => cmp(&(b as u32), &end_read(*e, i)?),
                    3 => cmp(&b, &end_read(*e, i)?),
                    4 => cmp(&(b as i8), &end_read(*e, i)?),
                    5 => cmp(&(b as i16), &end_read(*e, i)?),
                    6 => cmp(&(b as i32), &end_read(*e, i)?),
                    7 => cmp(&(b as i64), &end_read(*e, i)?),
                    8 => cmp(&(b as u32), &end_read::<f32>(*e, i)?.to_bits()),
                    9 => cmp(&b, &end_read::<f64>(*e, i)?.to_bits()),
                    _ => cmp(&(((b as u128) << 64) | (!b as u128)), &end_read(*e, i)?),
                }
            }
            Val::Cx(c, m) => cx_each!(c, v, cx_check(v, *m, i)?),
            Val::CxBatch(vs, k) => {
                let bytes = i.read_length_prefixed_bytes()?;
                let g: Vec<T3> = ComplexTypeSerializer::new(cx_cfg(*k)).deserialize_batch(&bytes)?;
                cmp(vs, &g)
            }
            Val::CxBytes(v, k) => {
                let bytes = i.read_length_prefixed_bytes()?;
                let g: T3 = ComplexTypeSerializer::new(cx_cfg(*k)).deserialize_from_bytes(&bytes)?;
                cmp(v, &g)
            }
            Val::Sp(s) => match s {
                Sp::BoxS(v) => cmp(v, &*<Box<String> as SerializableType>::deserialize(i)?),
                Sp::BoxBox(v) => cmp(v, &**<Box<Box<u64>> as SerializableType>::deserialize(i)?),
                Sp::OptBox(v) => cmp(v, &<Option<Box<u32>> as SmartPtrSerialize<u32>>::deserialize(i)?.map(|b| *b)),
                Sp::RcS(v) => cmp(v, &*<Rc<String> as SerializableType>::deserialize(i)?),
                Sp::ArcU(v) => cmp(v, &*<Arc<u64> as SerializableType>::deserialize(i)?),
                Sp::ArcVec(v) => cmp(v, &*<Arc<Vec<u16>> as SerializableType>::deserialize(i)?),
                Sp::VecRc(v) => cmp(v, &<Vec<Rc<u32>> as SerializableType>::deserialize(i)?.iter().map(|r| **r).collect()),
                Sp::Shared { vals, refs, arc, .. } => {
                    let mut bad = None;
                    if *arc {
                        let mut ctx = DeserializationContext::<Arc<String>>::new();
                        for (k, &r) in refs.iter().enumerate() {
                            let g = <Arc<String> as SmartPtrSerialize<String>>::deserialize_with_context(i, &mut ctx)?;
                            if *g != vals[r] && bad.is_none() {
                                bad = Some(format!("reference #{} decoded to {}", k, short_str(&g)));
                            }
                        }
                    } else {
                        let mut ctx = DeserializationContext::<Rc<String>>::new();
                        for (k, &r) in refs.iter().enumerate() {
                            let g = <Rc<String> as SmartPtrSerialize<String>>::deserialize_with_context(i, &mut ctx)?;
                            if *g != vals[r] && bad.is_none() {
                                bad = Some(format!("reference #{} decoded to {}", k, short_str(&g)));
                            }
                        }
                    }
                    bad
                }
                Sp::SerBytes(v, k) => {
                    let bytes = i.read_length_prefixed_bytes()?;
                    let g: Box<String> = SmartPtrSerializer::new(sp_cfg(*k)).deserialize_from_bytes::<String, Box<String>>(&bytes)?;
                    cmp(v, &*g)
                }
                // A Weak has no equality of its own and a stand-alone decoded Weak cannot own
                // its referent; only byte consumption is checked (by the caller).
                Sp::WeakRc(_) => {
                    let _w = <RcWeak<u32> as SmartPtrSerialize<u32>>::deserialize(i)?;
                    None
                }
                Sp::WeakArc(_) => {
                    let _w = <ArcWeak<u64> as SmartPtrSerialize<u64>>::deserialize(i)?;
                    None
                }
            },
            Val::Ver(v) => match v {
                Ver::V(x) => cmp(&ver(*x), &Version::deserialize(i)?),
                Ver::Field { cur, min, read, val, sval } => {
                    let mut m = VersionManager::new(ver(*cur));
                    if let Some(mn) = min {
                        m.register_field("f", ver(*mn));
                    }
                    if let Some(r) = read {
                        m.set_reading_version(ver(*r));
                    }
                    let written = min.map_or(true, |mn| ver(*cur) >= ver(mn));
                    let wanted = written && min.map_or(true, |mn| ver(read.unwrap_or(*cur)) >= ver(mn));
                    match sval {
                        Some(s) => cmp(&(if wanted { Some(s.clone()) } else { None }), &m.deserialize_field::<String, _>("f", i)?),
                        None => cmp(&(if wanted { Some(*val) } else { None }), &m.deserialize_field::<u32, _>("f", i)?),
                    }
                }
                Ver::Proxy { cur, min, max, val } => {
                    let m = VersionManager::new(ver(*cur));
                    let written = ver(*cur) >= ver(*min) && max.map_or(true, |mx| ver(*cur) <= ver(mx));
                    let g = m.deserialize_proxy::<u32, _>(ver(*min), i)?.map(|p| p.into_data());
                    cmp(&(if written { Some(*val) } else { None }), &g)
                }
                Ver::ProxyPlain(s) => cmp(s, &VersionProxy::<String>::deserialize(i)?.into_data()),
                Ver::SerBytes(r, k) => {
                    let bytes = i.read_length_prefixed_bytes()?;
                    let g: Rec = VersionedSerializer::new(ver_cfg(*k)).deserialize_from_bytes(&bytes)?;
                    cmp(r, &g)
                }
                Ver::Struct(r) => cmp(r, &Rec::deserialize_versioned(i)?),
            },
        })
    }
}

// ---------------------------------------------------------------------------------------
// back ends

#[derive(Clone, Copy, PartialEq, Debug)]
enum Be {
    Plain,
    Buffered,
    ZeroCopy,
    Range,
    MultiRange,
    Stacked,
    SliceVec,
    File,
}
impl Be {
    fn label(self) -> &'static str {
        match self {
            Be::Plain => "ReaderWriterData",
            Be::Buffered => "StreamBuffered",
            Be::ZeroCopy => "ZeroCopy",
            Be::Range => "Range",
            Be::MultiRange => "MultiRange",
            Be::Stacked => "Stacked",
            Be::SliceVec => "SliceVec",
            Be::File => "FileMmap",
        }
    }
    fn has_fault_seam(self) -> bool {
        !matches!(self, Be::SliceVec | Be::File)
    }
}

/// (config, short description, is one of the shipped presets)
fn draw_sb_cfg(cfg: &Chan) -> (StreamBufferConfig, String) {
    match cfg.weighted(&[24, 1, 1, 1, 1]) {
        0 => {
            let init = *cfg.pick(&[1usize, 2, 3, 4, 5, 8, 16, 64]);
            let mult = *cfg.pick(&[1usize, 1, 2, 8]);
            let thr = *cfg.pick(&[1usize, 2, 4, 8, 16, 64, 4096, 0]);
            let c = StreamBufferConfig {
                initial_capacity: init,
                max_capacity: init * mult,
                growth_factor: *cfg.pick(&[1.5f64, 2.0, 1.618, 1.0]),
                page_alignment: *cfg.pick(&[1usize, 1, 2, 4]),
                use_secure_pool: cfg.chance(1, 20),
                bulk_read_threshold: thr,
                enable_readahead: cfg.below(2) == 1,
                readahead_multiplier: *cfg.pick(&[1usize, 2, 4]),
            };
            let d = format!("cap={} max={} align={} bulk>={} readahead={}x{} growth={}", c.initial_capacity, c.max_capacity, c.page_alignment, c.bulk_read_threshold, c.enable_readahead, c.readahead_multiplier, c.growth_factor);
            (c, d)
        }
        1 => (StreamBufferConfig::default(), "preset=default".into()),
        2 => (StreamBufferConfig::performance_optimized(), "preset=performance_optimized".into()),
        3 => (StreamBufferConfig::memory_efficient(), "preset=memory_efficient".into()),
        _ => (StreamBufferConfig::low_latency(), "preset=low_latency".into()),
    }
}
fn draw_zc_cap(cfg: &Chan) -> usize {
    *cfg.pick(&[1usize, 2, 3, 4, 8, 16, 64, 0, 65536])
}

#[derive(Clone, Debug)]
enum Layout {
    Whole,
    Range { start: u64, len: u64, exact: bool },
    Segs(Vec<(u64, u64)>),
    File,
}

/// Continuous stream over several RangeWriters (one per segment, each created with new_and_seek).
struct SegWriter {
    inner: Shared<FaultyWrite<Medium>>,
    segs: Vec<(u64, u64)>,
    cur: usize,
    w: Option<RangeWriter<Shared<FaultyWrite<Medium>>>>,
}
impl Write for SegWriter {
    fn write(&mut self, buf: &[u8]) -> io::Result<usize> {
        loop {
            if self.w.is_none() {
                if self.cur >= self.segs.len() {
                    return Ok(0);
                }
                let (s, e) = self.segs[self.cur];
                self.w = Some(RangeWriter::new_and_seek(self.inner.clone(), s, e - s).map_err(to_io)?);
            }
            let w = self.w.as_mut().unwrap();
            if w.is_at_end() {
                self.w = None;
                self.cur += 1;
                continue;
            }
            return w.write(buf);
        }
    }
    fn flush(&mut self) -> io::Result<()> {
        self.inner.flush()
    }
}

struct WBuilt<'a> {
    out: Box<dyn PosOut + 'a>,
    medium: Option<Medium>,
    layout: Layout,
    /// the medium as it was before writing (to detect writes outside the range)
    before: Vec<u8>,
}

fn draw_layers(cfg: &Chan) -> Vec<u64> {
    let n = 1 + cfg.below(3);
    (0..n).map(|_| cfg.below(4)).collect()
}

fn build_writer<'a>(cx: &mut Run, cfg: &Chan, be: Be, f: FaultCfg, log: SharedLog, total: usize, file: &'a TmpFile) -> ZResult<WBuilt<'a>> {
    let fchan = cx.src.chan("fault.w");
    match be {
        Be::SliceVec => {
            let o = if cfg.below(2) == 0 { VecDataOutput::new() } else { VecDataOutput::with_capacity(cfg.below(64) as usize) };
            cx.ev("writer: VecDataOutput");
            Ok(WBuilt { out: Box::new(VOut(o)), medium: None, layout: Layout::Whole, before: vec![] })
        }
        Be::File => {
            let k = cfg.below(4);
            let out: Box<dyn PosOut> = match k {
                0 => Box::new(FOut(FileDataOutput::create(&file.0)?)),
                1 => Box::new(FOut(FileDataOutput::append(&file.0)?)),
                _ => {
                    let init = *cfg.pick(&[1usize, 8, 64, 4096, 0]);
                    let trunc = k == 2;
                    cx.ev(format!("writer: MemoryMappedOutput::create(initial_size={}) truncate_at_end={}", init, trunc));
                    Box::new(MOut(MemoryMappedOutput::create(&file.0, init)?, trunc))
                }
            };
            if k < 2 {
                cx.ev(format!("writer: FileDataOutput::{}", if k == 0 { "create" } else { "append" }));
            }
            Ok(WBuilt { out, medium: None, layout: Layout::File, before: vec![] })
        }
        Be::Plain | Be::Buffered | Be::ZeroCopy | Be::Stacked => {
            let m = medium(vec![]);
            let fw = FaultyWrite::new(m.clone(), f, fchan, log);
            let top: Box<dyn Write> = match be {
                Be::Plain => {
                    cx.ev("writer: WriterDataOutput<medium>");
                    Box::new(fw)
                }
                Be::Buffered => {
                    let (c, d) = draw_sb_cfg(cfg);
                    cx.ev(format!("writer: WriterDataOutput<StreamBufferedWriter({})>", d));
                    Box::new(StreamBufferedWriter::with_config(fw, c)?)
                }
                Be::ZeroCopy => {
                    let cap = draw_zc_cap(cfg);
                    cx.ev(format!("writer: WriterDataOutput<ZeroCopyWriter(capacity={})>", cap));
                    Box::new(ZeroCopyWriter::with_capacity(fw, cap)?)
                }
                _ => {
                    let mut w: Box<dyn Write> = Box::new(fw);
                    let mut names = vec![];
                    for l in draw_layers(cfg) {
                        w = match l {
                            0 => {
                                let (c, d) = draw_sb_cfg(cfg);
                                names.push(format!("StreamBufferedWriter({})", d));
                                Box::new(StreamBufferedWriter::with_config(w, c)?)
                            }
                            1 => {
                                let cap = draw_zc_cap(cfg);
                                names.push(format!("ZeroCopyWriter({})", cap));
                                Box::new(ZeroCopyWriter::with_capacity(w, cap)?)
                            }
                            2 => {
                                let s = cfg.below(1000);
                                names.push(format!("RangeWriter(virtual start {}, len {})", s, total));
                                Box::new(RangeWriter::new(w, s, total as u64))
                            }
                            _ => {
                                let cap = 1 + cfg.below(16) as usize;
                                names.push(format!("std BufWriter({})", cap));
                                Box::new(io::BufWriter::with_capacity(cap, w))
                            }
                        };
                    }
                    cx.ev(format!("writer stack (bottom to top): medium, {}", names.join(", ")));
                    w
                }
            };
            Ok(WBuilt { out: Box::new(WOut(WriterDataOutput::new(top))), medium: Some(m), layout: Layout::Whole, before: vec![] })
        }
        Be::Range => {
            let start = cfg.below(40);
            let slack = cfg.biased_zero(4, 1, 3);
            let tail = cfg.below(20);
            let before = pattern((start + total as u64 + slack + tail) as usize, 7);
            let m = medium(before.clone());
            let fw = FaultyWrite::new(m.clone(), f, fchan, log);
            let len = total as u64 + slack;
            cx.ev(format!("writer: WriterDataOutput<RangeWriter::new_and_seek(start={}, len={})> over a {}-byte medium", start, len, before.len()));
            let w = RangeWriter::new_and_seek(fw, start, len)?;
            Ok(WBuilt { out: Box::new(WOut(WriterDataOutput::new(Box::new(w)))), medium: Some(m), layout: Layout::Range { start, len: total as u64, exact: slack == 0 }, before })
        }
        Be::MultiRange => {
            // split the stream into k segments, lay them out in rotated order with gaps
            let k = 1 + cfg.below(4) as usize;
            let mut cuts: Vec<usize> = (0..k - 1).map(|_| cfg.below(total as u64 + 1) as usize).collect();
            cuts.sort();
            let mut lens = vec![];
            let mut prev = 0;
            for c in cuts.iter().chain(std::iter::once(&total)) {
                lens.push(c - prev);
                prev = *c;
            }
            let rot = cfg.below(k as u64) as usize;
            let mut segs = vec![(0u64, 0u64); k];
            let mut off = cfg.below(8);
            for j in 0..k {
                let idx = (j + rot) % k;
                segs[idx] = (off, off + lens[idx] as u64);
                off += lens[idx] as u64 + cfg.below(6);
            }
            let before = pattern(off as usize + 3, 9);
            let m = medium(before.clone());
            let fw = Shared::new(FaultyWrite::new(m.clone(), f, fchan, log));
            cx.ev(format!("writer: WriterDataOutput over RangeWriter segments {:?} of a {}-byte medium", segs, before.len()));
            let w = SegWriter { inner: fw, segs: segs.clone(), cur: 0, w: None };
            Ok(WBuilt { out: Box::new(WOut(WriterDataOutput::new(Box::new(w)))), medium: Some(m), layout: Layout::Segs(segs), before })
        }
    }
}

fn build_reader<'a>(cx: &mut Run, cfg: &Chan, be: Be, data: &'a [u8], layout: &Layout, f: FaultCfg, log: SharedLog, total: usize, file: &'a TmpFile) -> ZResult<Box<dyn PosIn + 'a>> {
    let fchan = cx.src.chan("fault.r");
    match be {
        Be::SliceVec => {
            cx.ev("reader: SliceDataInput");
            Ok(Box::new(SIn(SliceDataInput::new(data))))
        }
        Be::File => {
            let k = cfg.below(5);
            cx.ev(format!("reader: {}", ["MmapDataInput::open", "MemoryMappedInput::from_path", "MemoryMappedInput::new(File)", "ReaderDataInput<MmapZeroCopyReader>", "ReaderDataInput<File>"][k as usize]));
            Ok(match k {
                0 => Box::new(MDIn(MmapDataInput::open(&file.0)?)),
                1 => {
                    let r = MemoryMappedInput::from_path(&file.0)?;
                    cx.probe(&format!("MemoryMappedInput.{:?}", r.strategy()));
                    Box::new(MMIn(r))
                }
                2 => {
                    let r = MemoryMappedInput::new(std::fs::File::open(&file.0).map_err(|e| to_z(e))?)?;
                    cx.probe(&format!("MemoryMappedInput.{:?}", r.strategy()));
                    Box::new(MMIn(r))
                }
                3 => Box::new(RIn(ReaderDataInput::new(Box::new(MmapZeroCopyReader::new(std::fs::File::open(&file.0).map_err(|e| to_z(e))?)?)))),
                _ => Box::new(RIn(ReaderDataInput::new(Box::new(std::fs::File::open(&file.0).map_err(|e| to_z(e))?)))),
            })
        }
        _ => {
            let fr = FaultyRead::new(Cursor::new(data.to_vec()), f, fchan, log);
            match (be, layout) {
                (Be::Plain, _) => {
                    cx.ev("reader: ReaderDataInput<medium>");
                    Ok(Box::new(RIn(ReaderDataInput::new(Box::new(fr)))))
                }
                (Be::Buffered, _) => {
                    let (c, d) = draw_sb_cfg(cfg);
                    cx.ev(format!("reader: ReaderDataInput<StreamBufferedReader({})>", d));
                    Ok(Box::new(RIn(ReaderDataInput::new(Box::new(StreamBufferedReader::with_config(fr, c)?)))))
                }
                (Be::ZeroCopy, _) => {
                    let cap = draw_zc_cap(cfg);
                    let secure = cfg.chance(1, 20);
                    cx.ev(format!("reader: ReaderDataInput<ZeroCopyReader(capacity={}{})>", cap, if secure { ", secure buffer" } else { "" }));
                    let r = if secure { ZeroCopyReader::with_secure_buffer(fr, cap)? } else { ZeroCopyReader::with_capacity(fr, cap)? };
                    Ok(Box::new(RIn(ReaderDataInput::new(Box::new(r)))))
                }
                (Be::Stacked, _) => {
                    let mut r: Box<dyn Read> = Box::new(fr);
                    let mut names = vec![];
                    for l in draw_layers(cfg) {
                        r = match l {
                            0 => {
                                let (c, d) = draw_sb_cfg(cfg);
                                names.push(format!("StreamBufferedReader({})", d));
                                Box::new(StreamBufferedReader::with_config(r, c)?)
                            }
                            1 => {
                                let cap = draw_zc_cap(cfg);
                                names.push(format!("ZeroCopyReader({})", cap));
                                Box::new(ZeroCopyReader::with_capacity(r, cap)?)
                            }
                            2 => {
                                let s = cfg.below(1000);
                                names.push(format!("RangeReader(virtual start {}, len {})", s, total));
                                Box::new(RangeReader::new(r, s, total as u64))
                            }
                            _ => {
                                let cap = 1 + cfg.below(16) as usize;
                                names.push(format!("std BufReader({})", cap));
                                Box::new(io::BufReader::with_capacity(cap, r))
                            }
                        };
                    }
                    cx.ev(format!("reader stack (bottom to top): medium, {}", names.join(", ")));
                    Ok(Box::new(RIn(ReaderDataInput::new(r))))
                }
                (Be::Range, Layout::Range { start, len, .. }) => {
                    let direct = cfg.below(2) == 0;
                    cx.ev(format!("reader: {}RangeReader::new_and_seek(start={}, len={})", if direct { "" } else { "ReaderDataInput<" }, start, len));
                    let r = RangeReader::new_and_seek(fr, *start, *len)?;
                    Ok(if direct { Box::new(RgIn(r)) } else { Box::new(RIn(ReaderDataInput::new(Box::new(r)))) })
                }
                (Be::MultiRange, Layout::Segs(segs)) => {
                    cx.ev(format!("reader: ReaderDataInput<MultiRangeReader({:?})>", segs));
                    Ok(Box::new(RIn(ReaderDataInput::new(Box::new(MultiRangeReader::new(fr, segs.clone()))))))
                }
                _ => unreachable!(),
            }
        }
    }
}
fn to_z(e: io::Error) -> zipora::error::ZiporaError {
    zipora::error::ZiporaError::io_error(e.to_string())
}

// ---------------------------------------------------------------------------------------
// the typed round trip (all back ends, all value families)

fn typed_run(cx: &mut Run, be: Be, hard: bool, fam: Fam) {
    let cfg = cx.src.chan("cfg");
    let planned = 2 + cfg.below(11);
    let ops = take_ops(cx, "ops", planned);
    let big = match be {
        Be::File => *cfg.pick(&[64usize, 300, 6000]),
        _ => [64usize, 300, 3000, 40000][cfg.weighted(&[5, 5, 2, 1])],
    };
    let vals: Vec<Val> = ops.iter().enumerate().map(|(i, o)| gen_val(fam, i, *o, big)).collect();
    let by_value = fam != Fam::Prim;
    let site_of = |v: &Val, what: &str| -> String { if by_value { v.kind() } else { format!("{}.{}", be.label(), what) } };

    // how many bytes will the encoders produce (sizing of ranges and of the cut offset)
    let mut dry = VecDataOutput::new();
    for v in &vals {
        if let Err(e) = v.write(&mut DynOut(&mut dry)) {
            cx.violate("unexpected_error", &site_of(v, "encode"), format!("encoding {} into a Vec failed: {}", v.desc(), clip(&e)));
            return;
        }
    }
    let total = dry.len();
    drop(dry);

    let (w_hard, r_hard) = if hard && be.has_fault_seam() { if cfg.below(2) == 0 { (true, false) } else { (false, true) } } else { (false, false) };
    let wf = e3::draw_cfg(&cfg, w_hard, total as u64 + 4);
    let rf = e3::draw_cfg(&cfg, r_hard, total as u64 + 4);
    let file = TmpFile::new(be == Be::File);

    // ---- write
    let wlog = e3::new_log();
    if be.has_fault_seam() {
        cx.ev(format!("write side: {} short={}% chunk={} eintr={}% error={}% cut={:?} flush_error={}%", if w_hard { "HARD" } else { "benign" }, wf.short_pct, wf.max_chunk, wf.eintr_pct, wf.error_pct, wf.cut_at, wf.flush_error_pct));
    }
    let built = match build_writer(cx, &cfg, be, wf, wlog.clone(), total, &file) {
        Ok(b) => b,
        Err(e) => {
            if be == Be::File {
                cx.ev(format!("cannot create the writer: {} (run abandoned)", clip(&e)));
                cx.probe("file_writer_create_failed");
                cx.abandoned = true;
            } else if hard_fired(&wlog) {
                note_faults(cx, &wlog, "write");
                cx.ev(format!("creating the writer failed after an injected fault: {}", clip(&e)));
            } else {
                cx.violate("unexpected_error", &format!("{}.create_writer", be.label()), clip(&e));
            }
            return;
        }
    };
    let WBuilt { mut out, medium: med, layout, before } = built;
    let mut wpos: Vec<u64> = vec![];
    let mut w_failed = false;
    for (i, v) in vals.iter().enumerate() {
        match v.write(&mut DynOut(out.out())) {
            Ok(()) => {
                wpos.push(out.pos());
                cx.ev(format!("w{} {} -> ok, writer at {}", i, v.desc(), out.pos()));
                cx.steps += 1;
            }
            Err(e) => {
                w_failed = true;
                if hard_fired(&wlog) {
                    cx.ev(format!("w{} {} -> Err after an injected hard fault (allowed): {}", i, v.desc(), clip(&e)));
                } else {
                    note_faults(cx, &wlog, "write");
                    cx.violate("unexpected_error", &site_of(v, "write"), format!("writing value #{} ({}) failed with no hard fault injected: {}", i, v.desc(), clip(&e)));
                    return;
                }
                break;
            }
        }
    }
    if !w_failed {
        if let Err(e) = out.finish() {
            w_failed = true;
            if hard_fired(&wlog) {
                cx.ev(format!("flush -> Err after an injected hard fault (allowed): {}", clip(&e)));
            } else {
                note_faults(cx, &wlog, "write");
                cx.violate("unexpected_error", &format!("{}.flush", be.label()), format!("flush failed with no hard fault injected: {}", clip(&e)));
                return;
            }
        } else {
            cx.ev("flush -> ok");
        }
    }
    let reported = out.pos();
    // VecDataOutput keeps its bytes itself
    let vec_bytes: Option<Vec<u8>> = out.bytes();
    // the medium is looked at before the writer stack is dropped: what a destructor retries
    // after a surfaced hard error is not part of what is checked
    let snapshot: Option<Vec<u8>> = med.as_ref().map(medium_bytes);
    drop(out);
    note_faults(cx, &wlog, "write");
    let delivered: Vec<u8> = match (snapshot, be) {
        (Some(m), _) => m,
        (None, Be::File) => std::fs::read(&file.0).unwrap_or_default(),
        _ => vec_bytes.unwrap_or_default(),
    };
    let complete = !w_failed;
    if complete {
        if reported != total as u64 {
            cx.violate("length_mismatch", &format!("{}.bytes_written", be.label()), format!("the writer reports {} bytes for values that encode to {} bytes into a Vec", reported, total));
            return;
        }
        match &layout {
            Layout::Whole => {
                if delivered.len() != total {
                    cx.violate("length_mismatch", &format!("{}.flush", be.label()), format!("the writer reported {} bytes, all writes and the flush succeeded, but the medium holds {} bytes", total, delivered.len()));
                    return;
                }
            }
            Layout::File => {
                if delivered.len() < total {
                    cx.violate("length_mismatch", &format!("{}.flush", be.label()), format!("the writer reported {} bytes but the file holds {} bytes", total, delivered.len()));
                    return;
                }
            }
            _ => {}
        }
    }
    // nothing outside the range(s) may have been touched, whatever happened
    let allowed: Vec<(u64, u64)> = match &layout {
        Layout::Range { start, len, .. } => vec![(*start, start + len)],
        Layout::Segs(s) => s.clone(),
        _ => vec![],
    };
    if !allowed.is_empty() {
        if delivered.len() != before.len() {
            cx.violate("range_overrun", &format!("{}.write", be.label()), format!("the medium changed size from {} to {} bytes", before.len(), delivered.len()));
            return;
        }
        for (j, (a, b)) in before.iter().zip(delivered.iter()).enumerate() {
            let inside = allowed.iter().any(|(s, e)| (j as u64) >= *s && (j as u64) < *e);
            if a != b && !inside {
                cx.violate("range_overrun", &format!("{}.write", be.label()), format!("byte {} of the medium lies outside the range(s) {:?} but was overwritten", j, allowed));
                return;
            }
        }
    }

    // ---- read back
    let n_check = if complete {
        vals.len()
    } else {
        match &layout {
            Layout::Whole => wpos.iter().filter(|p| **p <= delivered.len() as u64).count(),
            _ => 0,
        }
    };
    if !complete {
        cx.ev(format!("the write side failed; {} bytes were delivered, {} complete value(s) are read back", delivered.len(), n_check));
        if n_check == 0 {
            cx.nontrivial = wpos.len() >= 1;
            return;
        }
    }
    let rlog = e3::new_log();
    if be.has_fault_seam() {
        cx.ev(format!("read side: {} short={}% chunk={} eintr={}% error={}% cut={:?}", if r_hard { "HARD" } else { "benign" }, rf.short_pct, rf.max_chunk, rf.eintr_pct, rf.error_pct, rf.cut_at));
    }
    let what = if complete { "read" } else { "delivered_prefix" };
    let mut inp = match build_reader(cx, &cfg, be, &delivered, &layout, rf, rlog.clone(), total, &file) {
        Ok(r) => r,
        Err(e) => {
            if be == Be::File && delivered.is_empty() {
                cx.ev(format!("cannot open the empty file: {} (not checked)", clip(&e)));
            } else if hard_fired(&rlog) {
                note_faults(cx, &rlog, "read");
                cx.ev(format!("creating the reader failed after an injected fault: {}", clip(&e)));
            } else {
                cx.violate("unexpected_error", &format!("{}.create_reader", be.label()), clip(&e));
            }
            return;
        }
    };
    let mut stopped = false;
    for (i, v) in vals.iter().enumerate().take(n_check) {
        let r = v.read_check(&mut DynIn(inp.inp()));
        cx.steps += 1;
        match r {
            Ok(None) => {
                let p = inp.pos();
                if p != wpos[i] {
                    note_faults(cx, &rlog, "read");
                    cx.violate("consumed_mismatch", &site_of(v, what), format!("value #{} ({}) decoded to an equal value but the reader is at {} where the writer was at {} (value starts at {})", i, v.desc(), p, wpos[i], if i == 0 { 0 } else { wpos[i - 1] }));
                    return;
                }
                cx.ev(format!("r{} -> equal, reader at {}", i, p));
                cx.cell(format!("{}/{}/ok", be.label(), v.kind()));
            }
            Ok(Some(got)) => {
                note_faults(cx, &rlog, "read");
                cx.violate("wrong_value", &site_of(v, what), format!("value #{} written as {} was read back as {}", i, v.desc(), got));
                return;
            }
            Err(e) => {
                if hard_fired(&rlog) {
                    cx.ev(format!("r{} -> Err after an injected hard fault (allowed; checking of this stream stops): {}", i, clip(&e)));
                    cx.cell(format!("{}/{}/refused", be.label(), v.kind()));
                    stopped = true;
                    break;
                }
                note_faults(cx, &rlog, "read");
                cx.violate("unexpected_error", &site_of(v, what), format!("reading value #{} ({}) failed with no hard fault injected: {}", i, v.desc(), clip(&e)));
                return;
            }
        }
    }
    // a reader must not invent bytes past the end of what was written
    if !stopped && complete {
        let exact_end = match &layout {
            Layout::Whole | Layout::Segs(_) | Layout::Range { .. } => true,
            Layout::File => delivered.len() == total,
        };
        if exact_end {
            if let Ok(b) = inp.inp().read_u8() {
                if !hard_fired(&rlog) {
                    note_faults(cx, &rlog, "read");
                    cx.violate("read_past_end", &format!("{}.read", be.label()), format!("after all {} bytes were consumed the reader still returned a byte ({:#x})", total, b));
                    return;
                }
            }
        }
    }
    drop(inp);
    note_faults(cx, &rlog, "read");
    cx.nontrivial = n_check >= 2;
}

// ---------------------------------------------------------------------------------------
// raw-byte scenarios: the back ends' own read/write APIs against a position model

/// Outcome of one step of an API scenario.
enum Step {
    Go,
    Stop,
}

/// An error surfaced: allowed (and the stream is abandoned) iff a hard fault was injected before.
fn api_err(cx: &mut Run, log: &SharedLog, site: &str, what: &str, e: &dyn std::fmt::Display) -> Step {
    if hard_fired(log) {
        cx.ev(format!("{} -> Err after an injected hard fault (allowed; checking of this stream stops): {}", what, clip(e)));
    } else if e.to_string().contains("Buffer at maximum capacity") {
        // one root cause (a full buffer smaller than the request is not drained first) gets one identity
        cx.violate("unexpected_error", &format!("{}@buffer_at_max_capacity", site), format!("{} failed with no hard fault injected: {}", what, clip(e)));
    } else {
        cx.violate("unexpected_error", site, format!("{} failed with no hard fault injected: {}", what, clip(e)));
    }
    Step::Stop
}

fn size_arg(a: u64, b: u64, unit: usize) -> usize {
    match a % 6 {
        0 => (b % 4) as usize,
        1 | 2 => 1 + (b as usize) % (unit.max(1)),
        3 => unit + (b as usize) % (unit.max(1) + 1),
        4 => 2 * unit + 1 + (b as usize) % (2 * unit.max(1)),
        _ => (b as usize) % (5 * unit.max(1) + 2),
    }
}

fn api_sb_reader(cx: &mut Run, hard: bool) {
    let cfg = cx.src.chan("cfg");
    let (c, d) = draw_sb_cfg(&cfg);
    let preset = d.starts_with("preset");
    let unit = if preset { 3000 } else { c.initial_capacity };
    let max_cap = c.max_capacity;
    let len = if preset { *cfg.pick(&[100usize, 9000, 70_000, 140_000]) } else { cfg.below((6 * unit + 40) as u64) as usize };
    let data = pattern(len, 3);
    let f = e3::draw_cfg(&cfg, hard, len as u64 + 2);
    cx.ev(format!("StreamBufferedReader({}) over {} bytes; {} short={}% chunk={} eintr={}% error={}% cut={:?}", d, len, if hard { "HARD" } else { "benign" }, f.short_pct, f.max_chunk, f.eintr_pct, f.error_pct, f.cut_at));
    let log = e3::new_log();
    let fr = FaultyRead::new(Cursor::new(data.clone()), f, cx.src.chan("fault.r"), log.clone());
    let mut r = match StreamBufferedReader::with_config(fr, c) {
        Ok(r) => r,
        Err(e) => {
            cx.violate("unexpected_error", "StreamBufferedReader.with_config", clip(&e));
            return;
        }
    };
    let planned = 3 + cfg.below(10);
    let ops = take_ops(cx, "ops", planned);
    let mut pos = 0usize;
    let mut stop = false;
    for o in &ops {
        let n = size_arg(o[1], o[2], unit);
        let rem = len - pos;
        cx.steps += 1;
        let st = match o[0] % 8 {
            0 => {
                let n = n.min(rem);
                let mut buf = vec![0u8; n];
                match r.read_exact(&mut buf) {
                    Ok(()) => {
                        if buf[..] != data[pos..pos + n] {
                            cx.violate("wrong_value", "StreamBufferedReader.read", format!("read_exact({}) at {} returned {} instead of {}", n, pos, short_bytes(&buf), short_bytes(&data[pos..pos + n])));
                            Step::Stop
                        } else {
                            cx.ev(format!("read_exact({}) at {} -> ok", n, pos));
                            pos += n;
                            Step::Go
                        }
                    }
                    Err(e) => api_err(cx, &log, "StreamBufferedReader.read", &format!("read_exact({}) at {} ({} bytes remain)", n, pos, rem), &e),
                }
            }
            1 | 6 => {
                let bulk = o[0] % 8 == 6;
                let name = if bulk { "read_bulk" } else { "read" };
                let mut buf = vec![0u8; n];
                let res = if bulk { r.read_bulk(&mut buf).map_err(to_io) } else { r.read(&mut buf) };
                match res {
                    Ok(k) => {
                        if k > n || k > rem || buf[..k] != data[pos..pos + k] {
                            cx.violate("wrong_value", &format!("StreamBufferedReader.{}", name), format!("{}(buf of {}) at {} returned {} bytes {} instead of a prefix of the {} remaining bytes", name, n, pos, k, short_bytes(&buf[..k.min(n)]), rem));
                            Step::Stop
                        } else if k == 0 && n > 0 && rem > 0 && !hard_fired(&log) {
                            cx.violate("premature_eof", &format!("StreamBufferedReader.{}", name), format!("{}(buf of {}) at {} returned 0 although {} bytes remain", name, n, pos, rem));
                            Step::Stop
                        } else {
                            cx.ev(format!("{}(buf of {}) at {} -> {}", name, n, pos, k));
                            pos += k;
                            Step::Go
                        }
                    }
                    Err(e) => api_err(cx, &log, &format!("StreamBufferedReader.{}", name), &format!("{}(buf of {}) at {}", name, n, pos), &e),
                }
            }
            2 => match r.read_byte_fast() {
                Ok(b) => {
                    if rem == 0 || b != data[pos] {
                        cx.violate("wrong_value", "StreamBufferedReader.read_byte_fast", format!("read_byte_fast at {} returned {:#x}, expected {}", pos, b, if rem == 0 { "end of stream".to_string() } else { format!("{:#x}", data[pos]) }));
                        Step::Stop
                    } else {
                        cx.ev(format!("read_byte_fast at {} -> ok", pos));
                        pos += 1;
                        Step::Go
                    }
                }
                Err(e) => {
                    if rem == 0 {
                        cx.ev(format!("read_byte_fast at end -> Err (expected): {}", clip(&e)));
                        Step::Go
                    } else {
                        api_err(cx, &log, "StreamBufferedReader.read_byte_fast", &format!("read_byte_fast at {}", pos), &e)
                    }
                }
            },
            3 => match r.read_slice(n) {
                Ok(Some(s)) => {
                    if n > rem || s != &data[pos..pos + n] {
                        let got = short_bytes(s);
                        cx.violate("wrong_value", "StreamBufferedReader.read_slice", format!("read_slice({}) at {} returned {} ({} bytes remain)", n, pos, got, rem));
                        Step::Stop
                    } else {
                        cx.ev(format!("read_slice({}) at {} -> Some", n, pos));
                        pos += n;
                        Step::Go
                    }
                }
                Ok(None) => {
                    cx.ev(format!("read_slice({}) at {} -> None (nothing consumed)", n, pos));
                    Step::Go
                }
                Err(e) => {
                    if n > max_cap && !hard_fired(&log) {
                        cx.ev(format!("read_slice({}) with max_capacity {} -> Err (documented limit): {}", n, max_cap, clip(&e)));
                        Step::Go
                    } else {
                        api_err(cx, &log, "StreamBufferedReader.read_slice", &format!("read_slice({}) at {}", n, pos), &e)
                    }
                }
            },
            4 => {
                let mut buf = vec![0u8; n];
                match r.read_simd_optimized(&mut buf) {
                    Ok(k) => {
                        if k > n || k > rem || buf[..k] != data[pos..pos + k] {
                            cx.violate("wrong_value", "StreamBufferedReader.read_simd_optimized", format!("read_simd_optimized(buf of {}) at {} returned {} bytes {}", n, pos, k, short_bytes(&buf[..k.min(n)])));
                            Step::Stop
                        } else if k == 0 && n > 0 && rem > 0 && !hard_fired(&log) {
                            cx.violate("premature_eof", "StreamBufferedReader.read_simd_optimized", format!("returned 0 at {} although {} bytes remain", pos, rem));
                            Step::Stop
                        } else {
                            cx.ev(format!("read_simd_optimized(buf of {}) at {} -> {}", n, pos, k));
                            pos += k;
                            Step::Go
                        }
                    }
                    Err(e) => api_err(cx, &log, "StreamBufferedReader.read_simd_optimized", &format!("read_simd_optimized(buf of {}) at {}", n, pos), &e),
                }
            }
            5 => match r.fill_buf() {
                Ok(s) => {
                    let k = s.len();
                    if k > rem || s != &data[pos..pos + k] {
                        let got = short_bytes(s);
                        cx.violate("wrong_value", "StreamBufferedReader.fill_buf", format!("fill_buf at {} returned {} ({} bytes remain)", pos, got, rem));
                        Step::Stop
                    } else if k == 0 && rem > 0 && !hard_fired(&log) {
                        cx.violate("premature_eof", "StreamBufferedReader.fill_buf", format!("fill_buf at {} returned an empty slice although {} bytes remain", pos, rem));
                        Step::Stop
                    } else {
                        let take = if k == 0 { 0 } else { (o[3] as usize) % (k + 1) };
                        r.consume(take);
                        cx.ev(format!("fill_buf at {} -> {} bytes, consume({})", pos, k, take));
                        pos += take;
                        Step::Go
                    }
                }
                Err(e) => api_err(cx, &log, "StreamBufferedReader.fill_buf", &format!("fill_buf at {}", pos), &e),
            },
            _ => match r.ensure_buffered(n) {
                Ok(k) => {
                    if k > rem {
                        cx.violate("wrong_value", "StreamBufferedReader.ensure_buffered", format!("ensure_buffered({}) at {} reports {} buffered bytes but only {} remain", n, pos, k, rem));
                        Step::Stop
                    } else {
                        cx.ev(format!("ensure_buffered({}) at {} -> {}", n, pos, k));
                        if r.capacity() > unit {
                            cx.probe("buffer_grown");
                        }
                        Step::Go
                    }
                }
                Err(e) => {
                    if n > max_cap && !hard_fired(&log) {
                        cx.ev(format!("ensure_buffered({}) with max_capacity {} -> Err (documented limit): {}", n, max_cap, clip(&e)));
                        Step::Go
                    } else {
                        api_err(cx, &log, "StreamBufferedReader.ensure_buffered", &format!("ensure_buffered({}) at {}", n, pos), &e)
                    }
                }
            },
        };
        if let Step::Stop = st {
            stop = true;
            break;
        }
    }
    if !stop && !cx.failed() {
        let mut rest = vec![];
        match r.read_to_end(&mut rest) {
            Ok(_) => {
                let prefix_after_fault = hard_fired(&log) && rest.len() <= len - pos && rest[..] == data[pos..pos + rest.len()];
                if rest[..] != data[pos..] && !prefix_after_fault {
                    cx.violate("wrong_value", "StreamBufferedReader.read", format!("read_to_end from {} returned {} instead of {}", pos, short_bytes(&rest), short_bytes(&data[pos..])));
                } else {
                    cx.ev(format!("read_to_end from {} -> the remaining {} bytes", pos, rest.len()));
                }
            }
            Err(e) => {
                api_err(cx, &log, "StreamBufferedReader.read", &format!("read_to_end from {}", pos), &e);
            }
        }
    }
    note_faults(cx, &log, "read");
    cx.nontrivial = ops.len() >= 3;
}

fn api_sb_writer(cx: &mut Run, hard: bool) {
    let cfg = cx.src.chan("cfg");
    let (c, d) = draw_sb_cfg(&cfg);
    let preset = d.starts_with("preset");
    let unit = if preset { 3000 } else { c.initial_capacity };
    let f = e3::draw_cfg(&cfg, hard, (4 * unit) as u64);
    cx.ev(format!("StreamBufferedWriter({}); {} short={}% chunk={} eintr={}% error={}% cut={:?} flush_error={}%", d, if hard { "HARD" } else { "benign" }, f.short_pct, f.max_chunk, f.eintr_pct, f.error_pct, f.cut_at, f.flush_error_pct));
    let log = e3::new_log();
    let m = medium(vec![]);
    let fw = FaultyWrite::new(m.clone(), f, cx.src.chan("fault.w"), log.clone());
    let mut w = match StreamBufferedWriter::with_config(fw, c) {
        Ok(w) => w,
        Err(e) => {
            cx.violate("unexpected_error", "StreamBufferedWriter.with_config", clip(&e));
            return;
        }
    };
    let planned = 3 + cfg.below(10);
    let ops = take_ops(cx, "ops", planned);
    let mut model: Vec<u8> = vec![];
    let mut failed = false;
    for o in &ops {
        let n = size_arg(o[1], o[2], unit);
        let chunk: Vec<u8> = pattern(model.len() + n, 5)[model.len()..].to_vec();
        cx.steps += 1;
        let r: Result<(), (String, String)> = match o[0] % 5 {
            0 | 1 => {
                model.extend_from_slice(&chunk);
                w.write_all(&chunk).map(|_| cx.ev(format!("write_all({}) -> ok", n))).map_err(|e| (format!("write_all({})", n), clip(&e)))
            }
            2 => {
                let b = chunk.first().copied().unwrap_or(0x5A);
                model.push(b);
                w.write_byte_fast(b).map(|_| cx.ev("write_byte_fast -> ok")).map_err(|e| ("write_byte_fast".to_string(), clip(&e)))
            }
            3 => match w.write(&chunk) {
                Ok(k) => {
                    if k > n || (k == 0 && n > 0) {
                        cx.violate("wrong_value", "StreamBufferedWriter.write", format!("write(buf of {}) returned {}", n, k));
                        return;
                    }
                    model.extend_from_slice(&chunk[..k]);
                    cx.ev(format!("write(buf of {}) -> {}", n, k));
                    Ok(())
                }
                Err(e) => {
                    if e.kind() == io::ErrorKind::Interrupted {
                        cx.ev(format!("write(buf of {}) -> Interrupted (nothing written)", n));
                        Ok(())
                    } else {
                        model.extend_from_slice(&chunk);
                        Err((format!("write(buf of {})", n), clip(&e)))
                    }
                }
            },
            _ => match w.flush() {
                Ok(()) => {
                    let got = medium_bytes(&m);
                    if got != model {
                        cx.violate("wrong_value", "StreamBufferedWriter.flush", format!("after flush the medium holds {} but {} was written", short_bytes(&got), short_bytes(&model)));
                        return;
                    }
                    if w.buffer_usage() != 0 || w.total_written() != model.len() as u64 {
                        cx.violate("length_mismatch", "StreamBufferedWriter.total_written", format!("after flush buffer_usage()={} total_written()={} but {} bytes were written", w.buffer_usage(), w.total_written(), model.len()));
                        return;
                    }
                    cx.ev(format!("flush -> ok, medium holds all {} bytes", model.len()));
                    Ok(())
                }
                Err(e) => Err(("flush".to_string(), clip(&e))),
            },
        };
        if let Err((what, e)) = r {
            failed = true;
            if hard_fired(&log) {
                cx.ev(format!("{} -> Err after an injected hard fault (allowed; checking of this stream stops): {}", what, e));
            } else {
                cx.violate("unexpected_error", "StreamBufferedWriter.write", format!("{} failed with no hard fault injected: {}", what, e));
                return;
            }
            break;
        }
    }
    if !failed {
        match w.flush() {
            Ok(()) => {
                let got = medium_bytes(&m);
                if got != model {
                    cx.violate("wrong_value", "StreamBufferedWriter.flush", format!("after the final flush the medium holds {} but {} was written", short_bytes(&got), short_bytes(&model)));
                    return;
                }
                cx.ev(format!("final flush -> ok, medium holds all {} bytes", model.len()));
            }
            Err(e) => {
                failed = true;
                if !hard_fired(&log) {
                    cx.violate("unexpected_error", "StreamBufferedWriter.flush", clip(&e));
                    return;
                }
                cx.ev(format!("final flush -> Err after an injected hard fault (allowed): {}", clip(&e)));
            }
        }
    }
    if failed {
        let got = medium_bytes(&m);
        if got.len() > model.len() || got[..] != model[..got.len()] {
            cx.violate("wrong_value", "StreamBufferedWriter.delivered_prefix", format!("after the failure the medium holds {} which is not a prefix of what was written ({})", short_bytes(&got), short_bytes(&model)));
            return;
        }
        cx.ev(format!("the {} delivered bytes are a prefix of what was written", got.len()));
    }
    note_faults(cx, &log, "write");
    cx.nontrivial = ops.len() >= 3;
}

/// Seek target that stays inside [0, len]: (SeekFrom, resulting position, name)
fn seek_arg(o: &[u64; 4], pos: u64, len: u64) -> (SeekFrom, u64, &'static str) {
    let t = if len == 0 { 0 } else { o[2] % (len + 1) };
    match o[1] % 3 {
        0 => (SeekFrom::Start(t), t, "Start"),
        1 => (SeekFrom::Current(t as i64 - pos as i64), t, "Current"),
        _ => (SeekFrom::End(t as i64 - len as i64), t, "End"),
    }
}

/// Site of a data/position mismatch: the kind of the most recent seek, or plain reading/writing.
fn after_seek(target: &str, last: &str) -> String {
    if last == "none" {
        format!("{}.sequential", target)
    } else {
        format!("{}.seek({})", target, last)
    }
}

fn seek_sb_reader(cx: &mut Run) {
    let cfg = cx.src.chan("cfg");
    let (c, d) = draw_sb_cfg(&cfg);
    let preset = d.starts_with("preset");
    let unit = if preset { 300 } else { c.initial_capacity };
    let len = if preset { 2000 } else { 1 + cfg.below((6 * unit + 40) as u64) as usize };
    let data = pattern(len, 11);
    cx.ev(format!("StreamBufferedReader({}) over a Cursor of {} bytes", d, len));
    let mut r = match StreamBufferedReader::with_config(Cursor::new(data.clone()), c) {
        Ok(r) => r,
        Err(e) => {
            cx.violate("unexpected_error", "StreamBufferedReader.with_config", clip(&e));
            return;
        }
    };
    let planned = 3 + cfg.below(8);
    let ops = take_ops(cx, "ops", planned);
    let mut pos = 0u64;
    let mut last = "none";
    let mut seeks = 0;
    for o in &ops {
        cx.steps += 1;
        if o[0] % 2 == 0 {
            let n = (size_arg(o[1], o[2], unit) as u64).min(len as u64 - pos) as usize;
            let mut buf = vec![0u8; n];
            match r.read_exact(&mut buf) {
                Ok(()) => {
                    if buf[..] != data[pos as usize..pos as usize + n] {
                        cx.violate("wrong_value", &after_seek("StreamBufferedReader", last), format!("read_exact({}) at {} (last seek: {}) returned {} instead of {}", n, pos, last, short_bytes(&buf), short_bytes(&data[pos as usize..pos as usize + n])));
                        return;
                    }
                    cx.ev(format!("read_exact({}) at {} -> ok", n, pos));
                    pos += n as u64;
                }
                Err(e) => {
                    cx.violate("unexpected_error", &after_seek("StreamBufferedReader", last), format!("read_exact({}) at {} of {} (last seek: {}) failed: {}", n, pos, len, last, clip(&e)));
                    return;
                }
            }
        } else {
            let (sf, want, name) = seek_arg(o, pos, len as u64);
            last = name;
            seeks += 1;
            match r.seek(sf) {
                Ok(p) => {
                    if p != want {
                        cx.violate("wrong_position", &format!("StreamBufferedReader.seek({})", name), format!("seek({:?}) from logical position {} returned {} instead of {}", sf, pos, p, want));
                        return;
                    }
                    cx.ev(format!("seek({:?}) from {} -> {}", sf, pos, p));
                    pos = want;
                }
                Err(e) => {
                    cx.violate("unexpected_error", &format!("StreamBufferedReader.seek({})", name), format!("seek({:?}) from {} failed: {}", sf, pos, clip(&e)));
                    return;
                }
            }
        }
    }
    cx.nontrivial = seeks >= 1 && ops.len() >= 3;
}

fn seek_sb_writer(cx: &mut Run) {
    let cfg = cx.src.chan("cfg");
    let (c, d) = draw_sb_cfg(&cfg);
    let preset = d.starts_with("preset");
    let unit = if preset { 300 } else { c.initial_capacity };
    cx.ev(format!("StreamBufferedWriter({}) over a Cursor", d));
    let m = medium(vec![]);
    let mut w = match StreamBufferedWriter::with_config(m.clone(), c) {
        Ok(w) => w,
        Err(e) => {
            cx.violate("unexpected_error", "StreamBufferedWriter.with_config", clip(&e));
            return;
        }
    };
    let planned = 3 + cfg.below(8);
    let ops = take_ops(cx, "ops", planned);
    let mut model = Cursor::new(Vec::<u8>::new());
    let mut serial = 0usize;
    let mut seeks = 0;
    for o in &ops {
        cx.steps += 1;
        if o[0] % 2 == 0 {
            let n = size_arg(o[1], o[2], unit);
            let chunk: Vec<u8> = pattern(serial + n, 17)[serial..].to_vec();
            serial += n;
            model.write_all(&chunk).unwrap();
            if let Err(e) = w.write_all(&chunk) {
                cx.violate("unexpected_error", "StreamBufferedWriter.write", format!("write_all({}) failed: {}", n, clip(&e)));
                return;
            }
            cx.ev(format!("write_all({}) at {}", n, model.position() - n as u64));
        } else {
            let len = model.get_ref().len() as u64;
            let (sf, want, name) = seek_arg(o, model.position(), len);
            seeks += 1;
            model.seek(sf).unwrap();
            match w.seek(sf) {
                Ok(p) => {
                    if p != want {
                        cx.violate("wrong_position", &format!("StreamBufferedWriter.seek({})", name), format!("seek({:?}) returned {} instead of {}", sf, p, want));
                        return;
                    }
                    cx.ev(format!("seek({:?}) -> {}", sf, p));
                }
                Err(e) => {
                    cx.violate("unexpected_error", &format!("StreamBufferedWriter.seek({})", name), format!("seek({:?}) failed: {}", sf, clip(&e)));
                    return;
                }
            }
        }
    }
    if let Err(e) = w.flush() {
        cx.violate("unexpected_error", "StreamBufferedWriter.flush", clip(&e));
        return;
    }
    let got = medium_bytes(&m);
    if &got != model.get_ref() {
        cx.violate("wrong_value", "StreamBufferedWriter.seek", format!("after writes and seeks the medium holds {} but a Cursor given the same calls holds {}", short_bytes(&got), short_bytes(model.get_ref())));
        return;
    }
    cx.ev(format!("flush -> medium equals the model ({} bytes)", got.len()));
    cx.nontrivial = seeks >= 1 && ops.len() >= 3;
}

fn seek_range_reader(cx: &mut Run) {
    let cfg = cx.src.chan("cfg");
    let m_len = 1 + cfg.below(120);
    let start = cfg.below(m_len + 1);
    let len = cfg.below(m_len - start + 1);
    let data = pattern(m_len as usize, 19);
    let range = &data[start as usize..(start + len) as usize];
    cx.ev(format!("RangeReader::new_and_seek(start={}, len={}) over a Cursor of {} bytes", start, len, m_len));
    let mut r = match RangeReader::new_and_seek(Cursor::new(data.clone()), start, len) {
        Ok(r) => r,
        Err(e) => {
            cx.violate("unexpected_error", "RangeReader.new_and_seek", clip(&e));
            return;
        }
    };
    let planned = 3 + cfg.below(9);
    let ops = take_ops(cx, "ops", planned);
    let mut pos = 0u64;
    let mut last = "none";
    for o in &ops {
        cx.steps += 1;
        let rem = len - pos;
        let site = after_seek("RangeReader", last);
        match o[0] % 8 {
            0 | 1 => {
                let n = (o[2] % 12).min(rem) as usize;
                let mut buf = vec![0u8; n];
                let res = if o[0] % 8 == 0 { r.read_exact(&mut buf).map_err(|e| e.to_string()) } else { DataInput::read_bytes(&mut r, &mut buf).map_err(|e| e.to_string()) };
                match res {
                    Ok(()) => {
                        if buf[..] != range[pos as usize..pos as usize + n] {
                            cx.violate("wrong_value", &site, format!("reading {} bytes at range offset {} (last seek: {}) returned {} instead of {}", n, pos, last, short_bytes(&buf), short_bytes(&range[pos as usize..pos as usize + n])));
                            return;
                        }
                        cx.ev(format!("read {} at {} -> ok", n, pos));
                        pos += n as u64;
                    }
                    Err(e) => {
                        cx.violate("unexpected_error", &site, format!("reading {} bytes at range offset {} ({} remain) failed: {}", n, pos, rem, e));
                        return;
                    }
                }
            }
            2 => {
                let n = (o[2] % 16) as usize;
                let mut buf = vec![0u8; n];
                match r.read(&mut buf) {
                    Ok(k) => {
                        if k as u64 > rem || buf[..k] != range[pos as usize..pos as usize + k] || (k == 0 && n > 0 && rem > 0) {
                            cx.violate("wrong_value", &site, format!("read(buf of {}) at range offset {} ({} remain) returned {} bytes {}", n, pos, rem, k, short_bytes(&buf[..k.min(n)])));
                            return;
                        }
                        cx.ev(format!("read(buf of {}) at {} -> {}", n, pos, k));
                        pos += k as u64;
                    }
                    Err(e) => {
                        cx.violate("unexpected_error", &site, format!("read failed: {}", clip(&e)));
                        return;
                    }
                }
            }
            3 | 4 => {
                let (sf, want, name) = seek_arg(o, pos, len);
                last = name;
                match r.seek(sf) {
                    Ok(p) => {
                        if p != want {
                            cx.violate("wrong_position", &format!("RangeReader.seek({})", name), format!("seek({:?}) from range offset {} returned {} instead of {}", sf, pos, p, want));
                            return;
                        }
                        cx.ev(format!("seek({:?}) from {} -> {}", sf, pos, p));
                        pos = want;
                    }
                    Err(e) => {
                        cx.violate("unexpected_error", &format!("RangeReader.seek({})", name), clip(&e));
                        return;
                    }
                }
            }
            5 => {
                if len > 0 {
                    let t = o[2] % len;
                    last = "seek_in_range";
                    match r.seek_in_range(t) {
                        Ok(p) => {
                            if p != t {
                                cx.violate("wrong_position", "RangeReader.seek(seek_in_range)", format!("seek_in_range({}) returned {}", t, p));
                                return;
                            }
                            cx.ev(format!("seek_in_range({}) -> ok", t));
                            pos = t;
                        }
                        Err(e) => {
                            cx.violate("unexpected_error", "RangeReader.seek(seek_in_range)", format!("seek_in_range({}) with range length {} failed: {}", t, len, clip(&e)));
                            return;
                        }
                    }
                }
            }
            6 => {
                last = "reset";
                if let Err(e) = r.reset() {
                    cx.violate("unexpected_error", "RangeReader.seek(reset)", clip(&e));
                    return;
                }
                cx.ev("reset -> ok");
                pos = 0;
            }
            _ => {
                let n = (o[2] % 10).min(rem) as usize;
                if let Err(e) = DataInput::skip(&mut r, n) {
                    cx.violate("unexpected_error", &site, format!("skip({}) at {} ({} remain) failed: {}", n, pos, rem, clip(&e)));
                    return;
                }
                cx.ev(format!("skip({}) at {} -> ok", n, pos));
                pos += n as u64;
            }
        }
        let (p1, p2, p3) = (r.current_position() - r.start_position(), DataInput::position(&r).unwrap_or(u64::MAX), len - r.remaining());
        if p1 != pos || p2 != pos || p3 != pos {
            cx.violate("wrong_position", &after_seek("RangeReader", last), format!("logical range offset is {} but current_position()-start={}, position()={}, len-remaining()={}", pos, p1, p2, p3));
            return;
        }
    }
    cx.nontrivial = ops.len() >= 3;
}

fn seek_range_writer(cx: &mut Run) {
    let cfg = cx.src.chan("cfg");
    let m_len = 1 + cfg.below(120);
    let start = cfg.below(m_len + 1);
    let len = cfg.below(m_len - start + 1);
    let before = pattern(m_len as usize, 23);
    let m = medium(before.clone());
    cx.ev(format!("RangeWriter::new_and_seek(start={}, len={}) over a Cursor of {} bytes", start, len, m_len));
    let mut w = match RangeWriter::new_and_seek(m.clone(), start, len) {
        Ok(w) => w,
        Err(e) => {
            cx.violate("unexpected_error", "RangeWriter.new_and_seek", clip(&e));
            return;
        }
    };
    let mut model = before.clone();
    let planned = 3 + cfg.below(9);
    let ops = take_ops(cx, "ops", planned);
    let mut pos = 0u64;
    let mut serial = 0usize;
    let mut written = 0u64;
    let mut last = "none";
    for o in &ops {
        cx.steps += 1;
        let rem = len - pos;
        match o[0] % 4 {
            0 | 1 => {
                let n = if o[0] % 4 == 0 { (o[2] % 12).min(rem) as usize } else { (o[2] % 16) as usize };
                let chunk: Vec<u8> = pattern(serial + n, 29)[serial..].iter().map(|b| b ^ 0xFF).collect();
                serial += n;
                let res = if o[0] % 4 == 0 { w.write_all(&chunk).map(|_| n) } else { w.write(&chunk) };
                match res {
                    Ok(k) => {
                        if k as u64 > rem || k > n || (k == 0 && n > 0 && rem > 0) {
                            cx.violate("range_overrun", &after_seek("RangeWriter", last), format!("write of {} bytes at range offset {} ({} remain) reported {} bytes written", n, pos, rem, k));
                            return;
                        }
                        let a = (start + pos) as usize;
                        model[a..a + k].copy_from_slice(&chunk[..k]);
                        cx.ev(format!("write {} at {} -> {}", n, pos, k));
                        pos += k as u64;
                        written += k as u64;
                    }
                    Err(e) => {
                        cx.violate("unexpected_error", &after_seek("RangeWriter", last), format!("write of {} bytes at range offset {} ({} remain) failed: {}", n, pos, rem, clip(&e)));
                        return;
                    }
                }
            }
            _ => {
                let (sf, want, name) = seek_arg(o, pos, len);
                last = name;
                match w.seek(sf) {
                    Ok(p) => {
                        if p != want {
                            cx.violate("wrong_position", &format!("RangeWriter.seek({})", name), format!("seek({:?}) from range offset {} returned {} instead of {}", sf, pos, p, want));
                            return;
                        }
                        cx.ev(format!("seek({:?}) from {} -> {}", sf, pos, p));
                        pos = want;
                    }
                    Err(e) => {
                        cx.violate("unexpected_error", &format!("RangeWriter.seek({})", name), clip(&e));
                        return;
                    }
                }
            }
        }
        if w.current_position() - w.start_position() != pos || w.remaining() != len - pos || w.bytes_written() != written {
            cx.violate("wrong_position", &after_seek("RangeWriter", last), format!("logical range offset {} (written {}) but current_position()-start={}, remaining()={}, bytes_written()={}", pos, written, w.current_position() - w.start_position(), w.remaining(), w.bytes_written()));
            return;
        }
    }
    let _ = w.flush();
    let got = medium_bytes(&m);
    if got != model {
        let j = got.iter().zip(model.iter()).position(|(a, b)| a != b).unwrap_or(got.len().min(model.len()));
        cx.violate("wrong_value", &after_seek("RangeWriter", last), format!("medium differs from the model at byte {} (range is {}..{}); sizes {} vs {}", j, start, start + len, got.len(), model.len()));
        return;
    }
    cx.ev("medium equals the model");
    cx.nontrivial = ops.len() >= 3;
}

fn api_zc_reader(cx: &mut Run, hard: bool) {
    let cfg = cx.src.chan("cfg");
    let cap = *cfg.pick(&[1usize, 2, 3, 4, 8, 16, 64, 0]);
    let unit = cap.max(1);
    let len = cfg.below((6 * unit + 40) as u64) as usize;
    let data = pattern(len, 31);
    let f = e3::draw_cfg(&cfg, hard, len as u64 + 2);
    cx.ev(format!("ZeroCopyReader(capacity={}) over {} bytes; {} short={}% chunk={} eintr={}% error={}% cut={:?}", cap, len, if hard { "HARD" } else { "benign" }, f.short_pct, f.max_chunk, f.eintr_pct, f.error_pct, f.cut_at));
    let log = e3::new_log();
    let fr = FaultyRead::new(Cursor::new(data.clone()), f, cx.src.chan("fault.r"), log.clone());
    let mut r = match ZeroCopyReader::with_capacity(fr, cap) {
        Ok(r) => r,
        Err(e) => {
            cx.violate("unexpected_error", "ZeroCopyReader.with_capacity", clip(&e));
            return;
        }
    };
    let planned = 3 + cfg.below(10);
    let ops = take_ops(cx, "ops", planned);
    let mut pos = 0usize;
    let mut stop = false;
    for o in &ops {
        let n = size_arg(o[1], o[2], unit);
        let rem = len - pos;
        cx.steps += 1;
        let st = match o[0] % 8 {
            0 => {
                let n = n.min(rem);
                let mut buf = vec![0u8; n];
                match r.read_exact(&mut buf) {
                    Ok(()) => {
                        if buf[..] != data[pos..pos + n] {
                            cx.violate("wrong_value", "ZeroCopyReader.read", format!("read_exact({}) at {} returned {} instead of {}", n, pos, short_bytes(&buf), short_bytes(&data[pos..pos + n])));
                            Step::Stop
                        } else {
                            cx.ev(format!("read_exact({}) at {} -> ok", n, pos));
                            pos += n;
                            Step::Go
                        }
                    }
                    Err(e) => {
                        if e.kind() == io::ErrorKind::UnexpectedEof && !hard_fired(&log) {
                            cx.violate("premature_eof", "ZeroCopyReader.read", format!("read_exact({}) at {} hit end of stream although {} bytes remain", n, pos, rem));
                            Step::Stop
                        } else {
                            api_err(cx, &log, "ZeroCopyReader.read", &format!("read_exact({}) at {}", n, pos), &e)
                        }
                    }
                }
            }
            1 | 2 => {
                let opt = o[0] % 8 == 2;
                let name = if opt { "read_optimized" } else { "read" };
                let mut buf = vec![0u8; n];
                let res = if opt { r.read_optimized(&mut buf).map_err(to_io) } else { r.read(&mut buf) };
                match res {
                    Ok(k) => {
                        if k > n || k > rem || buf[..k] != data[pos..pos + k] {
                            cx.violate("wrong_value", &format!("ZeroCopyReader.{}", name), format!("{}(buf of {}) at {} returned {} bytes {} ({} remain)", name, n, pos, k, short_bytes(&buf[..k.min(n)]), rem));
                            Step::Stop
                        } else if k == 0 && n > 0 && rem > 0 && !hard_fired(&log) {
                            cx.violate("premature_eof", &format!("ZeroCopyReader.{}", name), format!("{}(buf of {}) at {} returned 0 although {} bytes remain", name, n, pos, rem));
                            Step::Stop
                        } else {
                            cx.ev(format!("{}(buf of {}) at {} -> {}", name, n, pos, k));
                            pos += k;
                            Step::Go
                        }
                    }
                    Err(e) => api_err(cx, &log, &format!("ZeroCopyReader.{}", name), &format!("{}(buf of {}) at {}", name, n, pos), &e),
                }
            }
            3 => match r.zc_read(n) {
                Ok(Some(s)) => {
                    if n > rem || s.len() != n || s != &data[pos..pos + n] {
                        let got = short_bytes(s);
                        cx.violate("wrong_value", "ZeroCopyReader.zc_read", format!("zc_read({}) at {} returned {} ({} remain)", n, pos, got, rem));
                        Step::Stop
                    } else {
                        let adv = (o[3] as usize) % (n + 1);
                        match r.zc_advance(adv) {
                            Ok(()) => {
                                cx.ev(format!("zc_read({}) at {} -> Some, zc_advance({})", n, pos, adv));
                                pos += adv;
                                Step::Go
                            }
                            Err(e) => api_err(cx, &log, "ZeroCopyReader.zc_advance", &format!("zc_advance({}) after zc_read({})", adv, n), &e),
                        }
                    }
                }
                Ok(None) => {
                    cx.ev(format!("zc_read({}) at {} -> None (nothing consumed)", n, pos));
                    Step::Go
                }
                Err(e) => api_err(cx, &log, "ZeroCopyReader.zc_read", &format!("zc_read({}) at {}", n, pos), &e),
            },
            4 => match r.peek(n) {
                Ok(s) => {
                    let k = s.len();
                    if k > n || k > rem || s != &data[pos..pos + k] {
                        let got = short_bytes(s);
                        cx.violate("wrong_value", "ZeroCopyReader.peek", format!("peek({}) at {} returned {} ({} remain)", n, pos, got, rem));
                        Step::Stop
                    } else {
                        cx.ev(format!("peek({}) at {} -> {} bytes", n, pos, k));
                        Step::Go
                    }
                }
                Err(e) => api_err(cx, &log, "ZeroCopyReader.peek", &format!("peek({}) at {}", n, pos), &e),
            },
            5 => {
                let n = n.min(rem);
                match r.skip_bytes(n) {
                    Ok(()) => {
                        cx.ev(format!("skip_bytes({}) at {} -> ok", n, pos));
                        pos += n;
                        Step::Go
                    }
                    Err(e) => api_err(cx, &log, "ZeroCopyReader.skip_bytes", &format!("skip_bytes({}) at {} ({} remain)", n, pos, rem), &e),
                }
            }
            6 => match r.zc_ensure(n) {
                Ok(k) => {
                    if k > n || k > rem {
                        cx.violate("wrong_value", "ZeroCopyReader.zc_ensure", format!("zc_ensure({}) at {} -> {} but only {} remain", n, pos, k, rem));
                        Step::Stop
                    } else {
                        cx.ev(format!("zc_ensure({}) at {} -> {}", n, pos, k));
                        Step::Go
                    }
                }
                Err(e) => api_err(cx, &log, "ZeroCopyReader.zc_ensure", &format!("zc_ensure({}) at {}", n, pos), &e),
            },
            _ => {
                let a = r.zc_available();
                if a > rem {
                    cx.violate("wrong_value", "ZeroCopyReader.zc_available", format!("zc_available()={} at {} but only {} remain", a, pos, rem));
                    Step::Stop
                } else {
                    cx.ev(format!("zc_available() at {} -> {}", pos, a));
                    Step::Go
                }
            }
        };
        if let Step::Stop = st {
            stop = true;
            break;
        }
    }
    if !stop && !cx.failed() {
        let mut rest = vec![];
        match r.read_to_end(&mut rest) {
            Ok(_) => {
                if rest.len() < len - pos && rest[..] == data[pos..pos + rest.len()] && !hard_fired(&log) {
                    cx.violate("premature_eof", "ZeroCopyReader.read", format!("read_to_end from {} stopped after {} bytes although {} remain", pos, rest.len(), len - pos));
                } else if rest[..] != data[pos..] && !(hard_fired(&log) && rest.len() <= len - pos && rest[..] == data[pos..pos + rest.len()]) {
                    cx.violate("wrong_value", "ZeroCopyReader.read", format!("read_to_end from {} returned {} instead of {}", pos, short_bytes(&rest), short_bytes(&data[pos..])));
                } else {
                    cx.ev(format!("read_to_end from {} -> {} bytes", pos, rest.len()));
                }
            }
            Err(e) => {
                api_err(cx, &log, "ZeroCopyReader.read", &format!("read_to_end from {}", pos), &e);
            }
        }
    }
    note_faults(cx, &log, "read");
    cx.nontrivial = ops.len() >= 3;
}

fn api_zc_writer(cx: &mut Run, hard: bool) {
    let cfg = cx.src.chan("cfg");
    let cap = *cfg.pick(&[1usize, 2, 3, 4, 8, 16, 64, 0]);
    let unit = cap.max(1);
    let f = e3::draw_cfg(&cfg, hard, (4 * unit) as u64);
    cx.ev(format!("ZeroCopyWriter(capacity={}); {} short={}% chunk={} eintr={}% error={}% cut={:?} flush_error={}%", cap, if hard { "HARD" } else { "benign" }, f.short_pct, f.max_chunk, f.eintr_pct, f.error_pct, f.cut_at, f.flush_error_pct));
    let log = e3::new_log();
    let m = medium(vec![]);
    let fw = FaultyWrite::new(m.clone(), f, cx.src.chan("fault.w"), log.clone());
    let mut w = match ZeroCopyWriter::with_capacity(fw, cap) {
        Ok(w) => w,
        Err(e) => {
            cx.violate("unexpected_error", "ZeroCopyWriter.with_capacity", clip(&e));
            return;
        }
    };
    let planned = 3 + cfg.below(10);
    let ops = take_ops(cx, "ops", planned);
    let mut model: Vec<u8> = vec![];
    let mut failed = false;
    for o in &ops {
        let n = size_arg(o[1], o[2], unit);
        let chunk: Vec<u8> = pattern(model.len() + n, 37)[model.len()..].to_vec();
        cx.steps += 1;
        let r: Result<(), (String, String)> = match o[0] % 5 {
            0 => {
                model.extend_from_slice(&chunk);
                w.write_all(&chunk).map(|_| cx.ev(format!("write_all({}) -> ok", n))).map_err(|e| (format!("write_all({})", n), clip(&e)))
            }
            1 => match w.write(&chunk) {
                Ok(k) => {
                    if k > n || (k == 0 && n > 0) {
                        cx.violate("wrong_value", "ZeroCopyWriter.write", format!("write(buf of {}) returned {}", n, k));
                        return;
                    }
                    model.extend_from_slice(&chunk[..k]);
                    cx.ev(format!("write(buf of {}) -> {}", n, k));
                    Ok(())
                }
                Err(e) => {
                    if e.kind() == io::ErrorKind::Interrupted {
                        cx.ev(format!("write(buf of {}) -> Interrupted (nothing written)", n));
                        Ok(())
                    } else {
                        model.extend_from_slice(&chunk);
                        Err((format!("write(buf of {})", n), clip(&e)))
                    }
                }
            },
            2 => match w.zc_write(n) {
                Ok(Some(buf)) => {
                    if buf.len() != n {
                        let l = buf.len();
                        cx.violate("wrong_value", "ZeroCopyWriter.zc_write", format!("zc_write({}) handed out {} bytes", n, l));
                        return;
                    }
                    buf.copy_from_slice(&chunk);
                    let commit = (o[3] as usize) % (n + 1);
                    model.extend_from_slice(&chunk[..commit]);
                    w.zc_commit(commit).map(|_| cx.ev(format!("zc_write({}) -> Some, zc_commit({})", n, commit))).map_err(|e| (format!("zc_commit({})", commit), clip(&e)))
                }
                Ok(None) => {
                    cx.ev(format!("zc_write({}) -> None", n));
                    Ok(())
                }
                Err(e) => Err((format!("zc_write({})", n), clip(&e))),
            },
            3 => match w.zc_ensure_write(n) {
                Ok(k) => {
                    if k > n {
                        cx.violate("wrong_value", "ZeroCopyWriter.zc_ensure_write", format!("zc_ensure_write({}) -> {}", n, k));
                        return;
                    }
                    cx.ev(format!("zc_ensure_write({}) -> {}", n, k));
                    Ok(())
                }
                Err(e) => Err((format!("zc_ensure_write({})", n), clip(&e))),
            },
            _ => match w.flush() {
                Ok(()) => {
                    let got = medium_bytes(&m);
                    if got != model {
                        cx.violate("wrong_value", "ZeroCopyWriter.flush", format!("after flush the medium holds {} but {} was written", short_bytes(&got), short_bytes(&model)));
                        return;
                    }
                    cx.ev(format!("flush -> ok, medium holds all {} bytes", model.len()));
                    Ok(())
                }
                Err(e) => Err(("flush".to_string(), clip(&e))),
            },
        };
        if let Err((what, e)) = r {
            failed = true;
            if hard_fired(&log) {
                cx.ev(format!("{} -> Err after an injected hard fault (allowed; checking of this stream stops): {}", what, e));
            } else {
                cx.violate("unexpected_error", "ZeroCopyWriter.write", format!("{} failed with no hard fault injected: {}", what, e));
                return;
            }
            break;
        }
    }
    if !failed {
        match w.flush() {
            Ok(()) => {
                let got = medium_bytes(&m);
                if got != model {
                    cx.violate("wrong_value", "ZeroCopyWriter.flush", format!("after the final flush the medium holds {} but {} was written", short_bytes(&got), short_bytes(&model)));
                    return;
                }
                cx.ev(format!("final flush -> ok, medium holds all {} bytes", model.len()));
            }
            Err(e) => {
                failed = true;
                if !hard_fired(&log) {
                    cx.violate("unexpected_error", "ZeroCopyWriter.flush", clip(&e));
                    return;
                }
                cx.ev(format!("final flush -> Err after an injected hard fault (allowed): {}", clip(&e)));
            }
        }
    }
    if failed {
        let got = medium_bytes(&m);
        if got.len() > model.len() || got[..] != model[..got.len()] {
            cx.violate("wrong_value", "ZeroCopyWriter.delivered_prefix", format!("after the failure the medium holds {} which is not a prefix of what was written ({})", short_bytes(&got), short_bytes(&model)));
            return;
        }
        cx.ev(format!("the {} delivered bytes are a prefix of what was written", got.len()));
    }
    note_faults(cx, &log, "write");
    cx.nontrivial = ops.len() >= 3;
}

fn api_mmap_input(cx: &mut Run) {
    let cfg = cx.src.chan("cfg");
    let len = *cfg.pick(&[0usize, 1, 7, 100, 4096, 4097, 9000]) + cfg.below(5) as usize;
    let data = pattern(len, 41);
    let file = TmpFile::new(true);
    if std::fs::write(&file.0, &data).is_err() {
        cx.abandoned = true;
        return;
    }
    let mut r = match MemoryMappedInput::from_path(&file.0) {
        Ok(r) => r,
        Err(e) => {
            if len == 0 {
                cx.ev(format!("MemoryMappedInput::from_path on an empty file -> Err: {}", clip(&e)));
            } else {
                cx.violate("unexpected_error", "MemoryMappedInput.from_path", format!("{}-byte file: {}", len, clip(&e)));
            }
            return;
        }
    };
    let strat = format!("{:?}", r.strategy());
    cx.ev(format!("MemoryMappedInput over a {}-byte file, strategy {}", len, strat));
    cx.probe(&format!("MemoryMappedInput.{}", strat));
    let buffered = strat == "BufferedIO";
    let planned = 3 + cfg.below(9);
    let ops = take_ops(cx, "ops", planned);
    let mut pos = 0usize;
    for o in &ops {
        cx.steps += 1;
        let rem = len - pos;
        let over = o[3] % 8 == 0;
        let n = if over { rem + 1 + (o[2] % 3) as usize } else { (o[2] as usize % 24).min(rem) };
        let site = "MemoryMappedInput.read";
        macro_rules! expect_err {
            ($res:expr, $what:expr) => {
                if $res.is_ok() {
                    cx.violate("read_past_end", site, format!("{} at {} succeeded although only {} bytes remain", $what, pos, rem));
                    return;
                } else {
                    cx.ev(format!("{} at {} ({} remain) -> Err (expected)", $what, pos, rem));
                }
            };
        }
        match o[0] % 7 {
            0 | 1 => {
                let zc = o[0] % 7 == 1;
                let name = if zc { "read_slice_zero_copy" } else { "read_slice" };
                let res: ZResult<Vec<u8>> = if zc { r.read_slice_zero_copy(n).map(|s| s.to_vec()) } else { r.read_slice(n) };
                if over {
                    expect_err!(res, format!("{}({})", name, n));
                } else {
                    match res {
                        Ok(v) => {
                            if v[..] != data[pos..pos + n] {
                                cx.violate("wrong_value", site, format!("{}({}) at {} returned {} instead of {}", name, n, pos, short_bytes(&v), short_bytes(&data[pos..pos + n])));
                                return;
                            }
                            cx.ev(format!("{}({}) at {} -> ok", name, n, pos));
                            pos += n;
                        }
                        Err(e) => {
                            if zc && buffered {
                                cx.ev(format!("{} under BufferedIO -> Err (documented: not supported)", name));
                            } else {
                                cx.violate("unexpected_error", site, format!("{}({}) at {} ({} remain) failed: {}", name, n, pos, rem, clip(&e)));
                                return;
                            }
                        }
                    }
                }
            }
            2 => {
                let res = r.peek_slice(n);
                if over {
                    expect_err!(res, format!("peek_slice({})", n));
                } else {
                    match res {
                        Ok(v) => {
                            if v[..] != data[pos..pos + n] {
                                cx.violate("wrong_value", "MemoryMappedInput.peek_slice", format!("peek_slice({}) at {} returned {}", n, pos, short_bytes(&v)));
                                return;
                            }
                            cx.ev(format!("peek_slice({}) at {} -> ok", n, pos));
                        }
                        Err(e) => {
                            if buffered {
                                cx.ev("peek_slice under BufferedIO -> Err (documented: not supported)");
                            } else {
                                cx.violate("unexpected_error", "MemoryMappedInput.peek_slice", clip(&e));
                                return;
                            }
                        }
                    }
                }
            }
            3 => {
                let t = if over { len + 1 + (o[2] % 3) as usize } else { (o[2] as usize) % (len + 1) };
                let res = r.seek(t);
                if over {
                    expect_err!(res, format!("seek({})", t));
                } else if let Err(e) = res {
                    cx.violate("unexpected_error", "MemoryMappedInput.seek", format!("seek({}) in a {}-byte file failed: {}", t, len, clip(&e)));
                    return;
                } else {
                    cx.ev(format!("seek({}) -> ok", t));
                    pos = t;
                }
            }
            4 => {
                let res = DataInput::skip(&mut r, n);
                if over {
                    expect_err!(res, format!("skip({})", n));
                } else if let Err(e) = res {
                    cx.violate("unexpected_error", "MemoryMappedInput.skip", format!("skip({}) at {} failed: {}", n, pos, clip(&e)));
                    return;
                } else {
                    cx.ev(format!("skip({}) at {} -> ok", n, pos));
                    pos += n;
                }
            }
            5 => {
                if rem >= 4 {
                    match r.read_u32() {
                        Ok(v) => {
                            let want = u32::from_le_bytes([data[pos], data[pos + 1], data[pos + 2], data[pos + 3]]);
                            if v != want {
                                cx.violate("wrong_value", site, format!("read_u32 at {} returned {:#x} instead of {:#x}", pos, v, want));
                                return;
                            }
                            cx.ev(format!("read_u32 at {} -> ok", pos));
                            pos += 4;
                        }
                        Err(e) => {
                            cx.violate("unexpected_error", site, format!("read_u32 at {} failed: {}", pos, clip(&e)));
                            return;
                        }
                    }
                } else {
                    let res = r.read_u32();
                    expect_err!(res, "read_u32".to_string());
                }
            }
            _ => {
                let mut buf = vec![0u8; n];
                let res = r.read_bytes(&mut buf);
                if over {
                    expect_err!(res, format!("read_bytes({})", n));
                } else if let Err(e) = res {
                    cx.violate("unexpected_error", site, format!("read_bytes({}) at {} failed: {}", n, pos, clip(&e)));
                    return;
                } else {
                    if buf[..] != data[pos..pos + n] {
                        cx.violate("wrong_value", site, format!("read_bytes({}) at {} returned {}", n, pos, short_bytes(&buf)));
                        return;
                    }
                    cx.ev(format!("read_bytes({}) at {} -> ok", n, pos));
                    pos += n;
                }
            }
        }
        if r.position() != pos || r.remaining() != len - pos {
            cx.violate("wrong_position", "MemoryMappedInput.position", format!("logical position {} but position()={} remaining()={} (file of {})", pos, r.position(), r.remaining(), len));
            return;
        }
    }
    cx.nontrivial = ops.len() >= 3;
}

// ---------------------------------------------------------------------------------------
// scenarios

enum Kind {
    Typed(Be, bool, Fam),
    SbReader(bool),
    SbWriter(bool),
    ZcReader(bool),
    ZcWriter(bool),
    SeekSbReader,
    SeekSbWriter,
    SeekRangeReader,
    SeekRangeWriter,
    MmapInput,
}
struct Sc {
    name: &'static str,
    kind: Kind,
    quick: u64,
}
impl Scenario for Sc {
    fn name(&self) -> String {
        self.name.to_string()
    }
    fn budget(&self, tier: Tier) -> u64 {
        match tier {
            Tier::Quick => self.quick * 12,
            Tier::Thorough => self.quick * 400,
        }
    }
    fn run(&self, cx: &mut Run) {
        match self.kind {
            Kind::Typed(be, hard, fam) => typed_run(cx, be, hard, fam),
            Kind::SbReader(h) => api_sb_reader(cx, h),
            Kind::SbWriter(h) => api_sb_writer(cx, h),
            Kind::ZcReader(h) => api_zc_reader(cx, h),
            Kind::ZcWriter(h) => api_zc_writer(cx, h),
            Kind::SeekSbReader => seek_sb_reader(cx),
            Kind::SeekSbWriter => seek_sb_writer(cx),
            Kind::SeekRangeReader => seek_range_reader(cx),
            Kind::SeekRangeWriter => seek_range_writer(cx),
            Kind::MmapInput => api_mmap_input(cx),
        }
    }
}

/// Value-family scenarios run over the plain or the buffered back end, chosen per run.
struct Values {
    name: &'static str,
    fam: Fam,
    quick: u64,
}
impl Scenario for Values {
    fn name(&self) -> String {
        self.name.to_string()
    }
    fn budget(&self, tier: Tier) -> u64 {
        match tier {
            Tier::Quick => self.quick * 12,
            Tier::Thorough => self.quick * 400,
        }
    }
    fn run(&self, cx: &mut Run) {
        let be = [Be::Plain, Be::Buffered, Be::ZeroCopy, Be::SliceVec][cx.src.chan("cfg").below(4) as usize];
        typed_run(cx, be, false, self.fam)
    }
}

fn main() {
    let mut spec = CheckSpec::new(
        "C13",
        "exploration",
        "seeded typed value sequences x seeded writer/reader stacks x seeded benign (clean) or hard (faulty) stream faults; \
         non-trivial = at least 2 values written and read back (API scenarios: at least 3 operations); \
         distinct = distinct hash of (configuration, operations, observed results, injected faults)",
    );
    spec.assumptions = vec![
        "only encoder/decoder pairs that run over a stream back end are decided; the slice-only strategies of var_int_variants / simd_encoding are pure functions and not exercised".into(),
        "hard faults are injected on one side per run (writer or reader); the other side sees benign short transfers only".into(),
        "a live rc::Weak / sync::Weak is checked for byte consumption only (a stand-alone decoded Weak cannot own its referent)".into(),
        "Version values stay within the documented packed format 0xMMmmpppp (major, minor <= 255)".into(),
        "file-backed back ends (FileDataOutput, MemoryMappedOutput, MmapDataInput, MemoryMappedInput, MmapZeroCopyReader) run on real files in /dev/shm without fault injection".into(),
    ];
    spec.components = vec![
        ("io::data_input / data_output / var_int", "real"),
        ("io::stream_buffer, range_stream, zero_copy, mmap", "real"),
        ("io::complex_types, smart_ptr, versioning, endian", "real"),
        ("storage medium", "stub (in-memory Cursor behind FaultyRead/FaultyWrite; real files in /dev/shm for the mmap back ends)"),
    ];
    spec.init = zsim_props::install_hooks;
    let typed: [(&'static str, Be, bool, u64); 14] = [
        ("reader_writer/clean", Be::Plain, false, 3000),
        ("reader_writer/faulty", Be::Plain, true, 3000),
        ("stream_buffer/typed_clean", Be::Buffered, false, 3500),
        ("stream_buffer/typed_faulty", Be::Buffered, true, 3500),
        ("zero_copy/typed_clean", Be::ZeroCopy, false, 3000),
        ("zero_copy/typed_faulty", Be::ZeroCopy, true, 3000),
        ("range/typed_clean", Be::Range, false, 2500),
        ("range/typed_faulty", Be::Range, true, 2500),
        ("multi_range/clean", Be::MultiRange, false, 3000),
        ("multi_range/faulty", Be::MultiRange, true, 3000),
        ("stacked/clean", Be::Stacked, false, 3500),
        ("stacked/faulty", Be::Stacked, true, 3500),
        ("slice_vec/clean", Be::SliceVec, false, 1500),
        ("file_mmap/clean", Be::File, false, 2000),
    ];
    for (name, be, hard, quick) in typed {
        spec.scenarios.push(Box::new(Sc { name, kind: Kind::Typed(be, hard, Fam::Prim), quick }));
    }
    for (name, fam, quick) in [
        ("values/complex", Fam::Complex, 3500u64),
        ("values/smart_ptr", Fam::Smart, 3000),
        ("values/smart_ptr_weak", Fam::SmartWeak, 1000),
        ("values/versioned", Fam::Versioned, 2500),
        ("values/versioned_struct", Fam::VersionedStruct, 800),
    ] {
        spec.scenarios.push(Box::new(Values { name, fam, quick }));
    }
    for (name, kind, quick) in [
        ("stream_buffer/reader_api_clean", Kind::SbReader(false), 5000u64),
        ("stream_buffer/reader_api_faulty", Kind::SbReader(true), 5000),
        ("stream_buffer/writer_api_clean", Kind::SbWriter(false), 3500),
        ("stream_buffer/writer_api_faulty", Kind::SbWriter(true), 3500),
        ("stream_buffer/reader_seek", Kind::SeekSbReader, 3000),
        ("stream_buffer/writer_seek", Kind::SeekSbWriter, 3000),
        ("zero_copy/reader_api_clean", Kind::ZcReader(false), 4500),
        ("zero_copy/reader_api_faulty", Kind::ZcReader(true), 4500),
        ("zero_copy/writer_api_clean", Kind::ZcWriter(false), 3500),
        ("zero_copy/writer_api_faulty", Kind::ZcWriter(true), 3500),
        ("range/reader_seek", Kind::SeekRangeReader, 3500),
        ("range/writer_seek", Kind::SeekRangeWriter, 3500),
        ("file_mmap/input_api", Kind::MmapInput, 2000),
    ] {
        spec.scenarios.push(Box::new(Sc { name, kind, quick }));
    }
    zsim_core::driver::main(spec);
}
