//! C13 — serialised values decode to themselves and consume exactly their own bytes
//! (claimed for the stream back ends, DESIGN.md "### C13").
//!
//! Every scenario writes a seeded sequence of values through a real zipora writer (stack)
//! into a simulated medium behind `FaultyWrite`, then reads it back through a real zipora
//! reader (stack) behind `FaultyRead`.  Oracle = round trip: the value read equals the value
//! written, the reader's position after value i equals the writer's position after value i,
//! the medium holds exactly the bytes the writer reported.  `*/clean` scenarios use benign
//! faults only (short transfers, odd chunk sizes) and demand strict equality; `*/faulty`
//! scenarios inject EINTR / errors / cut / flush failure on one side: calls may fail, what
//! was returned before must be right, nothing returned may be wrong, checking of that stream
//! stops at the first surfaced error.

use std::cell::RefCell;
use std::collections::{BTreeMap, BTreeSet, HashMap, HashSet};
use std::fmt::Debug;
use std::io::{self, BufRead, Cursor, Read, Seek, SeekFrom, Write};
use std::path::PathBuf;
use std::rc::{Rc, Weak as RcWeak};
use std::sync::atomic::{AtomicU64, Ordering};
use std::sync::{Arc, Weak as ArcWeak};

use zipora::error::Result as ZResult;
use zipora::io::complex_types::{ComplexSerialize, ComplexTypeConfig, ComplexTypeSerializer, NestedSerialize};
use zipora::io::endian::{EndianConvert, EndianIO, Endianness};
use zipora::io::smart_ptr::{DeserializationContext, SerializableType, SerializationContext, SmartPtrConfig, SmartPtrSerialize, SmartPtrSerializer};
use zipora::io::versioning::{Version, VersionConfig, VersionManager, VersionProxy, VersionedSerialize, VersionedSerializer};
use zipora::io::simd_encoding::varint::{self as simd_varint, SimdVarintCodec};
use zipora::io::zero_copy::mmap::MmapZeroCopyReader;
use zipora::io::{choose_optimal_strategy, choose_optimal_strategy_signed, AccessPattern, SignedVarInt, VarInt, VarIntEncoder, VarIntStrategy};
use zipora::io::{
    DataInput, DataOutput, FileDataOutput, MemoryMappedInput, MemoryMappedOutput, MmapDataInput, MultiRangeReader, RangeReader, RangeWriter, ReaderDataInput, SliceDataInput, StreamBufferConfig,
    StreamBufferedReader, StreamBufferedWriter, VecDataOutput, WriterDataOutput, ZeroCopyRead, ZeroCopyReader, ZeroCopyWrite, ZeroCopyWriter,
};
use zsim_core::e3::{self, FaultCfg, FaultyRead, FaultyWrite, SharedLog};
use zsim_core::{Chan, CheckSpec, Run, Scenario, Tier};

// ---------------------------------------------------------------------------------------
// plumbing: shared medium, object-safe shims, position-reporting ends

struct Shared<T>(Rc<RefCell<T>>);
impl<T> Shared<T> {
    fn new(t: T) -> Self {
        Shared(Rc::new(RefCell::new(t)))
    }
}
impl<T> Clone for Shared<T> {
    fn clone(&self) -> Self {
        Shared(self.0.clone())
    }
}
impl<T: Write> Write for Shared<T> {
    fn write(&mut self, b: &[u8]) -> io::Result<usize> {
        self.0.borrow_mut().write(b)
    }
    fn flush(&mut self) -> io::Result<()> {
        self.0.borrow_mut().flush()
    }
}
impl<T: Read> Read for Shared<T> {
    fn read(&mut self, b: &mut [u8]) -> io::Result<usize> {
        self.0.borrow_mut().read(b)
    }
}
impl<T: Seek> Seek for Shared<T> {
    fn seek(&mut self, p: SeekFrom) -> io::Result<u64> {
        self.0.borrow_mut().seek(p)
    }
}
type Medium = Shared<Cursor<Vec<u8>>>;
fn medium(v: Vec<u8>) -> Medium {
    Shared::new(Cursor::new(v))
}
fn medium_bytes(m: &Medium) -> Vec<u8> {
    m.0.borrow().get_ref().clone()
}

/// `&mut dyn DataOutput` as a sized `DataOutput` (the typed encoders are generic over `O: DataOutput`).
struct DynOut<'a>(&'a mut dyn DataOutput);
impl<'a> DataOutput for DynOut<'a> {
    fn write_u8(&mut self, v: u8) -> ZResult<()> {
        self.0.write_u8(v)
    }
    fn write_u16(&mut self, v: u16) -> ZResult<()> {
        self.0.write_u16(v)
    }
    fn write_u32(&mut self, v: u32) -> ZResult<()> {
        self.0.write_u32(v)
    }
    fn write_u64(&mut self, v: u64) -> ZResult<()> {
        self.0.write_u64(v)
    }
    fn write_var_int(&mut self, v: u64) -> ZResult<()> {
        self.0.write_var_int(v)
    }
    fn write_bytes(&mut self, d: &[u8]) -> ZResult<()> {
        self.0.write_bytes(d)
    }
    fn write_length_prefixed_bytes(&mut self, d: &[u8]) -> ZResult<()> {
        self.0.write_length_prefixed_bytes(d)
    }
    fn write_string(&mut self, s: &str) -> ZResult<()> {
        self.0.write_string(s)
    }
    fn write_length_prefixed_string(&mut self, s: &str) -> ZResult<()> {
        self.0.write_length_prefixed_string(s)
    }
    fn flush(&mut self) -> ZResult<()> {
        self.0.flush()
    }
    fn position(&self) -> Option<u64> {
        self.0.position()
    }
    fn bytes_written(&self) -> Option<u64> {
        self.0.bytes_written()
    }
}

struct DynIn<'a>(&'a mut dyn DataInput);
impl<'a> DataInput for DynIn<'a> {
    fn read_u8(&mut self) -> ZResult<u8> {
        self.0.read_u8()
    }
    fn read_u16(&mut self) -> ZResult<u16> {
        self.0.read_u16()
    }
    fn read_u32(&mut self) -> ZResult<u32> {
        self.0.read_u32()
    }
    fn read_u64(&mut self) -> ZResult<u64> {
        self.0.read_u64()
    }
    fn read_var_int(&mut self) -> ZResult<u64> {
        self.0.read_var_int()
    }
    fn read_bytes(&mut self, b: &mut [u8]) -> ZResult<()> {
        self.0.read_bytes(b)
    }
    fn read_vec(&mut self, n: usize) -> ZResult<Vec<u8>> {
        self.0.read_vec(n)
    }
    fn read_length_prefixed_bytes(&mut self) -> ZResult<Vec<u8>> {
        self.0.read_length_prefixed_bytes()
    }
    fn read_string(&mut self, n: usize) -> ZResult<String> {
        self.0.read_string(n)
    }
    fn read_length_prefixed_string(&mut self) -> ZResult<String> {
        self.0.read_length_prefixed_string()
    }
    fn skip(&mut self, n: usize) -> ZResult<()> {
        self.0.skip(n)
    }
    fn position(&self) -> Option<u64> {
        self.0.position()
    }
    fn has_remaining(&self) -> Option<bool> {
        self.0.has_remaining()
    }
}

/// A writing end that reports how many bytes it has produced so far.
trait PosOut {
    fn out(&mut self) -> &mut dyn DataOutput;
    fn pos(&self) -> u64;
    fn finish(&mut self) -> ZResult<()>;
    fn bytes(&self) -> Option<Vec<u8>> {
        None
    }
}
struct WOut<'a>(WriterDataOutput<Box<dyn Write + 'a>>);
impl<'a> PosOut for WOut<'a> {
    fn out(&mut self) -> &mut dyn DataOutput {
        &mut self.0
    }
    fn pos(&self) -> u64 {
        self.0.bytes_written()
    }
    fn finish(&mut self) -> ZResult<()> {
        DataOutput::flush(&mut self.0)
    }
}
struct VOut(VecDataOutput);
impl PosOut for VOut {
    fn out(&mut self) -> &mut dyn DataOutput {
        &mut self.0
    }
    fn pos(&self) -> u64 {
        self.0.len() as u64
    }
    fn finish(&mut self) -> ZResult<()> {
        self.0.flush()
    }
    fn bytes(&self) -> Option<Vec<u8>> {
        Some(self.0.as_slice().to_vec())
    }
}
struct FOut(FileDataOutput);
impl PosOut for FOut {
    fn out(&mut self) -> &mut dyn DataOutput {
        &mut self.0
    }
    fn pos(&self) -> u64 {
        self.0.bytes_written()
    }
    fn finish(&mut self) -> ZResult<()> {
        DataOutput::flush(&mut self.0)
    }
}
struct MOut(MemoryMappedOutput, bool);
impl PosOut for MOut {
    fn out(&mut self) -> &mut dyn DataOutput {
        &mut self.0
    }
    fn pos(&self) -> u64 {
        self.0.position() as u64
    }
    fn finish(&mut self) -> ZResult<()> {
        if self.1 {
            self.0.truncate()?;
        }
        self.0.flush()
    }
}

/// A reading end that reports how many bytes it has consumed so far.
trait PosIn {
    fn inp(&mut self) -> &mut dyn DataInput;
    fn pos(&self) -> u64;
    /// the back end's other views of its cursor; Some(description) if one disagrees with `pos` over `data`
    fn views(&self, _data: &[u8], _pos: usize) -> Option<String> {
        None
    }
}
struct RIn<'a>(ReaderDataInput<Box<dyn Read + 'a>>);
impl<'a> PosIn for RIn<'a> {
    fn inp(&mut self) -> &mut dyn DataInput {
        &mut self.0
    }
    fn pos(&self) -> u64 {
        self.0.pos()
    }
}
struct SIn<'a>(SliceDataInput<'a>);
impl<'a> PosIn for SIn<'a> {
    fn inp(&mut self) -> &mut dyn DataInput {
        &mut self.0
    }
    fn pos(&self) -> u64 {
        self.0.pos() as u64
    }
    fn views(&self, data: &[u8], pos: usize) -> Option<String> {
        let (rem, more) = (self.0.remaining(), self.0.has_more());
        if rem != data.len() - pos || more != (pos < data.len()) || self.0.remaining_slice() != &data[pos..] {
            Some(format!("remaining()={} has_more()={} remaining_slice() of {} bytes", rem, more, self.0.remaining_slice().len()))
        } else {
            None
        }
    }
}
struct MDIn(MmapDataInput);
impl PosIn for MDIn {
    fn inp(&mut self) -> &mut dyn DataInput {
        &mut self.0
    }
    fn pos(&self) -> u64 {
        self.0.pos() as u64
    }
    fn views(&self, data: &[u8], pos: usize) -> Option<String> {
        if pos > data.len() || self.0.len() != data.len() || self.0.remaining() != data.len() - pos || self.0.remaining_slice() != &data[pos..] {
            Some(format!("len()={} remaining()={}", self.0.len(), self.0.remaining()))
        } else {
            None
        }
    }
}
struct MMIn(MemoryMappedInput);
impl PosIn for MMIn {
    fn inp(&mut self) -> &mut dyn DataInput {
        &mut self.0
    }
    fn pos(&self) -> u64 {
        self.0.position() as u64
    }
    fn views(&self, data: &[u8], pos: usize) -> Option<String> {
        if self.0.len() != data.len() || self.0.remaining() != data.len().saturating_sub(pos) {
            Some(format!("len()={} remaining()={}", self.0.len(), self.0.remaining()))
        } else {
            None
        }
    }
}
struct RgIn(RangeReader<FaultyRead<Cursor<Vec<u8>>>>);
impl PosIn for RgIn {
    fn inp(&mut self) -> &mut dyn DataInput {
        &mut self.0
    }
    fn pos(&self) -> u64 {
        DataInput::position(&self.0).unwrap_or(u64::MAX)
    }
}

fn to_io(e: zipora::error::ZiporaError) -> io::Error {
    io::Error::new(io::ErrorKind::Other, e.to_string())
}

fn fnv(b: &[u8]) -> u64 {
    let mut h: u64 = 0xcbf2_9ce4_8422_2325;
    for &c in b {
        h ^= c as u64;
        h = h.wrapping_mul(0x0000_0100_0000_01B3);
    }
    h
}
fn short_bytes(b: &[u8]) -> String {
    if b.len() <= 8 {
        format!("{:02x?}", b)
    } else {
        format!("{}B#{:08x}", b.len(), fnv(b) as u32)
    }
}
fn short_str(s: &str) -> String {
    if s.len() <= 16 {
        format!("{:?}", s)
    } else {
        format!("str{}B#{:08x}", s.len(), fnv(s.as_bytes()) as u32)
    }
}
fn clip(e: &dyn std::fmt::Display) -> String {
    let s = e.to_string();
    s.chars().take(110).collect()
}

fn take_ops(cx: &mut Run, name: &str, planned: u64) -> Vec<[u64; 4]> {
    let mut ops = cx.src.ops(name, planned);
    let mut v = vec![];
    while let Some(o) = ops.next() {
        v.push(o);
    }
    v
}

/// Position-dependent bytes: any shift or duplication of a window of >= 2 bytes is visible.
fn pattern(n: usize, salt: usize) -> Vec<u8> {
    (0..n).map(|j| (j.wrapping_mul(167) ^ (j >> 8).wrapping_mul(59) ^ salt.wrapping_mul(101)).wrapping_add(13) as u8).collect()
}

fn note_faults(cx: &mut Run, log: &SharedLog, side: &str) {
    let l = log.lock().unwrap();
    for (k, n) in [("short", l.short), ("eintr", l.eintr), ("error", l.errors), ("cut", l.cut), ("flush_error", l.flush_errors)] {
        if n > 0 {
            *cx.faults.entry(format!("{}.{}", side, k)).or_insert(0) += n;
        }
    }
    let mut shown = 0;
    for (call, off, kind) in &l.events {
        if *kind != "short" && shown < 6 {
            cx.trace.ev(format!("  fault[{}] call#{} @{} {}", side, call, off, kind));
            shown += 1;
        }
    }
}
fn hard_fired(log: &SharedLog) -> bool {
    log.lock().unwrap().hard_faults() > 0
}

static FILE_N: AtomicU64 = AtomicU64::new(0);
struct TmpFile(PathBuf);
impl TmpFile {
    fn new(used: bool) -> TmpFile {
        let d = PathBuf::from(format!("/dev/shm/zsim-c13-{}", std::process::id()));
        if used {
            let _ = std::fs::create_dir_all(&d);
        }
        TmpFile(d.join(format!("f{}", FILE_N.fetch_add(1, Ordering::Relaxed))))
    }
}
impl Drop for TmpFile {
    fn drop(&mut self) {
        let _ = std::fs::remove_file(&self.0);
        if let Some(d) = self.0.parent() {
            let _ = std::fs::remove_dir(d);
        }
    }
}

// ---------------------------------------------------------------------------------------
// values

type T3 = (u32, String, bool);
type T7 = (u8, u16, u64, i8, i16, i32, i64);
type T12 = (u8, u8, u8, u8, u8, u8, u8, u8, u8, u8, u8, u8);
type Nest = (Option<Vec<Option<u16>>>, BTreeMap<u32, Vec<String>>, Box<String>, Rc<u32>);

#[derive(Clone, Debug)]
enum Cx {
    Unit,
    T1((u32,)),
    T3(T3),
    T7(T7),
    T12(T12),
    ArrU([u16; 3]),
    ArrS([String; 2]),
    Arr0([u32; 0]),
    OptS(Option<String>),
    OptV(Option<Vec<u32>>),
    Res(Result<u32, String>),
    BMap(BTreeMap<String, u64>),
    BSet(BTreeSet<i32>),
    HMap(HashMap<u32, u64>),
    HSet(HashSet<u64>),
    Nest(Nest),
}

#[derive(Clone, Debug, PartialEq)]
struct Rec {
    id: u32,
    name: String,
    extra: Option<u64>,
}
impl VersionedSerialize for Rec {
    fn current_version() -> Version {
        Version::new(1, 2, 0)
    }
    fn serialize_with_manager<O: DataOutput>(&self, m: &mut VersionManager, o: &mut O) -> ZResult<()> {
        m.register_field("extra", Version::new(1, 1, 0));
        o.write_u32(self.id)?;
        o.write_length_prefixed_string(&self.name)?;
        m.serialize_field("extra", &self.extra.unwrap_or(0), o)
    }
    fn deserialize_with_manager<I: DataInput>(m: &mut VersionManager, i: &mut I) -> ZResult<Self> {
        m.register_field("extra", Version::new(1, 1, 0));
        let id = i.read_u32()?;
        let name = i.read_length_prefixed_string()?;
        let extra = m.deserialize_field::<u64, _>("extra", i)?;
        Ok(Rec { id, name, extra })
    }
}

type V3 = (u16, u16, u16);
fn ver(v: V3) -> Version {
    Version::new(v.0, v.1, v.2)
}

#[derive(Clone, Debug)]
enum Sp {
    BoxS(String),
    BoxBox(u64),
    OptBox(Option<u32>),
    RcS(String),
    ArcU(u64),
    ArcVec(Vec<u16>),
    VecRc(Vec<u32>),
    /// several references into a few shared objects, one (de)serialisation context
    /// `clear_at`: both contexts are cleared (SerializationContext::clear / DeserializationContext::clear)
    /// before that reference and then used again
    /// `mixed`: a second pointer type (`Rc<u32>` / `Arc<u32>`) goes through the same serialisation
    /// context between the references, so the ids each reading context sees are not dense
    Shared { vals: Vec<String>, refs: Vec<usize>, detect: bool, arc: bool, clear_at: Option<usize>, mixed: bool },
    SerBytes(String, u8),
    /// Some = the referent is alive while serialising, None = dangling
    WeakRc(Option<u32>),
    WeakArc(Option<u64>),
}

#[derive(Clone, Debug)]
enum Ver {
    V(V3),
    Field { cur: V3, min: Option<V3>, read: Option<V3>, val: u32, sval: Option<String> },
    Proxy { cur: V3, min: V3, max: Option<V3>, val: u32 },
    ProxyPlain(String),
    SerBytes(Rec, u8),
    /// serialize_versioned / deserialize_versioned
    Struct(Rec),
}

#[derive(Clone, Debug)]
enum Val {
    U8(u8),
    U16(u16),
    U32(u32),
    U64(u64),
    Var(u64),
    LpStr(String),
    LpBytes(Vec<u8>),
    Raw(Vec<u8>),
    RawStr(String),
    Skip(Vec<u8>),
    /// EndianIO<type>(endianness) over raw bytes: (type, endianness, bits)
    End(u8, u8, u64),
    Cx(Cx, u8),
    CxBatch(Vec<T3>, u8),
    CxBytes(T3, u8),
    Sp(Sp),
    Ver(Ver),
}

fn bounds() -> &'static [u64] {
    static B: std::sync::OnceLock<Vec<u64>> = std::sync::OnceLock::new();
    B.get_or_init(|| {
        let mut v = vec![0u64, 1, 0xFF, 0x100, 0xFFFF, 0x1_0000, u32::MAX as u64, u32::MAX as u64 + 1, i64::MAX as u64, i64::MIN as u64, u64::MAX - 1, u64::MAX];
        for k in 1..=9u32 {
            let b = 1u64 << (7 * k);
            v.push(b - 1);
            v.push(b);
            v.push(b + 1);
        }
        v
    })
}
fn gen_u64(a: u64, b: u64, i: usize) -> u64 {
    if a % 4 == 3 {
        ((i as u64 + 1) << 44) ^ b.wrapping_mul(0x9E37_79B9)
    } else {
        let bs = bounds();
        bs[(b as usize) % bs.len()]
    }
}
fn gen_len(a: u64, b: u64, big: usize) -> usize {
    // lengths at the edges of the var-int length prefix (127/128, 16383/16384), of the 8 KiB chunk of
    // ReaderDataInput::skip / RangeReader::skip and of the 64 KiB chunk of DataInput::read_vec
    if (a >> 3) % 12 == 0 {
        const EDGE: [usize; 16] = [127, 128, 129, 255, 256, 8191, 8192, 8193, 16383, 16384, 16385, 65535, 65536, 65537, 131072, 131075];
        let fit = EDGE.iter().filter(|e| **e <= big).count();
        if fit > 0 {
            return EDGE[(b as usize) % fit];
        }
    }
    match a % 8 {
        0 => 0,
        1..=4 => 1 + (b % 12) as usize,
        5 => 12 + (b % 60) as usize,
        6 => 100 + (b % 200) as usize,
        _ => {
            if big > 300 {
                300 + ((b as usize).wrapping_mul(7919)) % (big - 300)
            } else {
                (b as usize) % big.max(1)
            }
        }
    }
}
fn gen_bytes(i: usize, len: usize) -> Vec<u8> {
    pattern(len, i + 1)
}
fn gen_str(i: usize, len: usize) -> String {
    if len == 0 {
        return String::new();
    }
    const AL: [char; 9] = ['a', 'Z', '0', ' ', '\u{e9}', '\u{4e16}', '\u{1f980}', '\n', '\0'];
    let mut s = format!("s{}:", i);
    let mut j = i;
    while s.len() < len {
        s.push(AL[j % AL.len()]);
        j = j.wrapping_mul(5).wrapping_add(3);
    }
    s
}

#[derive(Clone, Copy, PartialEq, Debug)]
enum Fam {
    Prim,
    Complex,
    Smart,
    SmartWeak,
    Versioned,
    VersionedStruct,
}

fn gen_v3(x: u64) -> V3 {
    // major/minor stay within the documented packed format 0xMMmmpppp
    const VS: [V3; 8] = [(1, 0, 0), (1, 1, 0), (1, 2, 0), (1, 2, 7), (2, 0, 0), (0, 0, 0), (255, 255, 65535), (1, 255, 1)];
    VS[(x % 8) as usize]
}

fn gen_val(fam: Fam, i: usize, o: [u64; 4], big: usize) -> Val {
    match fam {
        Fam::Prim => match o[0] % 12 {
            0 => Val::U8(gen_u64(o[1], o[2], i) as u8),
            1 => Val::U16(gen_u64(o[1], o[2], i) as u16),
            2 => Val::U32(gen_u64(o[1], o[2], i) as u32),
            3 => Val::U64(gen_u64(o[1], o[2], i)),
            4 | 11 => Val::Var(gen_u64(o[1], o[2], i)),
            5 => Val::LpStr(gen_str(i, gen_len(o[1], o[2], big))),
            6 => Val::LpBytes(gen_bytes(i, gen_len(o[1], o[2], big))),
            7 => Val::Raw(gen_bytes(i, gen_len(o[1], o[2], big))),
            8 => Val::RawStr(gen_str(i, gen_len(o[1], o[2], big))),
            9 => Val::Skip(gen_bytes(i, gen_len(o[1], o[2], big))),
            _ => Val::End((o[1] % 11) as u8, (o[2] % 3) as u8, gen_u64(o[3], o[1] >> 4, i)),
        },
        Fam::Complex => {
            let a = o[1];
            let b = o[2];
            let s = |k: u64| gen_str(i, gen_len(k, b, big.min(300)));
            let meta = (o[3] % 3) as u8;
            let cx = match o[0] % 18 {
                0 => Cx::Unit,
                1 => Cx::T1((gen_u64(a, b, i) as u32,)),
                2 => Cx::T3((gen_u64(a, b, i) as u32, s(a), b % 2 == 1)),
                3 => Cx::T7((a as u8, b as u16, gen_u64(a, b, i), (a >> 3) as i8, (b >> 2) as i16, gen_u64(b, a, i) as i32, gen_u64(a, b >> 1, i) as i64)),
                4 => Cx::T12((i as u8, 1, 2, 3, 4, 5, 6, 7, 8, 9, a as u8, b as u8)),
                5 => Cx::ArrU([a as u16, b as u16, i as u16]),
                6 => Cx::ArrS([s(a), s(a >> 3)]),
                7 => Cx::Arr0([]),
                8 => Cx::OptS(if a % 3 == 0 { None } else { Some(s(a >> 2)) }),
                9 => Cx::OptV(if a % 3 == 0 { None } else { Some((0..(b % 5)).map(|k| gen_u64(a + k, b + k, i) as u32).collect()) }),
                10 => Cx::Res(if a % 2 == 0 { Ok(gen_u64(a, b, i) as u32) } else { Err(s(a >> 1)) }),
                11 => Cx::BMap((0..(a % 4)).map(|k| (format!("k{}-{}", i, k), gen_u64(b + k, a + k, i))).collect()),
                12 => Cx::BSet((0..(a % 5)).map(|k| (gen_u64(b + k, a + k, i) as i32).wrapping_add(k as i32)).collect()),
                13 => Cx::HMap((0..(a % 5)).map(|k| ((i as u32) << 8 | k as u32, gen_u64(b + k, a + k, i))).collect()),
                14 => Cx::HSet((0..(a % 5)).map(|k| gen_u64(3, b + k, i + k as usize)).collect()),
                15 => return Val::CxBatch((0..(a % 4)).map(|k| ((i as u32) << 8 | k as u32, s(a + k), k % 2 == 0)).collect(), (b % 5) as u8),
                16 => return Val::CxBytes((gen_u64(a, b, i) as u32, s(a), b % 2 == 1), (b % 5) as u8),
                _ => Cx::Nest((
                    if a % 3 == 0 { None } else { Some((0..(b % 4)).map(|k| if (a >> k) & 1 == 1 { Some((b + k) as u16) } else { None }).collect()) },
                    (0..(a % 3)).map(|k| (k as u32 + i as u32 * 10, (0..(b % 3)).map(|q| s(q + k)).collect())).collect(),
                    Box::new(s(b)),
                    Rc::new(gen_u64(a, b, i) as u32),
                )),
            };
            Val::Cx(cx, meta)
        }
        Fam::Smart => {
            let a = o[1];
            let b = o[2];
            let s = |k: u64| gen_str(i, gen_len(k, b, big.min(300)));
            Val::Sp(match o[0] % 9 {
                0 => Sp::BoxS(s(a)),
                1 => Sp::BoxBox(gen_u64(a, b, i)),
                2 => Sp::OptBox(if a % 3 == 0 { None } else { Some(gen_u64(a, b, i) as u32) }),
                3 => Sp::RcS(s(a)),
                4 => Sp::ArcU(gen_u64(a, b, i)),
                5 => Sp::ArcVec((0..(a % 5)).map(|k| (b + k) as u16).collect()),
                6 => Sp::VecRc((0..(a % 5)).map(|k| gen_u64(a + k, b + k, i) as u32).collect()),
                7 => {
                    let nv = 1 + (a % 3) as usize;
                    // one run in four: distinct objects with equal contents (identity, not content, decides sharing)
                    let twins = (o[3] >> 2) % 4 == 3;
                    let vals: Vec<String> = (0..nv).map(|k| if twins { format!("sh{}-twin", i) } else { format!("sh{}-{}-{}", i, k, s(a + k as u64)) }).collect();
                    let refs: Vec<usize> = (0..(1 + b % 5)).map(|k| ((b >> (2 * k)) as usize) % nv).collect();
                    let clear_at = if (o[3] >> 4) % 3 == 0 { Some(((o[3] >> 6) as usize) % refs.len()) } else { None };
                    Sp::Shared { vals, refs, detect: o[3] % 2 == 0, arc: o[3] % 4 >= 2, clear_at, mixed: (o[3] / 4) % 3 == 0 }
                }
                _ => Sp::SerBytes(s(a), (b % 4) as u8),
            })
        }
        Fam::SmartWeak => Val::Sp(match o[0] % 4 {
            0 => Sp::WeakRc(Some(gen_u64(o[1], o[2], i) as u32)),
            1 => Sp::WeakArc(Some(gen_u64(o[1], o[2], i))),
            2 => Sp::WeakRc(None),
            _ => Sp::WeakArc(None),
        }),
        Fam::Versioned => {
            let a = o[1];
            let b = o[2];
            Val::Ver(match o[0] % 5 {
                0 => Ver::V(gen_v3(a)),
                1 => Ver::Field {
                    cur: gen_v3(a),
                    min: if b % 4 == 0 { None } else { Some(gen_v3(b >> 2)) },
                    read: if o[3] % 3 == 0 { Some(gen_v3(o[3] >> 2)) } else { None },
                    val: gen_u64(a, b, i) as u32,
                    sval: if o[3] % 2 == 1 { Some(gen_str(i, gen_len(a, b, 60))) } else { None },
                },
                2 => Ver::Proxy { cur: gen_v3(a), min: gen_v3(b), max: if o[3] % 2 == 0 { None } else { Some(gen_v3(o[3] >> 1)) }, val: gen_u64(b, a, i) as u32 },
                3 => Ver::ProxyPlain(gen_str(i, gen_len(a, b, 60))),
                _ => Ver::SerBytes(Rec { id: gen_u64(a, b, i) as u32, name: gen_str(i, gen_len(a, b, 60)), extra: Some(gen_u64(b, a, i)) }, (b % 4) as u8),
            })
        }
        // Every byte of these records is < 0x80: the known asymmetry of deserialize_versioned
        // (it reads a version header serialize_versioned never wrote) then misparses at most
        // one-byte length prefixes, so the defect shows as a wrong value / refusal inside the
        // process instead of an unvalidated multi-terabyte allocation that kills the worker
        // (that part is C15's subject).
        Fam::VersionedStruct => {
            let name: String = (0..gen_len(o[1], o[2], 40)).map(|j| (b'a' + ((i + j) % 26) as u8) as char).collect();
            Val::Ver(Ver::Struct(Rec { id: gen_u64(o[1], o[2], i) as u32 & 0x7F7F_7F7F, name, extra: Some(gen_u64(o[2], o[1], i) & 0x7F7F_7F7F_7F7F_7F7F) }))
        }
    }
}

fn endianness(e: u8) -> Endianness {
    match e {
        0 => Endianness::Little,
        1 => Endianness::Big,
        _ => Endianness::Native,
    }
}
fn end_write<T: EndianConvert>(v: T, e: u8, o: &mut DynOut) -> ZResult<()> {
    let mut buf = vec![0u8; std::mem::size_of::<T>()];
    EndianIO::<T>::new(endianness(e)).write_to_bytes(v, &mut buf)?;
    o.write_bytes(&buf)
}
fn end_read<T: EndianConvert>(e: u8, i: &mut DynIn) -> ZResult<T> {
    let mut buf = vec![0u8; std::mem::size_of::<T>()];
    i.read_bytes(&mut buf)?;
    EndianIO::<T>::new(endianness(e)).read_from_bytes(&buf)
}
fn cmp<T: PartialEq + Debug>(want: &T, got: &T) -> Option<String> {
    if want == got {
        None
    } else {
        let s = format!("{:?}", got);
        Some(s.chars().take(120).collect())
    }
}

fn cx_cfg(k: u8) -> ComplexTypeConfig {
    match k {
        0 => ComplexTypeConfig::new(),
        1 => ComplexTypeConfig::safe(),
        2 => ComplexTypeConfig::fast(),
        3 => ComplexTypeConfig::compact(),
        _ => ComplexTypeConfig::compatible(),
    }
}
fn cx_write<T: ComplexSerialize>(v: &T, meta: u8, o: &mut DynOut) -> ZResult<()> {
    match meta {
        0 => v.serialize_data(o),
        1 => v.serialize_with_metadata(o),
        _ => v.serialize_nested(o, 0),
    }
}
fn cx_read<T: ComplexSerialize>(meta: u8, i: &mut DynIn) -> ZResult<T> {
    match meta {
        0 => T::deserialize_with_version(i, T::version()),
        1 => T::deserialize_with_metadata(i),
        _ => T::deserialize_nested(i, 0),
    }
}

macro_rules! cx_each {
    ($cx:expr, $v:ident, $body:expr) => {
        match $cx {
            Cx::Unit => {
                let $v = &();
                $body
            }
            Cx::T1($v) => $body,
            Cx::T3($v) => $body,
            Cx::T7($v) => $body,
            Cx::T12($v) => $body,
            Cx::ArrU($v) => $body,
            Cx::ArrS($v) => $body,
            Cx::Arr0($v) => $body,
            Cx::OptS($v) => $body,
            Cx::OptV($v) => $body,
            Cx::Res($v) => $body,
            Cx::BMap($v) => $body,
            Cx::BSet($v) => $body,
            Cx::HMap($v) => $body,
            Cx::HSet($v) => $body,
            Cx::Nest($v) => $body,
        }
    };
}
fn cx_check<T: ComplexSerialize + PartialEq + Debug>(want: &T, meta: u8, i: &mut DynIn) -> ZResult<Option<String>> {
    let got: T = cx_read(meta, i)?;
    Ok(if &got == want { None } else { Some("(differs)".to_string()) })
}

impl Cx {
    fn name(&self) -> &'static str {
        match self {
            Cx::Unit => "()",
            Cx::T1(_) => "(u32,)",
            Cx::T3(_) => "(u32,String,bool)",
            Cx::T7(_) => "tuple7",
            Cx::T12(_) => "tuple12",
            Cx::ArrU(_) => "[u16;3]",
            Cx::ArrS(_) => "[String;2]",
            Cx::Arr0(_) => "[u32;0]",
            Cx::OptS(_) => "Option<String>",
            Cx::OptV(_) => "Option<Vec<u32>>",
            Cx::Res(_) => "Result<u32,String>",
            Cx::BMap(_) => "BTreeMap<String,u64>",
            Cx::BSet(_) => "BTreeSet<i32>",
            Cx::HMap(_) => "HashMap<u32,u64>",
            Cx::HSet(_) => "HashSet<u64>",
            Cx::Nest(_) => "nested",
        }
    }
    /// deterministic description (hash containers sorted)
    fn desc(&self) -> String {
        let s = match self {
            Cx::HMap(m) => format!("{:?}", m.iter().collect::<BTreeMap<_, _>>()),
            Cx::HSet(m) => format!("{:?}", m.iter().collect::<BTreeSet<_>>()),
            other => format!("{:?}", other),
        };
        if s.len() > 70 {
            format!("{}..#{:08x}", s.chars().take(40).collect::<String>(), fnv(s.as_bytes()) as u32)
        } else {
            s
        }
    }
}

const META: [&str; 3] = ["data", "with_metadata", "nested"];

impl Val {
    /// stable name of the value kind (used as the site in the value-family scenarios)
    fn kind(&self) -> String {
        match self {
            Val::U8(_) => "u8".into(),
            Val::U16(_) => "u16".into(),
            Val::U32(_) => "u32".into(),
            Val::U64(_) => "u64".into(),
            Val::Var(_) => "var_int".into(),
            Val::LpStr(_) => "length_prefixed_string".into(),
            Val::LpBytes(_) => "length_prefixed_bytes".into(),
            Val::Raw(_) => "bytes".into(),
            Val::RawStr(_) => "string".into(),
            Val::Skip(_) => "skip".into(),
            Val::End(t, _, _) => format!("EndianIO<{}>", END_TY[*t as usize]),
            Val::Cx(c, m) => format!("ComplexSerialize<{}>.{}", c.name(), META[*m as usize]),
            Val::CxBatch(..) => "ComplexTypeSerializer.batch".into(),
            Val::CxBytes(..) => "ComplexTypeSerializer.bytes".into(),
            Val::Sp(s) => match s {
                Sp::BoxS(_) => "Box<String>".into(),
                Sp::BoxBox(_) => "Box<Box<u64>>".into(),
                Sp::OptBox(_) => "Option<Box<u32>>".into(),
                Sp::RcS(_) => "Rc<String>".into(),
                Sp::ArcU(_) => "Arc<u64>".into(),
                Sp::ArcVec(_) => "Arc<Vec<u16>>".into(),
                Sp::VecRc(_) => "Vec<Rc<u32>>".into(),
                Sp::Shared { arc, .. } => if *arc { "Arc.shared_context".into() } else { "Rc.shared_context".into() },
                Sp::SerBytes(..) => "SmartPtrSerializer.bytes".into(),
                Sp::WeakRc(Some(_)) => "rc::Weak(live)".into(),
                Sp::WeakRc(None) => "rc::Weak(dangling)".into(),
                Sp::WeakArc(Some(_)) => "sync::Weak(live)".into(),
                Sp::WeakArc(None) => "sync::Weak(dangling)".into(),
            },
            Val::Ver(v) => match v {
                Ver::V(_) => "Version".into(),
                Ver::Field { .. } => "VersionManager.field".into(),
                Ver::Proxy { .. } => "VersionManager.proxy".into(),
                Ver::ProxyPlain(_) => "VersionProxy<String>".into(),
                Ver::SerBytes(..) => "VersionedSerializer.bytes".into(),
                Ver::Struct(_) => "VersionedSerialize.versioned".into(),
            },
        }
    }
    fn desc(&self) -> String {
        match self {
            Val::U8(v) => format!("u8 {:#x}", v),
            Val::U16(v) => format!("u16 {:#x}", v),
            Val::U32(v) => format!("u32 {:#x}", v),
            Val::U64(v) => format!("u64 {:#x}", v),
            Val::Var(v) => format!("var_int {:#x}", v),
            Val::LpStr(s) => format!("lp_string {}", short_str(s)),
            Val::LpBytes(b) => format!("lp_bytes {}", short_bytes(b)),
            Val::Raw(b) => format!("bytes {}", short_bytes(b)),
            Val::RawStr(s) => format!("string {}", short_str(s)),
            Val::Skip(b) => format!("bytes(to be skipped) {}", short_bytes(b)),
            Val::End(t, e, bits) => format!("EndianIO<{}>({:?}) bits={:#x}", END_TY[*t as usize], endianness(*e), bits),
            Val::Cx(c, m) => format!("{} [{}] {}", c.name(), META[*m as usize], c.desc()),
            Val::CxBatch(v, k) => format!("batch of {} (u32,String,bool) cfg{}", v.len(), k),
            Val::CxBytes(v, k) => format!("to_bytes ({:#x},{},{}) cfg{}", v.0, short_str(&v.1), v.2, k),
            Val::Sp(s) => {
                let d = format!("{:?}", s);
                format!("{} {}", self.kind(), if d.len() > 60 { format!("#{:08x}", fnv(d.as_bytes()) as u32) } else { d })
            }
            Val::Ver(v) => {
                let d = format!("{:?}", v);
                format!("{} {}", self.kind(), if d.len() > 90 { format!("#{:08x}", fnv(d.as_bytes()) as u32) } else { d })
            }
        }
    }
}
const END_TY: [&str; 11] = ["u8", "u16", "u32", "u64", "i8", "i16", "i32", "i64", "f32", "f64", "u128"];

fn sp_cfg(k: u8) -> SmartPtrConfig {
    match k {
        0 => SmartPtrConfig::new(),
        1 => SmartPtrConfig::performance_optimized(),
        2 => SmartPtrConfig::space_optimized(),
        _ => SmartPtrConfig::robust(),
    }
}
fn ver_cfg(k: u8) -> VersionConfig {
    match k {
        0 => VersionConfig::new(),
        1 => VersionConfig::strict(),
        2 => VersionConfig::flexible(),
        _ => VersionConfig::development(),
    }
}

impl Val {
    fn write(&self, o: &mut DynOut) -> ZResult<()> {
        match self {
            Val::U8(v) => o.write_u8(*v),
            Val::U16(v) => o.write_u16(*v),
            Val::U32(v) => o.write_u32(*v),
            Val::U64(v) => o.write_u64(*v),
            Val::Var(v) => o.write_var_int(*v),
            Val::LpStr(s) => o.write_length_prefixed_string(s),
            Val::LpBytes(b) => o.write_length_prefixed_bytes(b),
            Val::Raw(b) | Val::Skip(b) => o.write_bytes(b),
            Val::RawStr(s) => o.write_string(s),
            Val::End(t, e, bits) => {
                let b = *bits;
                match t {
                    0 => end_write(b as u8, *e, o),
                    1 => end_write(b as u16, *e, o),
                    2 => end_write(b as u32, *e, o),
                    3 => end_write(b, *e, o),
                    4 => end_write(b as i8, *e, o),
                    5 => end_write(b as i16, *e, o),
                    6 => end_write(b as i32, *e, o),
                    7 => end_write(b as i64, *e, o),
                    8 => end_write(f32::from_bits(b as u32), *e, o),
                    9 => end_write(f64::from_bits(b), *e, o),
                    _ => end_write(((b as u128) << 64) | (!b as u128), *e, o),
                }
            }
            Val::Cx(c, m) => cx_each!(c, v, cx_write(v, *m, o)),
            Val::CxBatch(vs, k) => {
                let bytes = ComplexTypeSerializer::new(cx_cfg(*k)).serialize_batch(vs)?;
                o.write_length_prefixed_bytes(&bytes)
            }
            Val::CxBytes(v, k) => {
                let bytes = ComplexTypeSerializer::new(cx_cfg(*k)).serialize_to_bytes(v)?;
                o.write_length_prefixed_bytes(&bytes)
            }
            Val::Sp(s) => match s {
                Sp::BoxS(v) => <Box<String> as SerializableType>::serialize(&Box::new(v.clone()), o),
                Sp::BoxBox(v) => <Box<Box<u64>> as SerializableType>::serialize(&Box::new(Box::new(*v)), o),
                Sp::OptBox(v) => <Option<Box<u32>> as SmartPtrSerialize<u32>>::serialize(&v.map(Box::new), o),
                Sp::RcS(v) => <Rc<String> as SerializableType>::serialize(&Rc::new(v.clone()), o),
                Sp::ArcU(v) => <Arc<u64> as SerializableType>::serialize(&Arc::new(*v), o),
                Sp::ArcVec(v) => <Arc<Vec<u16>> as SerializableType>::serialize(&Arc::new(v.clone()), o),
                Sp::VecRc(v) => <Vec<Rc<u32>> as SerializableType>::serialize(&v.iter().map(|x| Rc::new(*x)).collect(), o),
                Sp::Shared { vals, refs, detect, arc, clear_at, mixed } => {
                    let mut ctx = if *detect { SerializationContext::new() } else { SerializationContext::without_cycle_detection() };
                    if *arc {
                        let objs: Vec<Arc<String>> = vals.iter().map(|s| Arc::new(s.clone())).collect();
                        let nums: Vec<Arc<u32>> = (0..vals.len() as u32).map(|x| Arc::new(1000 + x)).collect();
                        for (k, &r) in refs.iter().enumerate() {
                            if *clear_at == Some(k) {
                                ctx.clear();
                            }
                            if *mixed {
                                <Arc<u32> as SmartPtrSerialize<u32>>::serialize_with_context(&nums[r], o, &mut ctx)?;
                            }
                            <Arc<String> as SmartPtrSerialize<String>>::serialize_with_context(&objs[r], o, &mut ctx)?;
                        }
                    } else {
                        let objs: Vec<Rc<String>> = vals.iter().map(|s| Rc::new(s.clone())).collect();
                        let nums: Vec<Rc<u32>> = (0..vals.len() as u32).map(|x| Rc::new(1000 + x)).collect();
                        for (k, &r) in refs.iter().enumerate() {
                            if *clear_at == Some(k) {
                                ctx.clear();
                            }
                            if *mixed {
                                <Rc<u32> as SmartPtrSerialize<u32>>::serialize_with_context(&nums[r], o, &mut ctx)?;
                            }
                            <Rc<String> as SmartPtrSerialize<String>>::serialize_with_context(&objs[r], o, &mut ctx)?;
                        }
                    }
                    Ok(())
                }
                Sp::SerBytes(v, k) => {
                    let bytes = SmartPtrSerializer::new(sp_cfg(*k)).serialize_to_bytes::<String, Box<String>>(&Box::new(v.clone()))?;
                    o.write_length_prefixed_bytes(&bytes)
                }
                Sp::WeakRc(v) => {
                    let keep = Rc::new(v.unwrap_or(0));
                    let w = Rc::downgrade(&keep);
                    if v.is_none() {
                        drop(keep);
                        return <RcWeak<u32> as SmartPtrSerialize<u32>>::serialize(&w, o);
                    }
                    <RcWeak<u32> as SmartPtrSerialize<u32>>::serialize(&w, o)
                }
                Sp::WeakArc(v) => {
                    let keep = Arc::new(v.unwrap_or(0));
                    let w = Arc::downgrade(&keep);
                    if v.is_none() {
                        drop(keep);
                        return <ArcWeak<u64> as SmartPtrSerialize<u64>>::serialize(&w, o);
                    }
                    <ArcWeak<u64> as SmartPtrSerialize<u64>>::serialize(&w, o)
                }
            },
            Val::Ver(v) => match v {
                Ver::V(x) => ver(*x).serialize(o),
                Ver::Field { cur, min, val, sval, .. } => {
                    let mut m = VersionManager::new(ver(*cur));
                    if let Some(mn) = min {
                        m.register_field("f", ver(*mn));
                    }
                    match sval {
                        Some(s) => m.serialize_field("f", s, o),
                        None => m.serialize_field("f", val, o),
                    }
                }
                Ver::Proxy { cur, min, max, val } => {
                    let m = VersionManager::new(ver(*cur));
                    let p = match max {
                        Some(mx) => VersionProxy::with_range(*val, ver(*min), ver(*mx)),
                        None => VersionProxy::new(*val, ver(*min)),
                    };
                    m.serialize_proxy(&p, o)
                }
                Ver::ProxyPlain(s) => VersionProxy::new(s.clone(), Version::new(1, 0, 0)).serialize(o),
                Ver::SerBytes(r, k) => {
                    let bytes = VersionedSerializer::new(ver_cfg(*k)).serialize_to_bytes(r)?;
                    o.write_length_prefixed_bytes(&bytes)
                }
                Ver::Struct(r) => r.serialize_versioned(o),
            },
        }
    }

    /// Ok(None): read back an equal value.  Ok(Some(what)): read a different value.
    fn read_check(&self, i: &mut DynIn) -> ZResult<Option<String>> {
        Ok(match self {
            Val::U8(v) => cmp(v, &i.read_u8()?),
            Val::U16(v) => cmp(v, &i.read_u16()?),
            Val::U32(v) => cmp(v, &i.read_u32()?),
            Val::U64(v) => cmp(v, &i.read_u64()?),
            Val::Var(v) => cmp(v, &i.read_var_int()?),
            Val::LpStr(s) => {
                let g = i.read_length_prefixed_string()?;
                if &g == s { None } else { Some(short_str(&g)) }
            }
            Val::LpBytes(b) => {
                let g = i.read_length_prefixed_bytes()?;
                if &g == b { None } else { Some(short_bytes(&g)) }
            }
            Val::Raw(b) => {
                let g = i.read_vec(b.len())?;
                if &g == b { None } else { Some(short_bytes(&g)) }
            }
            Val::RawStr(s) => {
                let g = i.read_string(s.len())?;
                if &g == s { None } else { Some(short_str(&g)) }
            }
            Val::Skip(b) => {
                i.skip(b.len())?;
                None
            }
            Val::End(t, e, bits) => {
                let b = *bits;
                match t {
                    0 => cmp(&(b as u8), &end_read(*e, i)?),
                    1 => cmp(&(b as u16), &end_read(*e, i)?),
                    2 => cmp(&(b as u32), &end_read(*e, i)?),
                    3 => cmp(&b, &end_read(*e, i)?),
                    4 => cmp(&(b as i8), &end_read(*e, i)?),
                    5 => cmp(&(b as i16), &end_read(*e, i)?),
                    6 => cmp(&(b as i32), &end_read(*e, i)?),
                    7 => cmp(&(b as i64), &end_read(*e, i)?),
                    8 => cmp(&(b as u32), &end_read::<f32>(*e, i)?.to_bits()),
                    9 => cmp(&b, &end_read::<f64>(*e, i)?.to_bits()),
                    _ => cmp(&(((b as u128) << 64) | (!b as u128)), &end_read(*e, i)?),
                }
            }
            Val::Cx(c, m) => cx_each!(c, v, cx_check(v, *m, i)?),
            Val::CxBatch(vs, k) => {
                let bytes = i.read_length_prefixed_bytes()?;
                let g: Vec<T3> = ComplexTypeSerializer::new(cx_cfg(*k)).deserialize_batch(&bytes)?;
                cmp(vs, &g)
            }
            Val::CxBytes(v, k) => {
                let bytes = i.read_length_prefixed_bytes()?;
                let g: T3 = ComplexTypeSerializer::new(cx_cfg(*k)).deserialize_from_bytes(&bytes)?;
                cmp(v, &g)
            }
            Val::Sp(s) => match s {
                Sp::BoxS(v) => cmp(v, &*<Box<String> as SerializableType>::deserialize(i)?),
                Sp::BoxBox(v) => cmp(v, &**<Box<Box<u64>> as SerializableType>::deserialize(i)?),
                Sp::OptBox(v) => cmp(v, &<Option<Box<u32>> as SmartPtrSerialize<u32>>::deserialize(i)?.map(|b| *b)),
                Sp::RcS(v) => cmp(v, &*<Rc<String> as SerializableType>::deserialize(i)?),
                Sp::ArcU(v) => cmp(v, &*<Arc<u64> as SerializableType>::deserialize(i)?),
                Sp::ArcVec(v) => cmp(v, &*<Arc<Vec<u16>> as SerializableType>::deserialize(i)?),
                Sp::VecRc(v) => cmp(v, &<Vec<Rc<u32>> as SerializableType>::deserialize(i)?.iter().map(|r| **r).collect()),
                Sp::Shared { vals, refs, arc, clear_at, mixed, .. } => {
                    let mut bad = None;
                    if *arc {
                        let mut ctx = DeserializationContext::<Arc<String>>::new();
                        let mut nctx = DeserializationContext::<Arc<u32>>::new();
                        for (k, &r) in refs.iter().enumerate() {
                            if *clear_at == Some(k) {
                                ctx.clear();
                                nctx.clear();
                            }
                            if *mixed {
                                let g = <Arc<u32> as SmartPtrSerialize<u32>>::deserialize_with_context(i, &mut nctx)?;
                                if *g != 1000 + r as u32 && bad.is_none() {
                                    bad = Some(format!("number reference #{} decoded to {}", k, *g));
                                }
                            }
                            let g = <Arc<String> as SmartPtrSerialize<String>>::deserialize_with_context(i, &mut ctx)?;
                            if *g != vals[r] && bad.is_none() {
                                bad = Some(format!("reference #{} decoded to {}", k, short_str(&g)));
                            }
                        }
                    } else {
                        let mut ctx = DeserializationContext::<Rc<String>>::new();
                        let mut nctx = DeserializationContext::<Rc<u32>>::new();
                        for (k, &r) in refs.iter().enumerate() {
                            if *clear_at == Some(k) {
                                ctx.clear();
                                nctx.clear();
                            }
                            if *mixed {
                                let g = <Rc<u32> as SmartPtrSerialize<u32>>::deserialize_with_context(i, &mut nctx)?;
                                if *g != 1000 + r as u32 && bad.is_none() {
                                    bad = Some(format!("number reference #{} decoded to {}", k, *g));
                                }
                            }
                            let g = <Rc<String> as SmartPtrSerialize<String>>::deserialize_with_context(i, &mut ctx)?;
                            if *g != vals[r] && bad.is_none() {
                                bad = Some(format!("reference #{} decoded to {}", k, short_str(&g)));
                            }
                        }
                    }
                    bad
                }
                Sp::SerBytes(v, k) => {
                    let bytes = i.read_length_prefixed_bytes()?;
                    let g: Box<String> = SmartPtrSerializer::new(sp_cfg(*k)).deserialize_from_bytes::<String, Box<String>>(&bytes)?;
                    cmp(v, &*g)
                }
                // A Weak has no equality of its own and a stand-alone decoded Weak cannot own
                // its referent; only byte consumption is checked (by the caller).
                Sp::WeakRc(_) => {
                    let _w = <RcWeak<u32> as SmartPtrSerialize<u32>>::deserialize(i)?;
                    None
                }
                Sp::WeakArc(_) => {
                    let _w = <ArcWeak<u64> as SmartPtrSerialize<u64>>::deserialize(i)?;
                    None
                }
            },
            Val::Ver(v) => match v {
                Ver::V(x) => cmp(&ver(*x), &Version::deserialize(i)?),
                Ver::Field { cur, min, read, val, sval } => {
                    let mut m = VersionManager::new(ver(*cur));
                    if let Some(mn) = min {
                        m.register_field("f", ver(*mn));
                    }
                    if let Some(r) = read {
                        m.set_reading_version(ver(*r));
                    }
                    let written = min.map_or(true, |mn| ver(*cur) >= ver(mn));
                    let wanted = written && min.map_or(true, |mn| ver(read.unwrap_or(*cur)) >= ver(mn));
                    match sval {
                        Some(s) => cmp(&(if wanted { Some(s.clone()) } else { None }), &m.deserialize_field::<String, _>("f", i)?),
                        None => cmp(&(if wanted { Some(*val) } else { None }), &m.deserialize_field::<u32, _>("f", i)?),
                    }
                }
                Ver::Proxy { cur, min, max, val } => {
                    let m = VersionManager::new(ver(*cur));
                    let written = ver(*cur) >= ver(*min) && max.map_or(true, |mx| ver(*cur) <= ver(mx));
                    let g = m.deserialize_proxy::<u32, _>(ver(*min), i)?.map(|p| p.into_data());
                    cmp(&(if written { Some(*val) } else { None }), &g)
                }
                Ver::ProxyPlain(s) => cmp(s, &VersionProxy::<String>::deserialize(i)?.into_data()),
                Ver::SerBytes(r, k) => {
                    let bytes = i.read_length_prefixed_bytes()?;
                    let g: Rec = VersionedSerializer::new(ver_cfg(*k)).deserialize_from_bytes(&bytes)?;
                    cmp(r, &g)
                }
                Ver::Struct(r) => cmp(r, &Rec::deserialize_versioned(i)?),
            },
        })
    }
}

// ---------------------------------------------------------------------------------------
// back ends

#[derive(Clone, Copy, PartialEq, Debug)]
enum Be {
    Plain,
    Buffered,
    ZeroCopy,
    Range,
    MultiRange,
    Stacked,
    SliceVec,
    File,
}
impl Be {
    fn label(self) -> &'static str {
        match self {
            Be::Plain => "ReaderWriterData",
            Be::Buffered => "StreamBuffered",
            Be::ZeroCopy => "ZeroCopy",
            Be::Range => "Range",
            Be::MultiRange => "MultiRange",
            Be::Stacked => "Stacked",
            Be::SliceVec => "SliceVec",
            Be::File => "FileMmap",
        }
    }
    fn has_fault_seam(self) -> bool {
        !matches!(self, Be::SliceVec | Be::File)
    }
}

/// (config, short description, is one of the shipped presets)
fn draw_sb_cfg(cfg: &Chan) -> (StreamBufferConfig, String) {
    match cfg.weighted(&[24, 1, 1, 1, 1]) {
        0 => {
            let init = *cfg.pick(&[1usize, 2, 3, 4, 5, 8, 16, 64]);
            let mult = *cfg.pick(&[1usize, 1, 2, 8]);
            let thr = *cfg.pick(&[1usize, 2, 4, 8, 16, 64, 4096, 0]);
            let c = StreamBufferConfig {
                initial_capacity: init,
                max_capacity: init * mult,
                growth_factor: *cfg.pick(&[1.5f64, 2.0, 1.618, 1.0]),
                page_alignment: *cfg.pick(&[1usize, 1, 2, 4]),
                use_secure_pool: cfg.chance(1, 20),
                bulk_read_threshold: thr,
                enable_readahead: cfg.below(2) == 1,
                readahead_multiplier: *cfg.pick(&[1usize, 2, 4]),
            };
            let d = format!("cap={} max={} align={} bulk>={} readahead={}x{} growth={}", c.initial_capacity, c.max_capacity, c.page_alignment, c.bulk_read_threshold, c.enable_readahead, c.readahead_multiplier, c.growth_factor);
            (c, d)
        }
        1 => (StreamBufferConfig::default(), "preset=default".into()),
        2 => (StreamBufferConfig::performance_optimized(), "preset=performance_optimized".into()),
        3 => (StreamBufferConfig::memory_efficient(), "preset=memory_efficient".into()),
        _ => (StreamBufferConfig::low_latency(), "preset=low_latency".into()),
    }
}
fn draw_zc_cap(cfg: &Chan) -> usize {
    *cfg.pick(&[1usize, 2, 3, 4, 8, 16, 64, 0, 65536])
}

#[derive(Clone, Debug)]
enum Layout {
    Whole,
    Range { start: u64, len: u64, exact: bool },
    Segs(Vec<(u64, u64)>),
    File,
}

/// Continuous stream over several RangeWriters (one per segment, each created with new_and_seek).
struct SegWriter {
    inner: Shared<FaultyWrite<Medium>>,
    segs: Vec<(u64, u64)>,
    cur: usize,
    w: Option<RangeWriter<Shared<FaultyWrite<Medium>>>>,
}
impl Write for SegWriter {
    fn write(&mut self, buf: &[u8]) -> io::Result<usize> {
        loop {
            if self.w.is_none() {
                if self.cur >= self.segs.len() {
                    return Ok(0);
                }
                let (s, e) = self.segs[self.cur];
                self.w = Some(RangeWriter::new_and_seek(self.inner.clone(), s, e - s).map_err(to_io)?);
            }
            let w = self.w.as_mut().unwrap();
            if w.is_at_end() {
                self.w = None;
                self.cur += 1;
                continue;
            }
            return w.write(buf);
        }
    }
    fn flush(&mut self) -> io::Result<()> {
        self.inner.flush()
    }
}

struct WBuilt<'a> {
    out: Box<dyn PosOut + 'a>,
    medium: Option<Medium>,
    layout: Layout,
    /// the medium as it was before writing (to detect writes outside the range)
    before: Vec<u8>,
}

fn draw_layers(cfg: &Chan) -> Vec<u64> {
    let n = 1 + cfg.below(3);
    (0..n).map(|_| cfg.below(4)).collect()
}

fn build_writer<'a>(cx: &mut Run, cfg: &Chan, be: Be, f: FaultCfg, log: SharedLog, total: usize, file: &'a TmpFile) -> ZResult<WBuilt<'a>> {
    let fchan = cx.src.chan("fault.w");
    match be {
        Be::SliceVec => {
            let o = if cfg.below(2) == 0 { VecDataOutput::new() } else { VecDataOutput::with_capacity(cfg.below(64) as usize) };
            cx.ev("writer: VecDataOutput");
            Ok(WBuilt { out: Box::new(VOut(o)), medium: None, layout: Layout::Whole, before: vec![] })
        }
        Be::File => {
            let k = cfg.below(4);
            let out: Box<dyn PosOut> = match k {
                0 => Box::new(FOut(FileDataOutput::create(&file.0)?)),
                1 => Box::new(FOut(FileDataOutput::append(&file.0)?)),
                _ => {
                    let init = *cfg.pick(&[1usize, 8, 64, 4096, 0]);
                    let trunc = k == 2;
                    cx.ev(format!("writer: MemoryMappedOutput::create(initial_size={}) truncate_at_end={}", init, trunc));
                    Box::new(MOut(MemoryMappedOutput::create(&file.0, init)?, trunc))
                }
            };
            if k < 2 {
                cx.ev(format!("writer: FileDataOutput::{}", if k == 0 { "create" } else { "append" }));
            }
            Ok(WBuilt { out, medium: None, layout: Layout::File, before: vec![] })
        }
        Be::Plain | Be::Buffered | Be::ZeroCopy | Be::Stacked => {
            let m = medium(vec![]);
            let fw = FaultyWrite::new(m.clone(), f, fchan, log);
            let top: Box<dyn Write> = match be {
                Be::Plain => {
                    cx.ev("writer: WriterDataOutput<medium>");
                    Box::new(fw)
                }
                Be::Buffered => {
                    let (c, d) = draw_sb_cfg(cfg);
                    cx.ev(format!("writer: WriterDataOutput<StreamBufferedWriter({})>", d));
                    Box::new(StreamBufferedWriter::with_config(fw, c)?)
                }
                Be::ZeroCopy => {
                    let cap = draw_zc_cap(cfg);
                    cx.ev(format!("writer: WriterDataOutput<ZeroCopyWriter(capacity={})>", cap));
                    Box::new(ZeroCopyWriter::with_capacity(fw, cap)?)
                }
                _ => {
                    let mut w: Box<dyn Write> = Box::new(fw);
                    let mut names = vec![];
                    for l in draw_layers(cfg) {
                        w = match l {
                            0 => {
                                let (c, d) = draw_sb_cfg(cfg);
                                names.push(format!("StreamBufferedWriter({})", d));
                                Box::new(StreamBufferedWriter::with_config(w, c)?)
                            }
                            1 => {
                                let cap = draw_zc_cap(cfg);
                                names.push(format!("ZeroCopyWriter({})", cap));
                                Box::new(ZeroCopyWriter::with_capacity(w, cap)?)
                            }
                            2 => {
                                let s = cfg.below(1000);
                                names.push(format!("RangeWriter(virtual start {}, len {})", s, total));
                                Box::new(RangeWriter::new(w, s, total as u64))
                            }
                            _ => {
                                let cap = 1 + cfg.below(16) as usize;
                                names.push(format!("std BufWriter({})", cap));
                                Box::new(io::BufWriter::with_capacity(cap, w))
                            }
                        };
                    }
                    cx.ev(format!("writer stack (bottom to top): medium, {}", names.join(", ")));
                    w
                }
            };
            Ok(WBuilt { out: Box::new(WOut(WriterDataOutput::new(top))), medium: Some(m), layout: Layout::Whole, before: vec![] })
        }
        Be::Range => {
            let start = cfg.below(40);
            let slack = cfg.biased_zero(4, 1, 3);
            let tail = cfg.below(20);
            let before = pattern((start + total as u64 + slack + tail) as usize, 7);
            let m = medium(before.clone());
            let fw = FaultyWrite::new(m.clone(), f, fchan, log);
            let len = total as u64 + slack;
            cx.ev(format!("writer: WriterDataOutput<RangeWriter::new_and_seek(start={}, len={})> over a {}-byte medium", start, len, before.len()));
            let w = RangeWriter::new_and_seek(fw, start, len)?;
            Ok(WBuilt { out: Box::new(WOut(WriterDataOutput::new(Box::new(w)))), medium: Some(m), layout: Layout::Range { start, len: total as u64, exact: slack == 0 }, before })
        }
        Be::MultiRange => {
            // split the stream into k segments, lay them out in rotated order with gaps
            let k = 1 + cfg.below(4) as usize;
            let mut cuts: Vec<usize> = (0..k - 1).map(|_| cfg.below(total as u64 + 1) as usize).collect();
            cuts.sort();
            let mut lens = vec![];
            let mut prev = 0;
            for c in cuts.iter().chain(std::iter::once(&total)) {
                lens.push(c - prev);
                prev = *c;
            }
            let rot = cfg.below(k as u64) as usize;
            let mut segs = vec![(0u64, 0u64); k];
            let mut off = cfg.below(8);
            for j in 0..k {
                let idx = (j + rot) % k;
                segs[idx] = (off, off + lens[idx] as u64);
                off += lens[idx] as u64 + cfg.below(6);
            }
            let before = pattern(off as usize + 3, 9);
            let m = medium(before.clone());
            let fw = Shared::new(FaultyWrite::new(m.clone(), f, fchan, log));
            cx.ev(format!("writer: WriterDataOutput over RangeWriter segments {:?} of a {}-byte medium", segs, before.len()));
            let w = SegWriter { inner: fw, segs: segs.clone(), cur: 0, w: None };
            Ok(WBuilt { out: Box::new(WOut(WriterDataOutput::new(Box::new(w)))), medium: Some(m), layout: Layout::Segs(segs), before })
        }
    }
}

fn build_reader<'a>(cx: &mut Run, cfg: &Chan, be: Be, data: &'a [u8], layout: &Layout, f: FaultCfg, log: SharedLog, total: usize, file: &'a TmpFile) -> ZResult<Box<dyn PosIn + 'a>> {
    let fchan = cx.src.chan("fault.r");
    match be {
        Be::SliceVec => {
            cx.ev("reader: SliceDataInput");
            Ok(Box::new(SIn(SliceDataInput::new(data))))
        }
        Be::File => {
            let k = cfg.below(5);
            cx.ev(format!("reader: {}", ["MmapDataInput::open", "MemoryMappedInput::from_path", "MemoryMappedInput::new(File)", "ReaderDataInput<MmapZeroCopyReader>", "ReaderDataInput<File>"][k as usize]));
            Ok(match k {
                0 => Box::new(MDIn(MmapDataInput::open(&file.0)?)),
                1 => {
                    let r = MemoryMappedInput::from_path(&file.0)?;
                    cx.probe(&format!("MemoryMappedInput.{:?}", r.strategy()));
                    Box::new(MMIn(r))
                }
                2 => {
                    let r = MemoryMappedInput::new(std::fs::File::open(&file.0).map_err(|e| to_z(e))?)?;
                    cx.probe(&format!("MemoryMappedInput.{:?}", r.strategy()));
                    Box::new(MMIn(r))
                }
                3 => Box::new(RIn(ReaderDataInput::new(Box::new(MmapZeroCopyReader::new(std::fs::File::open(&file.0).map_err(|e| to_z(e))?)?)))),
                _ => Box::new(RIn(ReaderDataInput::new(Box::new(std::fs::File::open(&file.0).map_err(|e| to_z(e))?)))),
            })
        }
        _ => {
            let fr = FaultyRead::new(Cursor::new(data.to_vec()), f, fchan, log);
            match (be, layout) {
                (Be::Plain, _) => {
                    cx.ev("reader: ReaderDataInput<medium>");
                    Ok(Box::new(RIn(ReaderDataInput::new(Box::new(fr)))))
                }
                (Be::Buffered, _) => {
                    let (c, d) = draw_sb_cfg(cfg);
                    cx.ev(format!("reader: ReaderDataInput<StreamBufferedReader({})>", d));
                    Ok(Box::new(RIn(ReaderDataInput::new(Box::new(StreamBufferedReader::with_config(fr, c)?)))))
                }
                (Be::ZeroCopy, _) => {
                    let cap = draw_zc_cap(cfg);
                    let secure = cfg.chance(1, 20);
                    cx.ev(format!("reader: ReaderDataInput<ZeroCopyReader(capacity={}{})>", cap, if secure { ", secure buffer" } else { "" }));
                    let r = if secure { ZeroCopyReader::with_secure_buffer(fr, cap)? } else { ZeroCopyReader::with_capacity(fr, cap)? };
                    Ok(Box::new(RIn(ReaderDataInput::new(Box::new(r)))))
                }
                (Be::Stacked, _) => {
                    let mut r: Box<dyn Read> = Box::new(fr);
                    let mut names = vec![];
                    for l in draw_layers(cfg) {
                        r = match l {
                            0 => {
                                let (c, d) = draw_sb_cfg(cfg);
                                names.push(format!("StreamBufferedReader({})", d));
                                Box::new(StreamBufferedReader::with_config(r, c)?)
                            }
                            1 => {
                                let cap = draw_zc_cap(cfg);
                                names.push(format!("ZeroCopyReader({})", cap));
                                Box::new(ZeroCopyReader::with_capacity(r, cap)?)
                            }
                            2 => {
                                let s = cfg.below(1000);
                                names.push(format!("RangeReader(virtual start {}, len {})", s, total));
                                Box::new(RangeReader::new(r, s, total as u64))
                            }
                            _ => {
                                let cap = 1 + cfg.below(16) as usize;
                                names.push(format!("std BufReader({})", cap));
                                Box::new(io::BufReader::with_capacity(cap, r))
                            }
                        };
                    }
                    cx.ev(format!("reader stack (bottom to top): medium, {}", names.join(", ")));
                    Ok(Box::new(RIn(ReaderDataInput::new(r))))
                }
                (Be::Range, Layout::Range { start, len, .. }) => {
                    let direct = cfg.below(2) == 0;
                    cx.ev(format!("reader: {}RangeReader::new_and_seek(start={}, len={})", if direct { "" } else { "ReaderDataInput<" }, start, len));
                    let r = RangeReader::new_and_seek(fr, *start, *len)?;
                    Ok(if direct { Box::new(RgIn(r)) } else { Box::new(RIn(ReaderDataInput::new(Box::new(r)))) })
                }
                (Be::MultiRange, Layout::Segs(segs)) => {
                    cx.ev(format!("reader: ReaderDataInput<MultiRangeReader({:?})>", segs));
                    Ok(Box::new(RIn(ReaderDataInput::new(Box::new(MultiRangeReader::new(fr, segs.clone()))))))
                }
                _ => unreachable!(),
            }
        }
    }
}
fn to_z(e: io::Error) -> zipora::error::ZiporaError {
    zipora::error::ZiporaError::io_error(e.to_string())
}

// ---------------------------------------------------------------------------------------
// the typed round trip (all back ends, all value families)

fn typed_run(cx: &mut Run, be: Be, hard: bool, fam: Fam) {
    let cfg = cx.src.chan("cfg");
    // one run in eight writes and reads a long sequence of values through one writer / one reader
    let planned = (2 + cfg.below(11)) * if cfg.chance(1, 8) { 5 } else { 1 };
    let ops = take_ops(cx, "ops", planned);
    let big = match be {
        Be::File => [64usize, 300, 6000, 140_000][cfg.weighted(&[12, 12, 12, 1])],
        _ => [64usize, 300, 3000, 40000, 140_000][cfg.weighted(&[30, 30, 12, 6, 1])],
    };
    let vals: Vec<Val> = ops.iter().enumerate().map(|(i, o)| gen_val(fam, i, *o, big)).collect();
    let by_value = fam != Fam::Prim;
    let site_of = |v: &Val, what: &str| -> String { if by_value { v.kind() } else { format!("{}.{}", be.label(), what) } };

    // how many bytes will the encoders produce (sizing of ranges and of the cut offset)
    let mut dry = VecDataOutput::new();
    for v in &vals {
        if let Err(e) = v.write(&mut DynOut(&mut dry)) {
            cx.violate("unexpected_error", &site_of(v, "encode"), format!("encoding {} into a Vec failed: {}", v.desc(), clip(&e)));
            return;
        }
    }
    let total = dry.len();
    drop(dry);

    let (w_hard, r_hard) = if hard && be.has_fault_seam() { if cfg.below(2) == 0 { (true, false) } else { (false, true) } } else { (false, false) };
    let wf = e3::draw_cfg(&cfg, w_hard, total as u64 + 4);
    let rf = e3::draw_cfg(&cfg, r_hard, total as u64 + 4);
    let file = TmpFile::new(be == Be::File);

    // ---- write
    let wlog = e3::new_log();
    if be.has_fault_seam() {
        cx.ev(format!("write side: {} short={}% chunk={} eintr={}% error={}% cut={:?} flush_error={}%", if w_hard { "HARD" } else { "benign" }, wf.short_pct, wf.max_chunk, wf.eintr_pct, wf.error_pct, wf.cut_at, wf.flush_error_pct));
    }
    let built = match build_writer(cx, &cfg, be, wf, wlog.clone(), total, &file) {
        Ok(b) => b,
        Err(e) => {
            if be == Be::File {
                cx.ev(format!("cannot create the writer: {} (run abandoned)", clip(&e)));
                cx.probe("file_writer_create_failed");
                cx.abandoned = true;
            } else if hard_fired(&wlog) {
                note_faults(cx, &wlog, "write");
                cx.ev(format!("creating the writer failed after an injected fault: {}", clip(&e)));
            } else {
                cx.violate("unexpected_error", &format!("{}.create_writer", be.label()), clip(&e));
            }
            return;
        }
    };
    let WBuilt { mut out, medium: med, layout, before } = built;
    let mut wpos: Vec<u64> = vec![];
    let mut w_failed = false;
    // one run in three: DataOutput::flush in the middle of the stream, then the writer is used again
    let flush_after: Option<usize> = if cfg.below(3) == 0 { Some(cfg.below(vals.len().max(1) as u64) as usize) } else { None };
    for (i, v) in vals.iter().enumerate() {
        if w_failed {
            break;
        }
        if flush_after == Some(i) && i > 0 {
            match out.out().flush() {
                Ok(()) => {
                    cx.ev(format!("flush before value #{} -> ok", i));
                    cx.probe("mid_stream_flush");
                    if out.pos() != wpos[i - 1] {
                        note_faults(cx, &wlog, "write");
                        cx.violate("wrong_position", &format!("{}.flush", be.label()), format!("a flush moved the writer from {} to {}", wpos[i - 1], out.pos()));
                        return;
                    }
                }
                Err(e) => {
                    w_failed = true;
                    if hard_fired(&wlog) {
                        cx.ev(format!("flush before value #{} -> Err after an injected hard fault (allowed): {}", i, clip(&e)));
                    } else {
                        note_faults(cx, &wlog, "write");
                        cx.violate("unexpected_error", &format!("{}.flush", be.label()), format!("a flush before value #{} failed with no hard fault injected: {}", i, clip(&e)));
                        return;
                    }
                    break;
                }
            }
        }
        match v.write(&mut DynOut(out.out())) {
            Ok(()) => {
                wpos.push(out.pos());
                cx.ev(format!("w{} {} -> ok, writer at {}", i, v.desc(), out.pos()));
                cx.steps += 1;
                // the trait-level observers (a generic encoder sees only these) must agree with the back end's own count
                let (tp, tb) = (out.out().position(), out.out().bytes_written());
                if tp.map_or(false, |p| p != out.pos()) || tb.map_or(false, |p| p != out.pos()) {
                    note_faults(cx, &wlog, "write");
                    cx.violate("wrong_position", &format!("{}.DataOutput.position", be.label()), format!("after value #{} the writer is at {} but DataOutput::position()={:?} bytes_written()={:?}", i, out.pos(), tp, tb));
                    return;
                }
            }
            Err(e) => {
                w_failed = true;
                if hard_fired(&wlog) {
                    cx.ev(format!("w{} {} -> Err after an injected hard fault (allowed): {}", i, v.desc(), clip(&e)));
                } else {
                    note_faults(cx, &wlog, "write");
                    cx.violate("unexpected_error", &site_of(v, "write"), format!("writing value #{} ({}) failed with no hard fault injected: {}", i, v.desc(), clip(&e)));
                    return;
                }
                break;
            }
        }
    }
    if !w_failed {
        if let Err(e) = out.finish() {
            w_failed = true;
            if hard_fired(&wlog) {
                cx.ev(format!("flush -> Err after an injected hard fault (allowed): {}", clip(&e)));
            } else {
                note_faults(cx, &wlog, "write");
                cx.violate("unexpected_error", &format!("{}.flush", be.label()), format!("flush failed with no hard fault injected: {}", clip(&e)));
                return;
            }
        } else {
            cx.ev("flush -> ok");
        }
    }
    let reported = out.pos();
    // VecDataOutput keeps its bytes itself
    let vec_bytes: Option<Vec<u8>> = out.bytes();
    // the medium is looked at before the writer stack is dropped: what a destructor retries
    // after a surfaced hard error is not part of what is checked
    let snapshot: Option<Vec<u8>> = med.as_ref().map(medium_bytes);
    drop(out);
    note_faults(cx, &wlog, "write");
    let delivered: Vec<u8> = match (snapshot, be) {
        (Some(m), _) => m,
        (None, Be::File) => std::fs::read(&file.0).unwrap_or_default(),
        _ => vec_bytes.unwrap_or_default(),
    };
    let complete = !w_failed;
    if complete {
        if reported != total as u64 {
            cx.violate("length_mismatch", &format!("{}.bytes_written", be.label()), format!("the writer reports {} bytes for values that encode to {} bytes into a Vec", reported, total));
            return;
        }
        match &layout {
            Layout::Whole => {
                if delivered.len() != total {
                    cx.violate("length_mismatch", &format!("{}.flush", be.label()), format!("the writer reported {} bytes, all writes and the flush succeeded, but the medium holds {} bytes", total, delivered.len()));
                    return;
                }
            }
            Layout::File => {
                if delivered.len() < total {
                    cx.violate("length_mismatch", &format!("{}.flush", be.label()), format!("the writer reported {} bytes but the file holds {} bytes", total, delivered.len()));
                    return;
                }
            }
            _ => {}
        }
    }
    // nothing outside the range(s) may have been touched, whatever happened
    let allowed: Vec<(u64, u64)> = match &layout {
        Layout::Range { start, len, .. } => vec![(*start, start + len)],
        Layout::Segs(s) => s.clone(),
        _ => vec![],
    };
    if !allowed.is_empty() {
        if delivered.len() != before.len() {
            cx.violate("range_overrun", &format!("{}.write", be.label()), format!("the medium changed size from {} to {} bytes", before.len(), delivered.len()));
            return;
        }
        for (j, (a, b)) in before.iter().zip(delivered.iter()).enumerate() {
            let inside = allowed.iter().any(|(s, e)| (j as u64) >= *s && (j as u64) < *e);
            if a != b && !inside {
                cx.violate("range_overrun", &format!("{}.write", be.label()), format!("byte {} of the medium lies outside the range(s) {:?} but was overwritten", j, allowed));
                return;
            }
        }
    }

    // ---- read back
    let n_check = if complete {
        vals.len()
    } else {
        match &layout {
            Layout::Whole => wpos.iter().filter(|p| **p <= delivered.len() as u64).count(),
            _ => 0,
        }
    };
    if !complete {
        cx.ev(format!("the write side failed; {} bytes were delivered, {} complete value(s) are read back", delivered.len(), n_check));
        if n_check == 0 {
            cx.nontrivial = wpos.len() >= 1;
            return;
        }
    }
    let rlog = e3::new_log();
    if be.has_fault_seam() {
        cx.ev(format!("read side: {} short={}% chunk={} eintr={}% error={}% cut={:?}", if r_hard { "HARD" } else { "benign" }, rf.short_pct, rf.max_chunk, rf.eintr_pct, rf.error_pct, rf.cut_at));
    }
    let what = if complete { "read" } else { "delivered_prefix" };
    let mut inp = match build_reader(cx, &cfg, be, &delivered, &layout, rf, rlog.clone(), total, &file) {
        Ok(r) => r,
        Err(e) => {
            if be == Be::File && delivered.is_empty() {
                cx.ev(format!("cannot open the empty file: {} (not checked)", clip(&e)));
            } else if hard_fired(&rlog) {
                note_faults(cx, &rlog, "read");
                cx.ev(format!("creating the reader failed after an injected fault: {}", clip(&e)));
            } else {
                cx.violate("unexpected_error", &format!("{}.create_reader", be.label()), clip(&e));
            }
            return;
        }
    };
    let mut stopped = false;
    for (i, v) in vals.iter().enumerate().take(n_check) {
        let r = v.read_check(&mut DynIn(inp.inp()));
        cx.steps += 1;
        match r {
            Ok(None) => {
                let p = inp.pos();
                if p != wpos[i] {
                    note_faults(cx, &rlog, "read");
                    cx.violate("consumed_mismatch", &site_of(v, what), format!("value #{} ({}) decoded to an equal value but the reader is at {} where the writer was at {} (value starts at {})", i, v.desc(), p, wpos[i], if i == 0 { 0 } else { wpos[i - 1] }));
                    return;
                }
                cx.ev(format!("r{} -> equal, reader at {}", i, p));
                cx.cell(format!("{}/{}/ok", be.label(), v.kind()));
                // trait-level observers: position() and has_remaining() (None = not supported by the back end)
                let (tp, hr) = (inp.inp().position(), inp.inp().has_remaining());
                let more = p < delivered.len() as u64 && !matches!(layout, Layout::Range { .. } | Layout::Segs(_)) || matches!(layout, Layout::Range { .. }) && p < total as u64;
                if tp.map_or(false, |q| q != p) || (complete && hr.map_or(false, |h| h != more)) {
                    note_faults(cx, &rlog, "read");
                    cx.violate("wrong_position", &format!("{}.DataInput.position", be.label()), format!("after value #{} the reader is at {} of {} but DataInput::position()={:?} has_remaining()={:?}", i, p, total, tp, hr));
                    return;
                }
            }
            Ok(Some(got)) => {
                note_faults(cx, &rlog, "read");
                cx.violate("wrong_value", &site_of(v, what), format!("value #{} written as {} was read back as {}", i, v.desc(), got));
                return;
            }
            Err(e) => {
                if hard_fired(&rlog) {
                    cx.ev(format!("r{} -> Err after an injected hard fault (allowed; checking of this stream stops): {}", i, clip(&e)));
                    cx.cell(format!("{}/{}/refused", be.label(), v.kind()));
                    stopped = true;
                    break;
                }
                note_faults(cx, &rlog, "read");
                cx.violate("unexpected_error", &site_of(v, what), format!("reading value #{} ({}) failed with no hard fault injected: {}", i, v.desc(), clip(&e)));
                return;
            }
        }
    }
    // a reader must not invent bytes past the end of what was written
    if !stopped && complete {
        let exact_end = match &layout {
            Layout::Whole | Layout::Segs(_) | Layout::Range { .. } => true,
            Layout::File => delivered.len() == total,
        };
        if exact_end {
            if let Ok(b) = inp.inp().read_u8() {
                if !hard_fired(&rlog) {
                    note_faults(cx, &rlog, "read");
                    cx.violate("read_past_end", &format!("{}.read", be.label()), format!("after all {} bytes were consumed the reader still returned a byte ({:#x})", total, b));
                    return;
                }
            }
        }
    }
    drop(inp);
    note_faults(cx, &rlog, "read");
    cx.nontrivial = n_check >= 2;
}

// ---------------------------------------------------------------------------------------
// raw-byte scenarios: the back ends' own read/write APIs against a position model

/// Outcome of one step of an API scenario.
enum Step {
    Go,
    Stop,
}

/// An error surfaced: allowed (and the stream is abandoned) iff a hard fault was injected before.
fn api_err(cx: &mut Run, log: &SharedLog, site: &str, what: &str, e: &dyn std::fmt::Display) -> Step {
    if hard_fired(log) {
        cx.ev(format!("{} -> Err after an injected hard fault (allowed; checking of this stream stops): {}", what, clip(e)));
    } else if e.to_string().contains("Buffer at maximum capacity") {
        // one root cause (a full buffer smaller than the request is not drained first) gets one identity
        cx.violate("unexpected_error", &format!("{}@buffer_at_max_capacity", site), format!("{} failed with no hard fault injected: {}", what, clip(e)));
    } else {
        cx.violate("unexpected_error", site, format!("{} failed with no hard fault injected: {}", what, clip(e)));
    }
    Step::Stop
}

fn size_arg(a: u64, b: u64, unit: usize) -> usize {
    match a % 6 {
        0 => (b % 4) as usize,
        1 | 2 => 1 + (b as usize) % (unit.max(1)),
        3 => unit + (b as usize) % (unit.max(1) + 1),
        4 => 2 * unit + 1 + (b as usize) % (2 * unit.max(1)),
        _ => (b as usize) % (5 * unit.max(1) + 2),
    }
}

fn api_sb_reader(cx: &mut Run, hard: bool) {
    let cfg = cx.src.chan("cfg");
    let (c, d) = draw_sb_cfg(&cfg);
    let preset = d.starts_with("preset");
    let unit = if preset { 3000 } else { c.initial_capacity };
    let max_cap = c.max_capacity;
    let len = if preset { *cfg.pick(&[100usize, 9000, 70_000, 140_000]) } else { cfg.below((6 * unit + 40) as u64) as usize };
    let data = pattern(len, 3);
    let f = e3::draw_cfg(&cfg, hard, len as u64 + 2);
    cx.ev(format!("StreamBufferedReader({}) over {} bytes; {} short={}% chunk={} eintr={}% error={}% cut={:?}", d, len, if hard { "HARD" } else { "benign" }, f.short_pct, f.max_chunk, f.eintr_pct, f.error_pct, f.cut_at));
    let log = e3::new_log();
    let fr = FaultyRead::new(Cursor::new(data.clone()), f, cx.src.chan("fault.r"), log.clone());
    let mut r = match StreamBufferedReader::with_config(fr, c) {
        Ok(r) => r,
        Err(e) => {
            cx.violate("unexpected_error", "StreamBufferedReader.with_config", clip(&e));
            return;
        }
    };
    let planned = 3 + cfg.below(10);
    let ops = take_ops(cx, "ops", planned);
    let mut pos = 0usize;
    let mut stop = false;
    for o in &ops {
        let n = size_arg(o[1], o[2], unit);
        let rem = len - pos;
        cx.steps += 1;
        let st = match o[0] % 8 {
            0 => {
                let n = n.min(rem);
                let mut buf = vec![0u8; n];
                match r.read_exact(&mut buf) {
                    Ok(()) => {
                        if buf[..] != data[pos..pos + n] {
                            cx.violate("wrong_value", "StreamBufferedReader.read", format!("read_exact({}) at {} returned {} instead of {}", n, pos, short_bytes(&buf), short_bytes(&data[pos..pos + n])));
                            Step::Stop
                        } else {
                            cx.ev(format!("read_exact({}) at {} -> ok", n, pos));
                            pos += n;
                            Step::Go
                        }
                    }
                    Err(e) => api_err(cx, &log, "StreamBufferedReader.read", &format!("read_exact({}) at {} ({} bytes remain)", n, pos, rem), &e),
                }
            }
            1 | 6 => {
                let bulk = o[0] % 8 == 6;
                let name = if bulk { "read_bulk" } else { "read" };
                let mut buf = vec![0u8; n];
                let res = if bulk { r.read_bulk(&mut buf).map_err(to_io) } else { r.read(&mut buf) };
                match res {
                    Ok(k) => {
                        if k > n || k > rem || buf[..k] != data[pos..pos + k] {
                            cx.violate("wrong_value", &format!("StreamBufferedReader.{}", name), format!("{}(buf of {}) at {} returned {} bytes {} instead of a prefix of the {} remaining bytes", name, n, pos, k, short_bytes(&buf[..k.min(n)]), rem));
                            Step::Stop
                        } else if k == 0 && n > 0 && rem > 0 && !hard_fired(&log) {
                            cx.violate("premature_eof", &format!("StreamBufferedReader.{}", name), format!("{}(buf of {}) at {} returned 0 although {} bytes remain", name, n, pos, rem));
                            Step::Stop
                        } else {
                            cx.ev(format!("{}(buf of {}) at {} -> {}", name, n, pos, k));
                            pos += k;
                            Step::Go
                        }
                    }
                    Err(e) => api_err(cx, &log, &format!("StreamBufferedReader.{}", name), &format!("{}(buf of {}) at {}", name, n, pos), &e),
                }
            }
            2 => match r.read_byte_fast() {
                Ok(b) => {
                    if rem == 0 || b != data[pos] {
                        cx.violate("wrong_value", "StreamBufferedReader.read_byte_fast", format!("read_byte_fast at {} returned {:#x}, expected {}", pos, b, if rem == 0 { "end of stream".to_string() } else { format!("{:#x}", data[pos]) }));
                        Step::Stop
                    } else {
                        cx.ev(format!("read_byte_fast at {} -> ok", pos));
                        pos += 1;
                        Step::Go
                    }
                }
                Err(e) => {
                    if rem == 0 {
                        cx.ev(format!("read_byte_fast at end -> Err (expected): {}", clip(&e)));
                        Step::Go
                    } else {
                        api_err(cx, &log, "StreamBufferedReader.read_byte_fast", &format!("read_byte_fast at {}", pos), &e)
                    }
                }
            },
            3 => match r.read_slice(n) {
                Ok(Some(s)) => {
                    if n > rem || s != &data[pos..pos + n] {
                        let got = short_bytes(s);
                        cx.violate("wrong_value", "StreamBufferedReader.read_slice", format!("read_slice({}) at {} returned {} ({} bytes remain)", n, pos, got, rem));
                        Step::Stop
                    } else {
                        cx.ev(format!("read_slice({}) at {} -> Some", n, pos));
                        pos += n;
                        Step::Go
                    }
                }
                Ok(None) => {
                    cx.ev(format!("read_slice({}) at {} -> None (nothing consumed)", n, pos));
                    Step::Go
                }
                Err(e) => {
                    if n > max_cap && !hard_fired(&log) {
                        cx.ev(format!("read_slice({}) with max_capacity {} -> Err (documented limit): {}", n, max_cap, clip(&e)));
                        Step::Go
                    } else {
                        api_err(cx, &log, "StreamBufferedReader.read_slice", &format!("read_slice({}) at {}", n, pos), &e)
                    }
                }
            },
            4 => {
                let mut buf = vec![0u8; n];
                match r.read_simd_optimized(&mut buf) {
                    Ok(k) => {
                        if k > n || k > rem || buf[..k] != data[pos..pos + k] {
                            cx.violate("wrong_value", "StreamBufferedReader.read_simd_optimized", format!("read_simd_optimized(buf of {}) at {} returned {} bytes {}", n, pos, k, short_bytes(&buf[..k.min(n)])));
                            Step::Stop
                        } else if k == 0 && n > 0 && rem > 0 && !hard_fired(&log) {
                            cx.violate("premature_eof", "StreamBufferedReader.read_simd_optimized", format!("returned 0 at {} although {} bytes remain", pos, rem));
                            Step::Stop
                        } else {
                            cx.ev(format!("read_simd_optimized(buf of {}) at {} -> {}", n, pos, k));
                            pos += k;
                            Step::Go
                        }
                    }
                    Err(e) => api_err(cx, &log, "StreamBufferedReader.read_simd_optimized", &format!("read_simd_optimized(buf of {}) at {}", n, pos), &e),
                }
            }
            5 => match r.fill_buf() {
                Ok(s) => {
                    let k = s.len();
                    if k > rem || s != &data[pos..pos + k] {
                        let got = short_bytes(s);
                        cx.violate("wrong_value", "StreamBufferedReader.fill_buf", format!("fill_buf at {} returned {} ({} bytes remain)", pos, got, rem));
                        Step::Stop
                    } else if k == 0 && rem > 0 && !hard_fired(&log) {
                        cx.violate("premature_eof", "StreamBufferedReader.fill_buf", format!("fill_buf at {} returned an empty slice although {} bytes remain", pos, rem));
                        Step::Stop
                    } else {
                        let take = if k == 0 { 0 } else { (o[3] as usize) % (k + 1) };
                        r.consume(take);
                        cx.ev(format!("fill_buf at {} -> {} bytes, consume({})", pos, k, take));
                        pos += take;
                        Step::Go
                    }
                }
                Err(e) => api_err(cx, &log, "StreamBufferedReader.fill_buf", &format!("fill_buf at {}", pos), &e),
            },
            _ => match r.ensure_buffered(n) {
                Ok(k) => {
                    if k > rem {
                        cx.violate("wrong_value", "StreamBufferedReader.ensure_buffered", format!("ensure_buffered({}) at {} reports {} buffered bytes but only {} remain", n, pos, k, rem));
                        Step::Stop
                    } else {
                        cx.ev(format!("ensure_buffered({}) at {} -> {}", n, pos, k));
                        if r.capacity() > unit {
                            cx.probe("buffer_grown");
                        }
                        Step::Go
                    }
                }
                Err(e) => {
                    if n > max_cap && !hard_fired(&log) {
                        cx.ev(format!("ensure_buffered({}) with max_capacity {} -> Err (documented limit): {}", n, max_cap, clip(&e)));
                        Step::Go
                    } else {
                        api_err(cx, &log, "StreamBufferedReader.ensure_buffered", &format!("ensure_buffered({}) at {}", n, pos), &e)
                    }
                }
            },
        };
        if let Step::Stop = st {
            stop = true;
            break;
        }
    }
    if !stop && !cx.failed() {
        let mut rest = vec![];
        match r.read_to_end(&mut rest) {
            Ok(_) => {
                let prefix_after_fault = hard_fired(&log) && rest.len() <= len - pos && rest[..] == data[pos..pos + rest.len()];
                if rest[..] != data[pos..] && !prefix_after_fault {
                    cx.violate("wrong_value", "StreamBufferedReader.read", format!("read_to_end from {} returned {} instead of {}", pos, short_bytes(&rest), short_bytes(&data[pos..])));
                } else {
                    cx.ev(format!("read_to_end from {} -> the remaining {} bytes", pos, rest.len()));
                }
            }
            Err(e) => {
                api_err(cx, &log, "StreamBufferedReader.read", &format!("read_to_end from {}", pos), &e);
            }
        }
    }
    note_faults(cx, &log, "read");
    cx.nontrivial = ops.len() >= 3;
}

fn api_sb_writer(cx: &mut Run, hard: bool) {
    let cfg = cx.src.chan("cfg");
    let (c, d) = draw_sb_cfg(&cfg);
    let preset = d.starts_with("preset");
    let unit = if preset { 3000 } else { c.initial_capacity };
    let f = e3::draw_cfg(&cfg, hard, (4 * unit) as u64);
    cx.ev(format!("StreamBufferedWriter({}); {} short={}% chunk={} eintr={}% error={}% cut={:?} flush_error={}%", d, if hard { "HARD" } else { "benign" }, f.short_pct, f.max_chunk, f.eintr_pct, f.error_pct, f.cut_at, f.flush_error_pct));
    let log = e3::new_log();
    let m = medium(vec![]);
    let fw = FaultyWrite::new(m.clone(), f, cx.src.chan("fault.w"), log.clone());
    let mut w = match StreamBufferedWriter::with_config(fw, c) {
        Ok(w) => w,
        Err(e) => {
            cx.violate("unexpected_error", "StreamBufferedWriter.with_config", clip(&e));
            return;
        }
    };
    let planned = 3 + cfg.below(10);
    let ops = take_ops(cx, "ops", planned);
    let mut model: Vec<u8> = vec![];
    let mut failed = false;
    for o in &ops {
        let n = size_arg(o[1], o[2], unit);
        let chunk: Vec<u8> = pattern(model.len() + n, 5)[model.len()..].to_vec();
        cx.steps += 1;
        let r: Result<(), (String, String)> = match o[0] % 5 {
            0 | 1 => {
                model.extend_from_slice(&chunk);
                w.write_all(&chunk).map(|_| cx.ev(format!("write_all({}) -> ok", n))).map_err(|e| (format!("write_all({})", n), clip(&e)))
            }
            2 => {
                let b = chunk.first().copied().unwrap_or(0x5A);
                model.push(b);
                w.write_byte_fast(b).map(|_| cx.ev("write_byte_fast -> ok")).map_err(|e| ("write_byte_fast".to_string(), clip(&e)))
            }
            3 => match w.write(&chunk) {
                Ok(k) => {
                    if k > n || (k == 0 && n > 0) {
                        cx.violate("wrong_value", "StreamBufferedWriter.write", format!("write(buf of {}) returned {}", n, k));
                        return;
                    }
                    model.extend_from_slice(&chunk[..k]);
                    cx.ev(format!("write(buf of {}) -> {}", n, k));
                    Ok(())
                }
                Err(e) => {
                    if e.kind() == io::ErrorKind::Interrupted {
                        cx.ev(format!("write(buf of {}) -> Interrupted (nothing written)", n));
                        Ok(())
                    } else {
                        model.extend_from_slice(&chunk);
                        Err((format!("write(buf of {})", n), clip(&e)))
                    }
                }
            },
            _ => match w.flush() {
                Ok(()) => {
                    let got = medium_bytes(&m);
                    if got != model {
                        cx.violate("wrong_value", "StreamBufferedWriter.flush", format!("after flush the medium holds {} but {} was written", short_bytes(&got), short_bytes(&model)));
                        return;
                    }
                    if w.buffer_usage() != 0 || w.total_written() != model.len() as u64 {
                        cx.violate("length_mismatch", "StreamBufferedWriter.total_written", format!("after flush buffer_usage()={} total_written()={} but {} bytes were written", w.buffer_usage(), w.total_written(), model.len()));
                        return;
                    }
                    cx.ev(format!("flush -> ok, medium holds all {} bytes", model.len()));
                    Ok(())
                }
                Err(e) => Err(("flush".to_string(), clip(&e))),
            },
        };
        if let Err((what, e)) = r {
            failed = true;
            if hard_fired(&log) {
                cx.ev(format!("{} -> Err after an injected hard fault (allowed; checking of this stream stops): {}", what, e));
            } else {
                cx.violate("unexpected_error", "StreamBufferedWriter.write", format!("{} failed with no hard fault injected: {}", what, e));
                return;
            }
            break;
        }
    }
    if !failed {
        match w.flush() {
            Ok(()) => {
                let got = medium_bytes(&m);
                if got != model {
                    cx.violate("wrong_value", "StreamBufferedWriter.flush", format!("after the final flush the medium holds {} but {} was written", short_bytes(&got), short_bytes(&model)));
                    return;
                }
                cx.ev(format!("final flush -> ok, medium holds all {} bytes", model.len()));
            }
            Err(e) => {
                failed = true;
                if !hard_fired(&log) {
                    cx.violate("unexpected_error", "StreamBufferedWriter.flush", clip(&e));
                    return;
                }
                cx.ev(format!("final flush -> Err after an injected hard fault (allowed): {}", clip(&e)));
            }
        }
    }
    if failed {
        let got = medium_bytes(&m);
        if got.len() > model.len() || got[..] != model[..got.len()] {
            cx.violate("wrong_value", "StreamBufferedWriter.delivered_prefix", format!("after the failure the medium holds {} which is not a prefix of what was written ({})", short_bytes(&got), short_bytes(&model)));
            return;
        }
        cx.ev(format!("the {} delivered bytes are a prefix of what was written", got.len()));
    }
    note_faults(cx, &log, "write");
    cx.nontrivial = ops.len() >= 3;
}

/// Seek target that stays inside [0, len]: (SeekFrom, resulting position, name)
fn seek_arg(o: &[u64; 4], pos: u64, len: u64) -> (SeekFrom, u64, &'static str) {
    let t = if len == 0 { 0 } else { o[2] % (len + 1) };
    match o[1] % 3 {
        0 => (SeekFrom::Start(t), t, "Start"),
        1 => (SeekFrom::Current(t as i64 - pos as i64), t, "Current"),
        _ => (SeekFrom::End(t as i64 - len as i64), t, "End"),
    }
}

/// Site of a data/position mismatch: the kind of the most recent seek, or plain reading/writing.
fn after_seek(target: &str, last: &str) -> String {
    if last == "none" {
        format!("{}.sequential", target)
    } else {
        format!("{}.seek({})", target, last)
    }
}

fn seek_sb_reader(cx: &mut Run) {
    let cfg = cx.src.chan("cfg");
    let (c, d) = draw_sb_cfg(&cfg);
    let preset = d.starts_with("preset");
    let unit = if preset { 300 } else { c.initial_capacity };
    let len = if preset { 2000 } else { 1 + cfg.below((6 * unit + 40) as u64) as usize };
    let data = pattern(len, 11);
    cx.ev(format!("StreamBufferedReader({}) over a Cursor of {} bytes", d, len));
    let max_cap = c.max_capacity;
    let mut r = match StreamBufferedReader::with_config(Cursor::new(data.clone()), c) {
        Ok(r) => r,
        Err(e) => {
            cx.violate("unexpected_error", "StreamBufferedReader.with_config", clip(&e));
            return;
        }
    };
    let planned = 3 + cfg.below(8);
    let ops = take_ops(cx, "ops", planned);
    let mut pos = 0u64;
    let mut last = "none";
    let mut seeks = 0;
    for o in &ops {
        cx.steps += 1;
        if o[0] % 8 >= 6 {
            // the other read entry points after a seek: each has its own fast path over the buffer
            let rem = (len as u64 - pos) as usize;
            let n = size_arg(o[1], o[2], unit);
            let site = after_seek("StreamBufferedReader", last);
            let p = pos as usize;
            match (o[0] % 8, o[3] % 2) {
                (6, 0) => match r.read_byte_fast() {
                    Ok(b) => {
                        if rem == 0 || b != data[p] {
                            cx.violate("wrong_value", &site, format!("read_byte_fast at {} (last seek: {}) returned {:#x}, expected {}", pos, last, b, if rem == 0 { "end of stream".to_string() } else { format!("{:#x}", data[p]) }));
                            return;
                        }
                        cx.ev(format!("read_byte_fast at {} -> ok", pos));
                        pos += 1;
                    }
                    Err(e) => {
                        if rem > 0 {
                            cx.violate("unexpected_error", &site, format!("read_byte_fast at {} of {} (last seek: {}) failed: {}", pos, len, last, clip(&e)));
                            return;
                        }
                        cx.ev("read_byte_fast at end -> Err (expected)");
                    }
                },
                (6, _) => {
                    let mut buf = vec![0u8; n];
                    match r.read_bulk(&mut buf) {
                        Ok(k) => {
                            if k > n || k > rem || buf[..k] != data[p..p + k] || (k == 0 && n > 0 && rem > 0) {
                                cx.violate("wrong_value", &site, format!("read_bulk(buf of {}) at {} (last seek: {}, {} remain) returned {} bytes {}", n, pos, last, rem, k, short_bytes(&buf[..k.min(n)])));
                                return;
                            }
                            cx.ev(format!("read_bulk(buf of {}) at {} -> {}", n, pos, k));
                            pos += k as u64;
                        }
                        Err(e) => {
                            cx.violate("unexpected_error", &site, format!("read_bulk(buf of {}) at {} (last seek: {}) failed: {}", n, pos, last, clip(&e)));
                            return;
                        }
                    }
                }
                (_, 0) => match r.fill_buf() {
                    Ok(sl) => {
                        let k = sl.len();
                        if k > rem || sl != &data[p..p + k] || (k == 0 && rem > 0) {
                            let got = short_bytes(sl);
                            cx.violate("wrong_value", &site, format!("fill_buf at {} (last seek: {}, {} remain) returned {}", pos, last, rem, got));
                            return;
                        }
                        let take = if k == 0 { 0 } else { (o[2] as usize) % (k + 1) };
                        r.consume(take);
                        cx.ev(format!("fill_buf at {} -> {} bytes, consume({})", pos, k, take));
                        pos += take as u64;
                    }
                    Err(e) => {
                        cx.violate("unexpected_error", &site, format!("fill_buf at {} (last seek: {}) failed: {}", pos, last, clip(&e)));
                        return;
                    }
                },
                _ => match r.read_slice(n) {
                    Ok(Some(sl)) => {
                        if n > rem || sl != &data[p..p + n] {
                            let got = short_bytes(sl);
                            cx.violate("wrong_value", &site, format!("read_slice({}) at {} (last seek: {}, {} remain) returned {}", n, pos, last, rem, got));
                            return;
                        }
                        cx.ev(format!("read_slice({}) at {} -> Some", n, pos));
                        pos += n as u64;
                    }
                    Ok(None) => cx.ev(format!("read_slice({}) at {} -> None (nothing consumed)", n, pos)),
                    Err(e) => {
                        if n > max_cap {
                            cx.ev(format!("read_slice({}) with max_capacity {} -> Err (documented limit)", n, max_cap));
                        } else {
                            cx.violate("unexpected_error", &site, format!("read_slice({}) at {} (last seek: {}, {} remain) failed: {}", n, pos, last, rem, clip(&e)));
                            return;
                        }
                    }
                },
            }
        } else if o[0] % 2 == 0 {
            let n = (size_arg(o[1], o[2], unit) as u64).min(len as u64 - pos) as usize;
            let mut buf = vec![0u8; n];
            match r.read_exact(&mut buf) {
                Ok(()) => {
                    if buf[..] != data[pos as usize..pos as usize + n] {
                        cx.violate("wrong_value", &after_seek("StreamBufferedReader", last), format!("read_exact({}) at {} (last seek: {}) returned {} instead of {}", n, pos, last, short_bytes(&buf), short_bytes(&data[pos as usize..pos as usize + n])));
                        return;
                    }
                    cx.ev(format!("read_exact({}) at {} -> ok", n, pos));
                    pos += n as u64;
                }
                Err(e) => {
                    cx.violate("unexpected_error", &after_seek("StreamBufferedReader", last), format!("read_exact({}) at {} of {} (last seek: {}) failed: {}", n, pos, len, last, clip(&e)));
                    return;
                }
            }
        } else {
            let (sf, want, name) = seek_arg(o, pos, len as u64);
            last = name;
            seeks += 1;
            match r.seek(sf) {
                Ok(p) => {
                    if p != want {
                        cx.violate("wrong_position", &format!("StreamBufferedReader.seek({})", name), format!("seek({:?}) from logical position {} returned {} instead of {}", sf, pos, p, want));
                        return;
                    }
                    cx.ev(format!("seek({:?}) from {} -> {}", sf, pos, p));
                    pos = want;
                }
                Err(e) => {
                    cx.violate("unexpected_error", &format!("StreamBufferedReader.seek({})", name), format!("seek({:?}) from {} failed: {}", sf, pos, clip(&e)));
                    return;
                }
            }
        }
    }
    cx.nontrivial = seeks >= 1 && ops.len() >= 3;
}

fn seek_sb_writer(cx: &mut Run) {
    let cfg = cx.src.chan("cfg");
    let (c, d) = draw_sb_cfg(&cfg);
    let preset = d.starts_with("preset");
    let unit = if preset { 300 } else { c.initial_capacity };
    cx.ev(format!("StreamBufferedWriter({}) over a Cursor", d));
    let m = medium(vec![]);
    let mut w = match StreamBufferedWriter::with_config(m.clone(), c) {
        Ok(w) => w,
        Err(e) => {
            cx.violate("unexpected_error", "StreamBufferedWriter.with_config", clip(&e));
            return;
        }
    };
    let planned = 3 + cfg.below(8);
    let ops = take_ops(cx, "ops", planned);
    let mut model = Cursor::new(Vec::<u8>::new());
    let mut serial = 0usize;
    let mut seeks = 0;
    for o in &ops {
        cx.steps += 1;
        if o[0] % 2 == 0 {
            let n = size_arg(o[1], o[2], unit);
            let chunk: Vec<u8> = pattern(serial + n, 17)[serial..].to_vec();
            serial += n;
            model.write_all(&chunk).unwrap();
            if let Err(e) = w.write_all(&chunk) {
                cx.violate("unexpected_error", "StreamBufferedWriter.write", format!("write_all({}) failed: {}", n, clip(&e)));
                return;
            }
            cx.ev(format!("write_all({}) at {}", n, model.position() - n as u64));
        } else {
            let len = model.get_ref().len() as u64;
            let (sf, want, name) = seek_arg(o, model.position(), len);
            seeks += 1;
            model.seek(sf).unwrap();
            match w.seek(sf) {
                Ok(p) => {
                    if p != want {
                        cx.violate("wrong_position", &format!("StreamBufferedWriter.seek({})", name), format!("seek({:?}) returned {} instead of {}", sf, p, want));
                        return;
                    }
                    cx.ev(format!("seek({:?}) -> {}", sf, p));
                }
                Err(e) => {
                    cx.violate("unexpected_error", &format!("StreamBufferedWriter.seek({})", name), format!("seek({:?}) failed: {}", sf, clip(&e)));
                    return;
                }
            }
        }
    }
    if let Err(e) = w.flush() {
        cx.violate("unexpected_error", "StreamBufferedWriter.flush", clip(&e));
        return;
    }
    let got = medium_bytes(&m);
    if &got != model.get_ref() {
        cx.violate("wrong_value", "StreamBufferedWriter.seek", format!("after writes and seeks the medium holds {} but a Cursor given the same calls holds {}", short_bytes(&got), short_bytes(model.get_ref())));
        return;
    }
    cx.ev(format!("flush -> medium equals the model ({} bytes)", got.len()));
    cx.nontrivial = seeks >= 1 && ops.len() >= 3;
}

fn seek_range_reader(cx: &mut Run) {
    let cfg = cx.src.chan("cfg");
    let m_len = 1 + cfg.below(120);
    let start = cfg.below(m_len + 1);
    let len = cfg.below(m_len - start + 1);
    let data = pattern(m_len as usize, 19);
    let range = &data[start as usize..(start + len) as usize];
    cx.ev(format!("RangeReader::new_and_seek(start={}, len={}) over a Cursor of {} bytes", start, len, m_len));
    let mut r = match RangeReader::new_and_seek(Cursor::new(data.clone()), start, len) {
        Ok(r) => r,
        Err(e) => {
            cx.violate("unexpected_error", "RangeReader.new_and_seek", clip(&e));
            return;
        }
    };
    let planned = 3 + cfg.below(9);
    let ops = take_ops(cx, "ops", planned);
    let mut pos = 0u64;
    let mut last = "none";
    for o in &ops {
        cx.steps += 1;
        let rem = len - pos;
        let site = after_seek("RangeReader", last);
        if o[3] % 5 == 0 && matches!(o[0] % 8, 1 | 5 | 7) {
            // a request the range cannot satisfy is refused (documented: "Range exhausted" / beyond range end)
            // without moving: the reader is used again from the same offset
            let n = rem as usize + 1 + (o[2] % 3) as usize;
            let (what, refused) = match o[0] % 8 {
                1 => (format!("read_bytes({})", n), DataInput::read_bytes(&mut r, &mut vec![0u8; n]).is_err()),
                5 => (format!("seek_in_range({})", len + o[2] % 3), r.seek_in_range(len + o[2] % 3).is_err()),
                _ => match o[2] % 4 {
                    0 if rem < 8 => ("read_u64".to_string(), DataInput::read_u64(&mut r).is_err()),
                    1 if rem < 4 => ("read_u32".to_string(), DataInput::read_u32(&mut r).is_err()),
                    2 => (format!("skip({})", usize::MAX - n), DataInput::skip(&mut r, usize::MAX - n).is_err()),
                    _ => (format!("skip({})", n), DataInput::skip(&mut r, n).is_err()),
                },
            };
            let (p1, p2, p3) = (r.current_position() - r.start_position(), DataInput::position(&r).unwrap_or(u64::MAX), len - r.remaining());
            if !refused {
                cx.violate("read_past_end", "RangeReader.refusal", format!("{} at range offset {} succeeded although only {} bytes remain", what, pos, rem));
                return;
            }
            if p1 != pos || p2 != pos || p3 != pos {
                cx.violate("refused_op_consumed", "RangeReader.after_refusal", format!("{} at range offset {} ({} remain) was refused but moved the reader: current_position()-start={}, position()={}, len-remaining()={}", what, pos, rem, p1, p2, p3));
                return;
            }
            cx.ev(format!("{} at {} ({} remain) -> Err (refused), reader still at {}", what, pos, rem, pos));
            cx.probe("refused");
            continue;
        }
        match o[0] % 8 {
            0 | 1 => {
                let n = (o[2] % 12).min(rem) as usize;
                let mut buf = vec![0u8; n];
                let res = if o[0] % 8 == 0 { r.read_exact(&mut buf).map_err(|e| e.to_string()) } else { DataInput::read_bytes(&mut r, &mut buf).map_err(|e| e.to_string()) };
                match res {
                    Ok(()) => {
                        if buf[..] != range[pos as usize..pos as usize + n] {
                            cx.violate("wrong_value", &site, format!("reading {} bytes at range offset {} (last seek: {}) returned {} instead of {}", n, pos, last, short_bytes(&buf), short_bytes(&range[pos as usize..pos as usize + n])));
                            return;
                        }
                        cx.ev(format!("read {} at {} -> ok", n, pos));
                        pos += n as u64;
                    }
                    Err(e) => {
                        cx.violate("unexpected_error", &site, format!("reading {} bytes at range offset {} ({} remain) failed: {}", n, pos, rem, e));
                        return;
                    }
                }
            }
            2 => {
                let n = (o[2] % 16) as usize;
                let mut buf = vec![0u8; n];
                match r.read(&mut buf) {
                    Ok(k) => {
                        if k as u64 > rem || buf[..k] != range[pos as usize..pos as usize + k] || (k == 0 && n > 0 && rem > 0) {
                            cx.violate("wrong_value", &site, format!("read(buf of {}) at range offset {} ({} remain) returned {} bytes {}", n, pos, rem, k, short_bytes(&buf[..k.min(n)])));
                            return;
                        }
                        cx.ev(format!("read(buf of {}) at {} -> {}", n, pos, k));
                        pos += k as u64;
                    }
                    Err(e) => {
                        cx.violate("unexpected_error", &site, format!("read failed: {}", clip(&e)));
                        return;
                    }
                }
            }
            3 | 4 => {
                let (sf, want, name) = seek_arg(o, pos, len);
                last = name;
                match r.seek(sf) {
                    Ok(p) => {
                        if p != want {
                            cx.violate("wrong_position", &format!("RangeReader.seek({})", name), format!("seek({:?}) from range offset {} returned {} instead of {}", sf, pos, p, want));
                            return;
                        }
                        cx.ev(format!("seek({:?}) from {} -> {}", sf, pos, p));
                        pos = want;
                    }
                    Err(e) => {
                        cx.violate("unexpected_error", &format!("RangeReader.seek({})", name), clip(&e));
                        return;
                    }
                }
            }
            5 => {
                if len > 0 {
                    let t = o[2] % len;
                    last = "seek_in_range";
                    match r.seek_in_range(t) {
                        Ok(p) => {
                            if p != t {
                                cx.violate("wrong_position", "RangeReader.seek(seek_in_range)", format!("seek_in_range({}) returned {}", t, p));
                                return;
                            }
                            cx.ev(format!("seek_in_range({}) -> ok", t));
                            pos = t;
                        }
                        Err(e) => {
                            cx.violate("unexpected_error", "RangeReader.seek(seek_in_range)", format!("seek_in_range({}) with range length {} failed: {}", t, len, clip(&e)));
                            return;
                        }
                    }
                }
            }
            6 => {
                last = "reset";
                if let Err(e) = r.reset() {
                    cx.violate("unexpected_error", "RangeReader.seek(reset)", clip(&e));
                    return;
                }
                cx.ev("reset -> ok");
                pos = 0;
            }
            _ => {
                let n = (o[2] % 10).min(rem) as usize;
                if let Err(e) = DataInput::skip(&mut r, n) {
                    cx.violate("unexpected_error", &site, format!("skip({}) at {} ({} remain) failed: {}", n, pos, rem, clip(&e)));
                    return;
                }
                cx.ev(format!("skip({}) at {} -> ok", n, pos));
                pos += n as u64;
            }
        }
        let (p1, p2, p3) = (r.current_position() - r.start_position(), DataInput::position(&r).unwrap_or(u64::MAX), len - r.remaining());
        if p1 != pos || p2 != pos || p3 != pos {
            cx.violate("wrong_position", &after_seek("RangeReader", last), format!("logical range offset is {} but current_position()-start={}, position()={}, len-remaining()={}", pos, p1, p2, p3));
            return;
        }
    }
    cx.nontrivial = ops.len() >= 3;
}

fn seek_range_writer(cx: &mut Run) {
    let cfg = cx.src.chan("cfg");
    let m_len = 1 + cfg.below(120);
    let start = cfg.below(m_len + 1);
    let len = cfg.below(m_len - start + 1);
    let before = pattern(m_len as usize, 23);
    let m = medium(before.clone());
    cx.ev(format!("RangeWriter::new_and_seek(start={}, len={}) over a Cursor of {} bytes", start, len, m_len));
    let mut w = match RangeWriter::new_and_seek(m.clone(), start, len) {
        Ok(w) => w,
        Err(e) => {
            cx.violate("unexpected_error", "RangeWriter.new_and_seek", clip(&e));
            return;
        }
    };
    let mut model = before.clone();
    let planned = 3 + cfg.below(9);
    let ops = take_ops(cx, "ops", planned);
    let mut pos = 0u64;
    let mut serial = 0usize;
    let mut written = 0u64;
    let mut last = "none";
    for o in &ops {
        cx.steps += 1;
        let rem = len - pos;
        if o[0] % 4 == 0 && o[3] % 5 == 0 {
            // write_all of more than the range can take must fail; whatever part it placed must be
            // inside the range and be reported consistently, and the writer is used again afterwards
            let n = rem as usize + 1 + (o[2] % 3) as usize;
            let chunk: Vec<u8> = pattern(serial + n, 29)[serial..].iter().map(|b| b ^ 0xFF).collect();
            serial += n;
            let res = w.write_all(&chunk);
            let now = w.current_position() - w.start_position();
            if res.is_ok() || now < pos || now > len {
                cx.violate("range_overrun", "RangeWriter.refusal", format!("write_all({}) at range offset {} with {} bytes remaining: ok={} and the writer reports offset {} (range length {})", n, pos, rem, res.is_ok(), now, len));
                return;
            }
            let k = (now - pos) as usize;
            let a = (start + pos) as usize;
            model[a..a + k].copy_from_slice(&chunk[..k]);
            cx.ev(format!("write_all({}) at {} ({} remain) -> Err (refused), {} bytes placed", n, pos, rem, k));
            cx.probe("refused");
            pos = now;
            written += k as u64;
            if w.remaining() != len - pos || w.bytes_written() != written {
                cx.violate("wrong_position", "RangeWriter.after_refusal", format!("after the refused write_all the writer is at {} (written {}) but remaining()={}, bytes_written()={}", pos, written, w.remaining(), w.bytes_written()));
                return;
            }
            continue;
        }
        match o[0] % 4 {
            0 | 1 => {
                let n = if o[0] % 4 == 0 { (o[2] % 12).min(rem) as usize } else { (o[2] % 16) as usize };
                let chunk: Vec<u8> = pattern(serial + n, 29)[serial..].iter().map(|b| b ^ 0xFF).collect();
                serial += n;
                let res = if o[0] % 4 == 0 { w.write_all(&chunk).map(|_| n) } else { w.write(&chunk) };
                match res {
                    Ok(k) => {
                        if k as u64 > rem || k > n || (k == 0 && n > 0 && rem > 0) {
                            cx.violate("range_overrun", &after_seek("RangeWriter", last), format!("write of {} bytes at range offset {} ({} remain) reported {} bytes written", n, pos, rem, k));
                            return;
                        }
                        let a = (start + pos) as usize;
                        model[a..a + k].copy_from_slice(&chunk[..k]);
                        cx.ev(format!("write {} at {} -> {}", n, pos, k));
                        pos += k as u64;
                        written += k as u64;
                    }
                    Err(e) => {
                        cx.violate("unexpected_error", &after_seek("RangeWriter", last), format!("write of {} bytes at range offset {} ({} remain) failed: {}", n, pos, rem, clip(&e)));
                        return;
                    }
                }
            }
            _ => {
                let (sf, want, name) = seek_arg(o, pos, len);
                last = name;
                match w.seek(sf) {
                    Ok(p) => {
                        if p != want {
                            cx.violate("wrong_position", &format!("RangeWriter.seek({})", name), format!("seek({:?}) from range offset {} returned {} instead of {}", sf, pos, p, want));
                            return;
                        }
                        cx.ev(format!("seek({:?}) from {} -> {}", sf, pos, p));
                        pos = want;
                    }
                    Err(e) => {
                        cx.violate("unexpected_error", &format!("RangeWriter.seek({})", name), clip(&e));
                        return;
                    }
                }
            }
        }
        if w.current_position() - w.start_position() != pos || w.remaining() != len - pos || w.bytes_written() != written {
            cx.violate("wrong_position", &after_seek("RangeWriter", last), format!("logical range offset {} (written {}) but current_position()-start={}, remaining()={}, bytes_written()={}", pos, written, w.current_position() - w.start_position(), w.remaining(), w.bytes_written()));
            return;
        }
    }
    let _ = w.flush();
    let got = medium_bytes(&m);
    if got != model {
        let j = got.iter().zip(model.iter()).position(|(a, b)| a != b).unwrap_or(got.len().min(model.len()));
        cx.violate("wrong_value", &after_seek("RangeWriter", last), format!("medium differs from the model at byte {} (range is {}..{}); sizes {} vs {}", j, start, start + len, got.len(), model.len()));
        return;
    }
    cx.ev("medium equals the model");
    cx.nontrivial = ops.len() >= 3;
}

fn api_zc_reader(cx: &mut Run, hard: bool) {
    let cfg = cx.src.chan("cfg");
    let cap = *cfg.pick(&[1usize, 2, 3, 4, 8, 16, 64, 0]);
    let unit = cap.max(1);
    let len = cfg.below((6 * unit + 40) as u64) as usize;
    let data = pattern(len, 31);
    let f = e3::draw_cfg(&cfg, hard, len as u64 + 2);
    cx.ev(format!("ZeroCopyReader(capacity={}) over {} bytes; {} short={}% chunk={} eintr={}% error={}% cut={:?}", cap, len, if hard { "HARD" } else { "benign" }, f.short_pct, f.max_chunk, f.eintr_pct, f.error_pct, f.cut_at));
    let log = e3::new_log();
    let fr = FaultyRead::new(Cursor::new(data.clone()), f, cx.src.chan("fault.r"), log.clone());
    let mut r = match ZeroCopyReader::with_capacity(fr, cap) {
        Ok(r) => r,
        Err(e) => {
            cx.violate("unexpected_error", "ZeroCopyReader.with_capacity", clip(&e));
            return;
        }
    };
    let planned = 3 + cfg.below(10);
    let ops = take_ops(cx, "ops", planned);
    let mut pos = 0usize;
    let mut stop = false;
    for o in &ops {
        let n = size_arg(o[1], o[2], unit);
        let rem = len - pos;
        cx.steps += 1;
        let st = match o[0] % 8 {
            0 => {
                let n = n.min(rem);
                let mut buf = vec![0u8; n];
                match r.read_exact(&mut buf) {
                    Ok(()) => {
                        if buf[..] != data[pos..pos + n] {
                            cx.violate("wrong_value", "ZeroCopyReader.read", format!("read_exact({}) at {} returned {} instead of {}", n, pos, short_bytes(&buf), short_bytes(&data[pos..pos + n])));
                            Step::Stop
                        } else {
                            cx.ev(format!("read_exact({}) at {} -> ok", n, pos));
                            pos += n;
                            Step::Go
                        }
                    }
                    Err(e) => {
                        if e.kind() == io::ErrorKind::UnexpectedEof && !hard_fired(&log) {
                            cx.violate("premature_eof", "ZeroCopyReader.read", format!("read_exact({}) at {} hit end of stream although {} bytes remain", n, pos, rem));
                            Step::Stop
                        } else {
                            api_err(cx, &log, "ZeroCopyReader.read", &format!("read_exact({}) at {}", n, pos), &e)
                        }
                    }
                }
            }
            1 | 2 => {
                let opt = o[0] % 8 == 2;
                let name = if opt { "read_optimized" } else { "read" };
                let mut buf = vec![0u8; n];
                let res = if opt { r.read_optimized(&mut buf).map_err(to_io) } else { r.read(&mut buf) };
                match res {
                    Ok(k) => {
                        if k > n || k > rem || buf[..k] != data[pos..pos + k] {
                            cx.violate("wrong_value", &format!("ZeroCopyReader.{}", name), format!("{}(buf of {}) at {} returned {} bytes {} ({} remain)", name, n, pos, k, short_bytes(&buf[..k.min(n)]), rem));
                            Step::Stop
                        } else if k == 0 && n > 0 && rem > 0 && !hard_fired(&log) {
                            cx.violate("premature_eof", &format!("ZeroCopyReader.{}", name), format!("{}(buf of {}) at {} returned 0 although {} bytes remain", name, n, pos, rem));
                            Step::Stop
                        } else {
                            cx.ev(format!("{}(buf of {}) at {} -> {}", name, n, pos, k));
                            pos += k;
                            Step::Go
                        }
                    }
                    Err(e) => api_err(cx, &log, &format!("ZeroCopyReader.{}", name), &format!("{}(buf of {}) at {}", name, n, pos), &e),
                }
            }
            3 => match r.zc_read(n) {
                Ok(Some(s)) => {
                    if n > rem || s.len() != n || s != &data[pos..pos + n] {
                        let got = short_bytes(s);
                        cx.violate("wrong_value", "ZeroCopyReader.zc_read", format!("zc_read({}) at {} returned {} ({} remain)", n, pos, got, rem));
                        Step::Stop
                    } else {
                        let adv = (o[3] as usize) % (n + 1);
                        match r.zc_advance(adv) {
                            Ok(()) => {
                                cx.ev(format!("zc_read({}) at {} -> Some, zc_advance({})", n, pos, adv));
                                pos += adv;
                                Step::Go
                            }
                            Err(e) => api_err(cx, &log, "ZeroCopyReader.zc_advance", &format!("zc_advance({}) after zc_read({})", adv, n), &e),
                        }
                    }
                }
                Ok(None) => {
                    cx.ev(format!("zc_read({}) at {} -> None (nothing consumed)", n, pos));
                    Step::Go
                }
                Err(e) => api_err(cx, &log, "ZeroCopyReader.zc_read", &format!("zc_read({}) at {}", n, pos), &e),
            },
            4 => match r.peek(n) {
                Ok(s) => {
                    let k = s.len();
                    if k > n || k > rem || s != &data[pos..pos + k] {
                        let got = short_bytes(s);
                        cx.violate("wrong_value", "ZeroCopyReader.peek", format!("peek({}) at {} returned {} ({} remain)", n, pos, got, rem));
                        Step::Stop
                    } else {
                        cx.ev(format!("peek({}) at {} -> {} bytes", n, pos, k));
                        Step::Go
                    }
                }
                Err(e) => api_err(cx, &log, "ZeroCopyReader.peek", &format!("peek({}) at {}", n, pos), &e),
            },
            5 => {
                let n = n.min(rem);
                match r.skip_bytes(n) {
                    Ok(()) => {
                        cx.ev(format!("skip_bytes({}) at {} -> ok", n, pos));
                        pos += n;
                        Step::Go
                    }
                    Err(e) => api_err(cx, &log, "ZeroCopyReader.skip_bytes", &format!("skip_bytes({}) at {} ({} remain)", n, pos, rem), &e),
                }
            }
            6 => match r.zc_ensure(n) {
                Ok(k) => {
                    if k > n || k > rem {
                        cx.violate("wrong_value", "ZeroCopyReader.zc_ensure", format!("zc_ensure({}) at {} -> {} but only {} remain", n, pos, k, rem));
                        Step::Stop
                    } else {
                        cx.ev(format!("zc_ensure({}) at {} -> {}", n, pos, k));
                        Step::Go
                    }
                }
                Err(e) => api_err(cx, &log, "ZeroCopyReader.zc_ensure", &format!("zc_ensure({}) at {}", n, pos), &e),
            },
            _ => {
                let a = r.zc_available();
                if a > rem {
                    cx.violate("wrong_value", "ZeroCopyReader.zc_available", format!("zc_available()={} at {} but only {} remain", a, pos, rem));
                    Step::Stop
                } else {
                    cx.ev(format!("zc_available() at {} -> {}", pos, a));
                    Step::Go
                }
            }
        };
        if let Step::Stop = st {
            stop = true;
            break;
        }
    }
    if !stop && !cx.failed() {
        let mut rest = vec![];
        match r.read_to_end(&mut rest) {
            Ok(_) => {
                if rest.len() < len - pos && rest[..] == data[pos..pos + rest.len()] && !hard_fired(&log) {
                    cx.violate("premature_eof", "ZeroCopyReader.read", format!("read_to_end from {} stopped after {} bytes although {} remain", pos, rest.len(), len - pos));
                } else if rest[..] != data[pos..] && !(hard_fired(&log) && rest.len() <= len - pos && rest[..] == data[pos..pos + rest.len()]) {
                    cx.violate("wrong_value", "ZeroCopyReader.read", format!("read_to_end from {} returned {} instead of {}", pos, short_bytes(&rest), short_bytes(&data[pos..])));
                } else {
                    cx.ev(format!("read_to_end from {} -> {} bytes", pos, rest.len()));
                }
            }
            Err(e) => {
                api_err(cx, &log, "ZeroCopyReader.read", &format!("read_to_end from {}", pos), &e);
            }
        }
    }
    note_faults(cx, &log, "read");
    cx.nontrivial = ops.len() >= 3;
}

fn api_zc_writer(cx: &mut Run, hard: bool) {
    let cfg = cx.src.chan("cfg");
    let cap = *cfg.pick(&[1usize, 2, 3, 4, 8, 16, 64, 0]);
    let unit = cap.max(1);
    let f = e3::draw_cfg(&cfg, hard, (4 * unit) as u64);
    cx.ev(format!("ZeroCopyWriter(capacity={}); {} short={}% chunk={} eintr={}% error={}% cut={:?} flush_error={}%", cap, if hard { "HARD" } else { "benign" }, f.short_pct, f.max_chunk, f.eintr_pct, f.error_pct, f.cut_at, f.flush_error_pct));
    let log = e3::new_log();
    let m = medium(vec![]);
    let fw = FaultyWrite::new(m.clone(), f, cx.src.chan("fault.w"), log.clone());
    let mut w = match ZeroCopyWriter::with_capacity(fw, cap) {
        Ok(w) => w,
        Err(e) => {
            cx.violate("unexpected_error", "ZeroCopyWriter.with_capacity", clip(&e));
            return;
        }
    };
    let planned = 3 + cfg.below(10);
    let ops = take_ops(cx, "ops", planned);
    let mut model: Vec<u8> = vec![];
    let mut failed = false;
    for o in &ops {
        let n = size_arg(o[1], o[2], unit);
        let chunk: Vec<u8> = pattern(model.len() + n, 37)[model.len()..].to_vec();
        cx.steps += 1;
        let r: Result<(), (String, String)> = match o[0] % 5 {
            0 => {
                model.extend_from_slice(&chunk);
                w.write_all(&chunk).map(|_| cx.ev(format!("write_all({}) -> ok", n))).map_err(|e| (format!("write_all({})", n), clip(&e)))
            }
            1 => match w.write(&chunk) {
                Ok(k) => {
                    if k > n || (k == 0 && n > 0) {
                        cx.violate("wrong_value", "ZeroCopyWriter.write", format!("write(buf of {}) returned {}", n, k));
                        return;
                    }
                    model.extend_from_slice(&chunk[..k]);
                    cx.ev(format!("write(buf of {}) -> {}", n, k));
                    Ok(())
                }
                Err(e) => {
                    if e.kind() == io::ErrorKind::Interrupted {
                        cx.ev(format!("write(buf of {}) -> Interrupted (nothing written)", n));
                        Ok(())
                    } else {
                        model.extend_from_slice(&chunk);
                        Err((format!("write(buf of {})", n), clip(&e)))
                    }
                }
            },
            2 => match w.zc_write(n) {
                Ok(Some(buf)) => {
                    if buf.len() != n {
                        let l = buf.len();
                        cx.violate("wrong_value", "ZeroCopyWriter.zc_write", format!("zc_write({}) handed out {} bytes", n, l));
                        return;
                    }
                    buf.copy_from_slice(&chunk);
                    let commit = (o[3] as usize) % (n + 1);
                    model.extend_from_slice(&chunk[..commit]);
                    w.zc_commit(commit).map(|_| cx.ev(format!("zc_write({}) -> Some, zc_commit({})", n, commit))).map_err(|e| (format!("zc_commit({})", commit), clip(&e)))
                }
                Ok(None) => {
                    cx.ev(format!("zc_write({}) -> None", n));
                    Ok(())
                }
                Err(e) => Err((format!("zc_write({})", n), clip(&e))),
            },
            3 => match w.zc_ensure_write(n) {
                Ok(k) => {
                    if k > n {
                        cx.violate("wrong_value", "ZeroCopyWriter.zc_ensure_write", format!("zc_ensure_write({}) -> {}", n, k));
                        return;
                    }
                    cx.ev(format!("zc_ensure_write({}) -> {}", n, k));
                    Ok(())
                }
                Err(e) => Err((format!("zc_ensure_write({})", n), clip(&e))),
            },
            _ => match w.flush() {
                Ok(()) => {
                    let got = medium_bytes(&m);
                    if got != model {
                        cx.violate("wrong_value", "ZeroCopyWriter.flush", format!("after flush the medium holds {} but {} was written", short_bytes(&got), short_bytes(&model)));
                        return;
                    }
                    cx.ev(format!("flush -> ok, medium holds all {} bytes", model.len()));
                    Ok(())
                }
                Err(e) => Err(("flush".to_string(), clip(&e))),
            },
        };
        if let Err((what, e)) = r {
            failed = true;
            if hard_fired(&log) {
                cx.ev(format!("{} -> Err after an injected hard fault (allowed; checking of this stream stops): {}", what, e));
            } else {
                cx.violate("unexpected_error", "ZeroCopyWriter.write", format!("{} failed with no hard fault injected: {}", what, e));
                return;
            }
            break;
        }
    }
    if !failed {
        match w.flush() {
            Ok(()) => {
                let got = medium_bytes(&m);
                if got != model {
                    cx.violate("wrong_value", "ZeroCopyWriter.flush", format!("after the final flush the medium holds {} but {} was written", short_bytes(&got), short_bytes(&model)));
                    return;
                }
                cx.ev(format!("final flush -> ok, medium holds all {} bytes", model.len()));
            }
            Err(e) => {
                failed = true;
                if !hard_fired(&log) {
                    cx.violate("unexpected_error", "ZeroCopyWriter.flush", clip(&e));
                    return;
                }
                cx.ev(format!("final flush -> Err after an injected hard fault (allowed): {}", clip(&e)));
            }
        }
    }
    if failed {
        let got = medium_bytes(&m);
        if got.len() > model.len() || got[..] != model[..got.len()] {
            cx.violate("wrong_value", "ZeroCopyWriter.delivered_prefix", format!("after the failure the medium holds {} which is not a prefix of what was written ({})", short_bytes(&got), short_bytes(&model)));
            return;
        }
        cx.ev(format!("the {} delivered bytes are a prefix of what was written", got.len()));
    }
    note_faults(cx, &log, "write");
    cx.nontrivial = ops.len() >= 3;
}

fn api_mmap_input(cx: &mut Run) {
    let cfg = cx.src.chan("cfg");
    // 70 000: above the 64 KiB prefetch limit of the Sequential pattern; 1 MiB: the huge-page threshold
    let len = [0usize, 1, 7, 100, 4096, 4097, 9000, 70_000, 1 << 20][cfg.weighted(&[4, 4, 4, 4, 4, 4, 4, 2, 1])] + cfg.below(5) as usize;
    let data = pattern(len, 41);
    let file = TmpFile::new(true);
    if std::fs::write(&file.0, &data).is_err() {
        cx.abandoned = true;
        return;
    }
    // access-pattern hints change madvise/prefetch calls only: every one must read the same bytes
    let pat = cfg.below(6);
    let opened = match pat {
        0 | 1 => MemoryMappedInput::from_path(&file.0),
        2 => MemoryMappedInput::from_path_with_pattern(&file.0, AccessPattern::Sequential),
        3 => MemoryMappedInput::from_path_with_pattern(&file.0, AccessPattern::Random),
        4 => MemoryMappedInput::from_path_with_pattern(&file.0, AccessPattern::Mixed),
        _ => match std::fs::File::open(&file.0) {
            Ok(f) => MemoryMappedInput::new_with_pattern(f, AccessPattern::Sequential),
            Err(_) => {
                cx.abandoned = true;
                return;
            }
        },
    };
    cx.ev(format!("opened with {}", ["from_path", "from_path", "from_path_with_pattern(Sequential)", "from_path_with_pattern(Random)", "from_path_with_pattern(Mixed)", "new_with_pattern(File, Sequential)"][pat as usize]));
    let mut r = match opened {
        Ok(r) => r,
        Err(e) => {
            if len == 0 {
                cx.ev(format!("MemoryMappedInput::from_path on an empty file -> Err: {}", clip(&e)));
            } else {
                cx.violate("unexpected_error", "MemoryMappedInput.from_path", format!("{}-byte file: {}", len, clip(&e)));
            }
            return;
        }
    };
    let strat = format!("{:?}", r.strategy());
    cx.ev(format!("MemoryMappedInput over a {}-byte file, strategy {}", len, strat));
    cx.probe(&format!("MemoryMappedInput.{}", strat));
    let buffered = strat == "BufferedIO";
    let planned = 3 + cfg.below(9);
    let ops = take_ops(cx, "ops", planned);
    let mut pos = 0usize;
    for o in &ops {
        cx.steps += 1;
        let rem = len - pos;
        let over = o[3] % 8 == 0;
        let huge = over && (o[3] >> 3) % 4 == 0 && !matches!(o[0] % 8, 5 | 6);
        let n = if huge { usize::MAX - (o[2] % 3) as usize } else if over { rem + 1 + (o[2] % 3) as usize } else { (o[2] as usize % 24).min(rem) };
        let site = "MemoryMappedInput.read";
        if huge {
            cx.ev(format!("op {} with length/target {} at {} ...", ["read_slice", "read_slice_zero_copy", "peek_slice", "seek", "skip", "read_u32", "read_bytes", "peek_slice_zero_copy"][(o[0] % 8) as usize], n, pos));
        }
        macro_rules! expect_err {
            ($res:expr, $what:expr) => {
                if $res.is_ok() {
                    cx.violate("read_past_end", site, format!("{} at {} succeeded although only {} bytes remain", $what, pos, rem));
                    return;
                } else {
                    cx.ev(format!("{} at {} ({} remain) -> Err (expected)", $what, pos, rem));
                }
            };
        }
        if r.len() != len || r.is_empty() != (len == 0) {
            cx.violate("wrong_position", "MemoryMappedInput.position", format!("len()={} is_empty()={} for a file of {} bytes", r.len(), r.is_empty(), len));
            return;
        }
        match o[0] % 8 {
            7 => {
                let res = r.peek_slice_zero_copy(n).map(|s| s.to_vec());
                if over {
                    expect_err!(res, format!("peek_slice_zero_copy({})", n));
                } else {
                    match res {
                        Ok(v) => {
                            if v[..] != data[pos..pos + n] {
                                cx.violate("wrong_value", "MemoryMappedInput.peek_slice", format!("peek_slice_zero_copy({}) at {} returned {}", n, pos, short_bytes(&v)));
                                return;
                            }
                            cx.ev(format!("peek_slice_zero_copy({}) at {} -> ok", n, pos));
                        }
                        Err(e) => {
                            if buffered {
                                cx.ev("peek_slice_zero_copy under BufferedIO -> Err (documented: not supported)");
                            } else {
                                cx.violate("unexpected_error", "MemoryMappedInput.peek_slice", clip(&e));
                                return;
                            }
                        }
                    }
                }
            }
            0 | 1 => {
                let zc = o[0] % 8 == 1;
                let name = if zc { "read_slice_zero_copy" } else { "read_slice" };
                let res: ZResult<Vec<u8>> = if zc { r.read_slice_zero_copy(n).map(|s| s.to_vec()) } else { r.read_slice(n) };
                if over {
                    expect_err!(res, format!("{}({})", name, n));
                } else {
                    match res {
                        Ok(v) => {
                            if v[..] != data[pos..pos + n] {
                                cx.violate("wrong_value", site, format!("{}({}) at {} returned {} instead of {}", name, n, pos, short_bytes(&v), short_bytes(&data[pos..pos + n])));
                                return;
                            }
                            cx.ev(format!("{}({}) at {} -> ok", name, n, pos));
                            pos += n;
                        }
                        Err(e) => {
                            if zc && buffered {
                                cx.ev(format!("{} under BufferedIO -> Err (documented: not supported)", name));
                            } else {
                                cx.violate("unexpected_error", site, format!("{}({}) at {} ({} remain) failed: {}", name, n, pos, rem, clip(&e)));
                                return;
                            }
                        }
                    }
                }
            }
            2 => {
                let res = r.peek_slice(n);
                if over {
                    expect_err!(res, format!("peek_slice({})", n));
                } else {
                    match res {
                        Ok(v) => {
                            if v[..] != data[pos..pos + n] {
                                cx.violate("wrong_value", "MemoryMappedInput.peek_slice", format!("peek_slice({}) at {} returned {}", n, pos, short_bytes(&v)));
                                return;
                            }
                            cx.ev(format!("peek_slice({}) at {} -> ok", n, pos));
                        }
                        Err(e) => {
                            if buffered {
                                cx.ev("peek_slice under BufferedIO -> Err (documented: not supported)");
                            } else {
                                cx.violate("unexpected_error", "MemoryMappedInput.peek_slice", clip(&e));
                                return;
                            }
                        }
                    }
                }
            }
            3 => {
                let t = if huge { n } else if over { len + 1 + (o[2] % 3) as usize } else { (o[2] as usize) % (len + 1) };
                let res = r.seek(t);
                if over {
                    expect_err!(res, format!("seek({})", t));
                } else if let Err(e) = res {
                    cx.violate("unexpected_error", "MemoryMappedInput.seek", format!("seek({}) in a {}-byte file failed: {}", t, len, clip(&e)));
                    return;
                } else {
                    cx.ev(format!("seek({}) -> ok", t));
                    pos = t;
                }
            }
            4 => {
                let res = DataInput::skip(&mut r, n);
                if over {
                    expect_err!(res, format!("skip({})", n));
                } else if let Err(e) = res {
                    cx.violate("unexpected_error", "MemoryMappedInput.skip", format!("skip({}) at {} failed: {}", n, pos, clip(&e)));
                    return;
                } else {
                    cx.ev(format!("skip({}) at {} -> ok", n, pos));
                    pos += n;
                }
            }
            5 => {
                if rem >= 4 {
                    match r.read_u32() {
                        Ok(v) => {
                            let want = u32::from_le_bytes([data[pos], data[pos + 1], data[pos + 2], data[pos + 3]]);
                            if v != want {
                                cx.violate("wrong_value", site, format!("read_u32 at {} returned {:#x} instead of {:#x}", pos, v, want));
                                return;
                            }
                            cx.ev(format!("read_u32 at {} -> ok", pos));
                            pos += 4;
                        }
                        Err(e) => {
                            cx.violate("unexpected_error", site, format!("read_u32 at {} failed: {}", pos, clip(&e)));
                            return;
                        }
                    }
                } else {
                    let res = r.read_u32();
                    expect_err!(res, "read_u32".to_string());
                }
            }
            _ => {
                let mut buf = vec![0u8; n];
                let res = r.read_bytes(&mut buf);
                if over {
                    expect_err!(res, format!("read_bytes({})", n));
                } else if let Err(e) = res {
                    cx.violate("unexpected_error", site, format!("read_bytes({}) at {} failed: {}", n, pos, clip(&e)));
                    return;
                } else {
                    if buf[..] != data[pos..pos + n] {
                        cx.violate("wrong_value", site, format!("read_bytes({}) at {} returned {}", n, pos, short_bytes(&buf)));
                        return;
                    }
                    cx.ev(format!("read_bytes({}) at {} -> ok", n, pos));
                    pos += n;
                }
            }
        }
        if r.position() != pos || r.remaining() != len - pos {
            cx.violate("wrong_position", "MemoryMappedInput.position", format!("logical position {} but position()={} remaining()={} (file of {})", pos, r.position(), r.remaining(), len));
            return;
        }
    }
    cx.nontrivial = ops.len() >= 3;
}

// ---------------------------------------------------------------------------------------
// slice-only codecs: VarInt / SignedVarInt, SimdVarintCodec, the VarIntEncoder strategies and
// endian conversion.  Pure functions of their input, but they are named by the property and no
// stream scenario reaches them.  Inputs are *related* integers (same again, +-1, one bit flipped,
// jumps of random magnitude, sorted / reverse-sorted / constant sequences) under a per-run
// bit-width cap, and every single-value decoder is handed its own bytes *followed by* the next
// encoding (or by a trailer), never a slice that ends exactly where the value ends.

fn unzig(v: u64) -> i64 {
    ((v >> 1) as i64) ^ -((v & 1) as i64)
}

fn width_mask(v: u64, width: u32) -> u64 {
    if width >= 64 {
        v
    } else {
        v & ((1u64 << width) - 1)
    }
}

/// An integer related to its predecessor.
fn rel_u64(prev: u64, o: &[u64; 4], width: u32) -> u64 {
    let wide = (o[1] << 44) ^ (o[2] << 22) ^ o[3] ^ (o[2] >> 3);
    let v = match o[0] % 12 {
        0 | 1 => bounds()[(o[1] as usize) % bounds().len()],
        2 => prev,
        3 => prev.wrapping_add(1 + o[1] % 3),
        4 => prev.wrapping_sub(1 + o[1] % 3),
        5 | 6 => wide >> (o[2] % 64),
        7 => o[1] % 300,
        8 => (1u64 << (o[1] % 64)).wrapping_add(o[2] % 3).wrapping_sub(1),
        9 => prev ^ (1u64 << (o[1] % 64)),
        10 => u64::MAX - (o[1] % 300),
        _ => prev.wrapping_add(wide >> (o[2] % 64)),
    };
    width_mask(v, width)
}

const WIDTHS: [u32; 10] = [64, 64, 64, 7, 8, 14, 21, 32, 35, 63];
const SHAPES: [&str; 6] = ["free", "free", "ascending", "descending", "constant", "small steps"];

fn rel_seq(ops: &[[u64; 4]], width: u32, shape: usize) -> Vec<u64> {
    let mut vals = vec![];
    let mut prev = 0u64;
    for o in ops {
        let v = match shape {
            4 if !vals.is_empty() => prev,
            5 if !vals.is_empty() => width_mask(if o[1] % 2 == 0 { prev.wrapping_add(o[2] % 5) } else { prev.wrapping_sub(o[2] % 5) }, width),
            _ => rel_u64(prev, o, width),
        };
        vals.push(v);
        prev = v;
    }
    match shape {
        2 => vals.sort(),
        3 => {
            vals.sort();
            vals.reverse();
        }
        _ => {}
    }
    vals
}

fn hexes(v: &[u64]) -> String {
    let s: Vec<String> = v.iter().take(12).map(|x| format!("{:#x}", x)).collect();
    format!("[{}{}]", s.join(","), if v.len() > 12 { format!(",..{} more", v.len() - 12) } else { String::new() })
}
fn hexes_i(v: &[i64]) -> String {
    let s: Vec<String> = v.iter().take(12).map(|x| format!("{}", x)).collect();
    format!("[{}{}]", s.join(","), if v.len() > 12 { format!(",..{} more", v.len() - 12) } else { String::new() })
}

/// (the last two: a following batch of forty one-byte values, and one that starts with them)
const TRAILERS: [&[u8]; 8] = [&[], &[0x00], &[0x80, 0x80], &[0xFF, 0xFF, 0x01], &[0x7F], &[0x80; 40], &[0x05; 40], &[0x01, 0x02, 0x03, 0x04, 0x05, 0x06, 0x07, 0x08, 0x09, 0x0A, 0x0B, 0x0C, 0x0D, 0x0E, 0x0F, 0x10, 0x11, 0x12, 0x13, 0x14, 0x15, 0x16, 0x17, 0x18, 0x19, 0x1A, 0x1B, 0x1C, 0x1D, 0x1E, 0x1F, 0x20, 0x21, 0x22, 0x23, 0x24, 0xFF, 0xFF, 0xFF, 0x01]];

fn codec_var_int(cx: &mut Run) {
    let cfg = cx.src.chan("cfg");
    let width = *cfg.pick(&WIDTHS);
    let signed = cfg.below(2) == 1;
    let shape = cfg.below(6) as usize;
    let trailer = TRAILERS[cfg.below(8) as usize];
    let planned = *cfg.pick(&[1u64, 2, 3, 5, 8, 12]);
    let ops = take_ops(cx, "ops", planned);
    let vals = rel_seq(&ops, width, shape);
    let target = if signed { "VarInt.signed" } else { "VarInt" };
    cx.ev(format!("{}: {} values, width<={} bits, shape {}, trailer {}", target, vals.len(), width, SHAPES[shape], short_bytes(trailer)));
    let mut buf: Vec<u8> = vec![];
    let mut ends: Vec<usize> = vec![];
    for (i, (v, o)) in vals.iter().zip(ops.iter()).enumerate() {
        let before = buf.len();
        cx.steps += 1;
        let how = if signed {
            buf.extend_from_slice(&<VarInt as SignedVarInt>::encode_signed(unzig(*v)));
            "encode_signed"
        } else {
            match o[3] % 4 {
                0 => {
                    buf.extend_from_slice(&VarInt::encode(*v));
                    "encode"
                }
                1 | 2 => {
                    let vec_way = o[3] % 4 == 1;
                    let r = if vec_way { VarInt::write_to_vec(&mut buf, *v) } else { VarInt::write_to(&mut buf, *v) };
                    let name = if vec_way { "write_to_vec" } else { "write_to" };
                    match r {
                        Ok(n) => {
                            if n != buf.len() - before {
                                cx.violate("length_mismatch", &format!("VarInt.{}", name), format!("{}({:#x}) reports {} bytes but appended {}", name, v, n, buf.len() - before));
                                return;
                            }
                        }
                        Err(e) => {
                            cx.violate("unexpected_error", &format!("VarInt.{}", name), format!("{}({:#x}) into a Vec failed: {}", name, v, clip(&e)));
                            return;
                        }
                    }
                    name
                }
                _ => {
                    buf.extend_from_slice(&VarInt::encode_multiple(std::iter::once(*v)));
                    "encode_multiple"
                }
            }
        };
        if buf.len() == before {
            cx.violate("length_mismatch", &format!("{}.encode", target), format!("{}({:#x}) produced no bytes", how, v));
            return;
        }
        ends.push(buf.len());
        if signed {
            cx.ev(format!("e{} {}({}) -> {}", i, how, unzig(*v), short_bytes(&buf[before..])));
        } else {
            cx.ev(format!("e{} {}({:#x}) -> {}", i, how, v, short_bytes(&buf[before..])));
        }
    }
    let own = buf.len();
    buf.extend_from_slice(trailer);
    // decode in order, each decoder sees everything that follows its value
    let mut off = 0usize;
    for (i, v) in vals.iter().enumerate() {
        cx.steps += 1;
        let start = off;
        if signed {
            match <VarInt as SignedVarInt>::decode_signed(&buf[off..]) {
                Ok((g, n)) => {
                    if g != unzig(*v) {
                        cx.violate("wrong_value", "VarInt.decode_signed", format!("value #{} encoded from {} decodes to {}", i, unzig(*v), g));
                        return;
                    }
                    if start + n != ends[i] {
                        cx.violate("consumed_mismatch", "VarInt.decode_signed", format!("value #{} ({}) occupies bytes {}..{} but decode_signed reports {} consumed", i, unzig(*v), start, ends[i], n));
                        return;
                    }
                    off += n;
                }
                Err(e) => {
                    cx.violate("unexpected_error", "VarInt.decode_signed", format!("decoding value #{} ({}) at byte {} failed: {}", i, unzig(*v), start, clip(&e)));
                    return;
                }
            }
        } else {
            match VarInt::decode(&buf[off..]) {
                Ok((g, n)) => {
                    if g != *v {
                        cx.violate("wrong_value", "VarInt.decode", format!("value #{} encoded from {:#x} decodes to {:#x}", i, v, g));
                        return;
                    }
                    if start + n != ends[i] {
                        cx.violate("consumed_mismatch", "VarInt.decode", format!("value #{} ({:#x}) occupies bytes {}..{} but decode reports {} consumed", i, v, start, ends[i], n));
                        return;
                    }
                    off += n;
                }
                Err(e) => {
                    cx.violate("unexpected_error", "VarInt.decode", format!("decoding value #{} ({:#x}) at byte {} failed: {}", i, v, start, clip(&e)));
                    return;
                }
            }
        }
        cx.ev(format!("d{} at {} -> equal, {} consumed", i, start, off - start));
    }
    if !signed {
        match VarInt::decode_multiple(&buf[..own]) {
            Ok(g) => {
                if g != vals {
                    cx.violate("wrong_value", "VarInt.decode_multiple", format!("{} concatenated encodings of {} decode to {}", vals.len(), hexes(&vals), hexes(&g)));
                    return;
                }
                cx.ev("decode_multiple -> equal");
            }
            Err(e) => {
                cx.violate("unexpected_error", "VarInt.decode_multiple", format!("decoding the {} own bytes of {} failed: {}", own, hexes(&vals), clip(&e)));
                return;
            }
        }
        let mut inp = SliceDataInput::new(&buf);
        for (i, v) in vals.iter().enumerate() {
            match VarInt::read_from(&mut inp) {
                Ok(g) => {
                    if g != *v || inp.pos() != ends[i] {
                        cx.violate(if g != *v { "wrong_value" } else { "consumed_mismatch" }, "VarInt.read_from", format!("value #{} ({:#x}) read as {:#x}, input at {} where the value ends at {}", i, v, g, inp.pos(), ends[i]));
                        return;
                    }
                }
                Err(e) => {
                    cx.violate("unexpected_error", "VarInt.read_from", format!("reading value #{} ({:#x}) failed: {}", i, v, clip(&e)));
                    return;
                }
            }
        }
        cx.ev("read_from over a slice -> equal, positions agree");
    }
    cx.cell(format!("{}/width{}/{}", target, width, SHAPES[shape]));
    cx.nontrivial = vals.len() >= 2;
}

fn codec_simd_varint(cx: &mut Run) {
    let cfg = cx.src.chan("cfg");
    let width = *cfg.pick(&WIDTHS);
    let shape = cfg.below(6) as usize;
    let trailer = TRAILERS[cfg.below(8) as usize];
    // around SIMD_BATCH_THRESHOLD (4) and around the 32 input bytes the AVX2 decoder asks for
    let planned = *cfg.pick(&[0u64, 1, 3, 4, 5, 8, 15, 16, 17, 31, 32, 33, 40]);
    let global = cfg.below(2) == 1;
    let ops = take_ops(cx, "ops", planned);
    let vals = rel_seq(&ops, width, shape);
    let codec = SimdVarintCodec::new();
    cx.probe(&format!("tier.{:?}", codec.tier()));
    cx.ev(format!("SimdVarintCodec({:?}{}): {} values {}, width<={} bits, shape {}, trailer {}", codec.tier(), if global { ", global instance" } else { "" }, vals.len(), hexes(&vals), width, SHAPES[shape], short_bytes(trailer)));
    cx.steps += 1;
    let enc = match if global { simd_varint::encode_varint_batch(&vals) } else { codec.encode_batch(&vals) } {
        Ok(e) => e,
        Err(e) => {
            cx.violate("unexpected_error", "SimdVarintCodec.encode_batch", format!("encode_batch({}) failed: {}", hexes(&vals), clip(&e)));
            return;
        }
    };
    let scalar = VarInt::encode_multiple(vals.iter().copied());
    if enc != scalar {
        let j = enc.iter().zip(scalar.iter()).position(|(a, b)| a != b).unwrap_or(enc.len().min(scalar.len()));
        cx.violate("not_byte_identical", "SimdVarintCodec.encode_batch", format!("encode_batch({}) = {} but the scalar codec gives {} (first difference at byte {})", hexes(&vals), short_bytes(&enc), short_bytes(&scalar), j));
        return;
    }
    cx.ev(format!("encode_batch -> {} bytes, identical to VarInt::encode_multiple", enc.len()));
    let mut data = enc.clone();
    data.extend_from_slice(trailer);
    cx.steps += 1;
    if !(data.is_empty() && !vals.is_empty()) {
        match if global { simd_varint::decode_varint_batch(&data, vals.len()) } else { codec.decode_batch(&data, vals.len()) } {
            Ok(g) => {
                if g != vals {
                    cx.violate("wrong_value", "SimdVarintCodec.decode_batch", format!("decode_batch({} own bytes + {} trailing, count {}) of {} gives {}", enc.len(), trailer.len(), vals.len(), hexes(&vals), hexes(&g)));
                    return;
                }
                cx.ev("decode_batch -> equal");
            }
            Err(e) => {
                cx.violate("unexpected_error", "SimdVarintCodec.decode_batch", format!("decode_batch({} own bytes + {} trailing, count {}) of {} failed: {}", enc.len(), trailer.len(), vals.len(), hexes(&vals), clip(&e)));
                return;
            }
        }
    }
    // single-value entry points walk the batch: value and bytes consumed
    let mut off = 0usize;
    for (i, v) in vals.iter().enumerate() {
        cx.steps += 1;
        let one = match if global { simd_varint::encode_varint(*v) } else { codec.encode_single(*v) } {
            Ok(b) => b,
            Err(e) => {
                cx.violate("unexpected_error", "SimdVarintCodec.single", format!("encode_single({:#x}) failed: {}", v, clip(&e)));
                return;
            }
        };
        if one != VarInt::encode(*v) {
            cx.violate("not_byte_identical", "SimdVarintCodec.single", format!("encode_single({:#x}) = {} but the scalar codec gives {}", v, short_bytes(&one), short_bytes(&VarInt::encode(*v))));
            return;
        }
        match if global { simd_varint::decode_varint(&data[off..]) } else { codec.decode_single(&data[off..]) } {
            Ok((g, n)) => {
                if g != *v || n != one.len() {
                    cx.violate(if g != *v { "wrong_value" } else { "consumed_mismatch" }, "SimdVarintCodec.single", format!("decode_single at byte {} gives ({:#x}, {} consumed) for value #{} = {:#x} encoded in {} bytes", off, g, n, i, v, one.len()));
                    return;
                }
                off += n;
            }
            Err(e) => {
                cx.violate("unexpected_error", "SimdVarintCodec.single", format!("decode_single at byte {} (value #{} = {:#x}) failed: {}", off, i, v, clip(&e)));
                return;
            }
        }
    }
    if off != enc.len() {
        cx.violate("consumed_mismatch", "SimdVarintCodec.single", format!("walking {} values consumed {} of the {} bytes encode_batch produced", vals.len(), off, enc.len()));
        return;
    }
    cx.ev("encode_single/decode_single walk -> equal, all own bytes consumed");
    cx.cell(format!("SimdVarintCodec/n{}/width{}", vals.len(), width));
    cx.nontrivial = vals.len() >= 2;
}

const STRATS: [VarIntStrategy; 7] = [VarIntStrategy::Leb128, VarIntStrategy::Zigzag, VarIntStrategy::Delta, VarIntStrategy::GroupVarint, VarIntStrategy::PrefixFree, VarIntStrategy::Compact, VarIntStrategy::Simd];

fn make_encoder(st: VarIntStrategy, named: bool) -> VarIntEncoder {
    if !named {
        return VarIntEncoder::new(st);
    }
    match st {
        VarIntStrategy::Leb128 => VarIntEncoder::leb128(),
        VarIntStrategy::Zigzag => VarIntEncoder::zigzag(),
        VarIntStrategy::Delta => VarIntEncoder::delta(),
        VarIntStrategy::GroupVarint => VarIntEncoder::group_varint(),
        VarIntStrategy::PrefixFree => VarIntEncoder::prefix_free(),
        VarIntStrategy::Compact => VarIntEncoder::compact(),
        VarIntStrategy::Simd => VarIntEncoder::simd(),
    }
}

fn codec_strategy_single(cx: &mut Run) {
    let cfg = cx.src.chan("cfg");
    let st = STRATS[cfg.below(7) as usize];
    let signed = cfg.below(2) == 1;
    let width = *cfg.pick(&WIDTHS);
    let shape = cfg.below(6) as usize;
    let trailer = TRAILERS[cfg.below(8) as usize];
    let enc = make_encoder(st, cfg.below(2) == 1);
    let planned = *cfg.pick(&[1u64, 2, 3, 5, 8, 12]);
    let ops = take_ops(cx, "ops", planned);
    let vals = rel_seq(&ops, width, shape);
    let site = format!("VarIntEncoder.{:?}.{}", st, if signed { "i64" } else { "u64" });
    cx.ev(format!("{} single values: {} values, width<={} bits, shape {}, trailer {}", site, vals.len(), width, SHAPES[shape], short_bytes(trailer)));
    if enc.strategy() != st {
        cx.violate("wrong_value", &site, format!("the encoder made for {:?} reports strategy {:?}", st, enc.strategy()));
        return;
    }
    let refusal_documented = st == VarIntStrategy::Delta || (st == VarIntStrategy::Zigzag && !signed);
    let mut buf: Vec<u8> = vec![];
    let mut placed: Vec<(u64, usize, usize)> = vec![];
    for (i, v) in vals.iter().enumerate() {
        cx.steps += 1;
        let r = if signed { enc.encode_i64(unzig(*v)) } else { enc.encode_u64(*v) };
        match r {
            Ok(b) => {
                if b.is_empty() {
                    cx.violate("length_mismatch", &site, format!("value #{} ({:#x}) encodes to no bytes", i, v));
                    return;
                }
                placed.push((*v, buf.len(), buf.len() + b.len()));
                cx.ev(format!("e{} {} -> {}", i, if signed { format!("{}", unzig(*v)) } else { format!("{:#x}", v) }, short_bytes(&b)));
                buf.extend_from_slice(&b);
            }
            Err(e) => {
                if refusal_documented {
                    cx.ev(format!("e{} -> Err (this strategy has no single-value form): {}", i, clip(&e)));
                    cx.cell(format!("{}/refused", site));
                } else {
                    cx.violate("unexpected_error", &site, format!("encoding value #{} ({}) failed: {}", i, if signed { format!("{}", unzig(*v)) } else { format!("{:#x}", v) }, clip(&e)));
                    return;
                }
            }
        }
    }
    buf.extend_from_slice(trailer);
    for (i, (v, start, end)) in placed.iter().enumerate() {
        cx.steps += 1;
        let r: ZResult<(u64, usize, String)> = if signed { enc.decode_i64(&buf[*start..]).map(|(g, n)| (if g == unzig(*v) { *v } else { !*v }, n, format!("{}", g))) } else { enc.decode_u64(&buf[*start..]).map(|(g, n)| (g, n, format!("{:#x}", g))) };
        match r {
            Ok((g, n, shown)) => {
                if g != *v {
                    cx.violate("wrong_value", &site, format!("value #{} encoded from {} decodes to {}", i, if signed { format!("{}", unzig(*v)) } else { format!("{:#x}", v) }, shown));
                    return;
                }
                if start + n != *end {
                    cx.violate("consumed_mismatch", &site, format!("value #{} ({:#x}) occupies bytes {}..{} but the decoder reports {} consumed", i, v, start, end, n));
                    return;
                }
                cx.ev(format!("d{} at {} -> equal, {} consumed", i, start, n));
            }
            Err(e) => {
                cx.violate("unexpected_error", &site, format!("decoding value #{} ({:#x}) at byte {} failed: {}", i, v, start, clip(&e)));
                return;
            }
        }
    }
    cx.cell(format!("{}/width{}", site, width));
    cx.nontrivial = placed.len() >= 2 || (refusal_documented && vals.len() >= 2);
}

fn codec_strategy_sequence(cx: &mut Run) {
    let cfg = cx.src.chan("cfg");
    let pick = cfg.below(8) as usize;
    let signed = cfg.below(2) == 1;
    let width = *cfg.pick(&WIDTHS);
    let shape = cfg.below(6) as usize;
    let named = cfg.below(2) == 1;
    let planned = *cfg.pick(&[0u64, 1, 2, 3, 4, 5, 6, 7, 8, 9, 15, 16, 17, 20, 33]);
    let ops = take_ops(cx, "ops", planned);
    let vals = rel_seq(&ops, width, shape);
    let ivals: Vec<i64> = vals.iter().map(|v| unzig(*v)).collect();
    let (st, chosen) = if pick < 7 { (STRATS[pick], false) } else if signed { (choose_optimal_strategy_signed(&ivals), true) } else { (choose_optimal_strategy(&vals), true) };
    let enc = make_encoder(st, named);
    let base = format!("VarIntEncoder.{:?}.{}_sequence", st, if signed { "i64" } else { "u64" });
    let shown = if signed { hexes_i(&ivals) } else { hexes(&vals) };
    cx.ev(format!("{}{}: {} values {}, width<={} bits, shape {}", base, if chosen { " (chosen by choose_optimal_strategy)" } else { "" }, vals.len(), shown, width, SHAPES[shape]));
    // Two documented-by-construction limits of the formats get their own identity: the group-varint
    // selector has two bits per value (1..4 bytes), and the unsigned delta keeps its sign in bit 0.
    let as_u: Vec<u64> = if signed { ivals.iter().map(|v| *v as u64).collect() } else { vals.clone() };
    let cause = match st {
        VarIntStrategy::GroupVarint if as_u.iter().any(|v| *v > u32::MAX as u64) => "@value_above_u32",
        VarIntStrategy::Delta if !signed && vals.windows(2).any(|w| w[0].abs_diff(w[1]) >= 1u64 << 63) => "@delta_above_i63",
        _ => "",
    };
    let site = format!("{}{}", base, cause);
    cx.steps += 1;
    let bytes = match if signed { enc.encode_i64_sequence(&ivals) } else { enc.encode_u64_sequence(&vals) } {
        Ok(b) => b,
        Err(e) => {
            if st == VarIntStrategy::Zigzag && !signed {
                cx.ev(format!("encode -> Err (zigzag is for signed input): {}", clip(&e)));
                cx.cell(format!("{}/refused", base));
                cx.nontrivial = vals.len() >= 2;
            } else if cause == "@value_above_u32" {
                // documented limit of the format (two selector bits per value: 1..4 bytes); a refusal
                // is the right answer, silently truncated values were the defect (fix 20aaffa)
                cx.ev(format!("encode -> Err (group varint holds values up to u32::MAX): {}", clip(&e)));
                cx.cell(format!("{}/refused_above_u32", base));
                cx.probe("group_varint_refused_value_above_u32");
                cx.nontrivial = vals.len() >= 2;
            } else {
                cx.violate("unexpected_error", &site, format!("encoding {} failed: {}", shown, clip(&e)));
            }
            return;
        }
    };
    cx.ev(format!("encode -> {}", short_bytes(&bytes)));
    cx.steps += 1;
    let bad: Option<String> = if signed {
        match enc.decode_i64_sequence(&bytes) {
            Ok(g) => if g == ivals { None } else { Some(format!("decodes to {}", hexes_i(&g))) },
            Err(e) => Some(format!("fails to decode: {}", clip(&e))),
        }
    } else {
        match enc.decode_u64_sequence(&bytes) {
            Ok(g) => if g == vals { None } else { Some(format!("decodes to {}", hexes(&g))) },
            Err(e) => Some(format!("fails to decode: {}", clip(&e))),
        }
    };
    if let Some(b) = bad {
        cx.violate("wrong_value", &site, format!("the {}-byte encoding of {} {}", bytes.len(), shown, b));
        return;
    }
    cx.ev("decode -> equal");
    cx.cell(format!("{}/n{}/{}", base, vals.len().min(20), SHAPES[shape]));
    cx.nontrivial = vals.len() >= 2;
}

// ---- endian conversion

trait Bits: EndianConvert + Debug {
    fn from_bits(a: u64, b: u64) -> Self;
    fn raw(&self) -> Vec<u8>;
}
macro_rules! bits_int {
    ($($t:ty),*) => {$(
        impl Bits for $t {
            fn from_bits(a: u64, b: u64) -> Self {
                (((a as u128) << 64) | b as u128) as $t
            }
            fn raw(&self) -> Vec<u8> {
                self.to_ne_bytes().to_vec()
            }
        }
    )*};
}
bits_int!(u8, u16, u32, u64, u128, usize, i8, i16, i32, i64, i128, isize);
impl Bits for f32 {
    fn from_bits(_a: u64, b: u64) -> Self {
        f32::from_bits(b as u32)
    }
    fn raw(&self) -> Vec<u8> {
        self.to_bits().to_ne_bytes().to_vec()
    }
}
impl Bits for f64 {
    fn from_bits(_a: u64, b: u64) -> Self {
        f64::from_bits(b)
    }
    fn raw(&self) -> Vec<u8> {
        self.to_bits().to_ne_bytes().to_vec()
    }
}

/// Every pairing of an encoder and a decoder that zipora names for the same byte order must
/// round-trip: EndianConvert::to_endian / from_endian, to_le/to_be / from_le/from_be,
/// EndianIO::write_to_bytes / read_from_bytes, and the slice converters.
fn endian_case<T: Bits>(cx: &mut Run, tname: &str, e: Endianness, raw: &[(u64, u64)], pad: usize) -> bool {
    let vals: Vec<T> = raw.iter().map(|(a, b)| T::from_bits(*a, *b)).collect();
    let io = EndianIO::<T>::new(e);
    let native = EndianIO::<T>::native_endian();
    let sz = std::mem::size_of::<T>();
    let little = match e {
        Endianness::Little => true,
        Endianness::Big => false,
        Endianness::Native => Endianness::native() == Endianness::Little,
    };
    let site_c = format!("EndianConvert<{}>", tname);
    let site_io = format!("EndianIO<{}>", tname);
    for (i, v) in vals.iter().enumerate() {
        cx.steps += 1;
        let w = v.to_endian(e);
        if w.from_endian(e).raw() != v.raw() {
            cx.violate("wrong_value", &site_c, format!("value #{} {:?}: from_endian({:?}) of to_endian({:?}) gives {:?}", i, v, e, e, w.from_endian(e)));
            return false;
        }
        let named = if little { v.to_le() } else { v.to_be() };
        let back = if little { named.from_le() } else { named.from_be() };
        if named.raw() != w.raw() || back.raw() != v.raw() {
            cx.violate("wrong_value", &site_c, format!("value #{} {:?}: to_{}() gives {:?} where to_endian({:?}) gives {:?}; from_{}() of it gives {:?}", i, v, if little { "le" } else { "be" }, named, e, w, if little { "le" } else { "be" }, back));
            return false;
        }
        let mut buf = vec![0xA5u8; sz + pad];
        if let Err(er) = io.write_to_bytes(*v, &mut buf) {
            cx.violate("unexpected_error", &site_io, format!("write_to_bytes into {} bytes failed: {}", sz + pad, clip(&er)));
            return false;
        }
        if buf[sz..].iter().any(|b| *b != 0xA5) {
            cx.violate("range_overrun", &site_io, format!("write_to_bytes of a {}-byte value changed bytes after it", sz));
            return false;
        }
        let own = io.read_from_bytes(&buf);
        let via_native = native.read_from_bytes(&buf).map(|n| n.from_endian(e));
        let mut b2 = vec![0u8; sz];
        let _ = native.write_to_bytes(w, &mut b2);
        let from_conv = io.read_from_bytes(&b2);
        for (what, r) in [("read_from_bytes of write_to_bytes", own), ("from_endian of a native read of write_to_bytes", via_native), ("read_from_bytes of a native write of to_endian", from_conv)] {
            match r {
                Ok(g) => {
                    if g.raw() != v.raw() {
                        cx.violate("wrong_value", &site_io, format!("value #{} {:?} ({:?}): {} gives {:?}", i, v, e, what, g));
                        return false;
                    }
                }
                Err(er) => {
                    cx.violate("unexpected_error", &site_io, format!("value #{} {:?} ({:?}): {} failed: {}", i, v, e, what, clip(&er)));
                    return false;
                }
            }
        }
    }
    // slices
    cx.steps += 1;
    let mut s = vals.clone();
    io.convert_slice_to_endian(&mut s);
    for (i, (c, v)) in s.iter().zip(vals.iter()).enumerate() {
        if c.raw() != v.to_endian(e).raw() {
            cx.violate("wrong_value", &format!("{}.convert_slice", site_io), format!("convert_slice_to_endian({:?}) element #{} of {}: {:?} became {:?}, to_endian gives {:?}", e, i, vals.len(), v, c, v.to_endian(e)));
            return false;
        }
    }
    io.convert_slice_from_endian(&mut s);
    for (i, (c, v)) in s.iter().zip(vals.iter()).enumerate() {
        if c.raw() != v.raw() {
            cx.violate("wrong_value", &format!("{}.convert_slice", site_io), format!("convert_slice_from_endian({:?}) after convert_slice_to_endian: element #{} of {} is {:?}, was {:?}", e, i, vals.len(), c, v));
            return false;
        }
    }
    let shown: Vec<String> = vals.iter().take(6).map(|v| format!("{:02x?}", v.raw())).collect();
    cx.ev(format!("{} values of {} ({:?}, native bytes {}{}, {} pad bytes): to/from_endian, to/from_{}, EndianIO bytes (3 pairings), slice converters -> equal", vals.len(), tname, e, shown.join(" "), if vals.len() > 6 { format!(" ..#{:08x}", fnv(&vals.iter().flat_map(|v| v.raw()).collect::<Vec<u8>>()) as u32) } else { String::new() }, pad, if little { "le" } else { "be" }));
    true
}

const ENDIAN_TYPES: [&str; 14] = ["u8", "u16", "u32", "u64", "u128", "usize", "i8", "i16", "i32", "i64", "i128", "isize", "f32", "f64"];

fn codec_endian(cx: &mut Run) {
    let cfg = cx.src.chan("cfg");
    let t = cfg.below(14) as usize;
    let e = endianness(cfg.below(3) as u8);
    let pad = *cfg.pick(&[0usize, 0, 1, 7]);
    // around the 8-lane (u16) and 4-lane (u32) blocks of the SIMD converters
    let planned = *cfg.pick(&[1u64, 2, 3, 4, 5, 7, 8, 9, 15, 16, 17, 20]);
    let ops = take_ops(cx, "ops", planned);
    let mut prev = 0u64;
    let raw: Vec<(u64, u64)> = ops
        .iter()
        .map(|o| {
            let v = rel_u64(prev, o, 64);
            prev = v;
            (v.rotate_left(17) ^ o[3], v)
        })
        .collect();
    let ok = match t {
        0 => endian_case::<u8>(cx, "u8", e, &raw, pad),
        1 => endian_case::<u16>(cx, "u16", e, &raw, pad),
        2 => endian_case::<u32>(cx, "u32", e, &raw, pad),
        3 => endian_case::<u64>(cx, "u64", e, &raw, pad),
        4 => endian_case::<u128>(cx, "u128", e, &raw, pad),
        5 => endian_case::<usize>(cx, "usize", e, &raw, pad),
        6 => endian_case::<i8>(cx, "i8", e, &raw, pad),
        7 => endian_case::<i16>(cx, "i16", e, &raw, pad),
        8 => endian_case::<i32>(cx, "i32", e, &raw, pad),
        9 => endian_case::<i64>(cx, "i64", e, &raw, pad),
        10 => endian_case::<i128>(cx, "i128", e, &raw, pad),
        11 => endian_case::<isize>(cx, "isize", e, &raw, pad),
        12 => endian_case::<f32>(cx, "f32", e, &raw, pad),
        _ => endian_case::<f64>(cx, "f64", e, &raw, pad),
    };
    if !ok {
        return;
    }
    // the header magic names the byte order it was written for
    let resolved = match e {
        Endianness::Native => Endianness::native(),
        x => x,
    };
    let magic = zipora::io::endian::write_endianness_magic(e);
    let det = zipora::io::endian::detect_endianness_from_magic(magic);
    if det != Some(resolved) {
        cx.violate("wrong_value", "endian.magic", format!("write_endianness_magic({:?}) = {:#x} is detected as {:?}", e, magic, det));
        return;
    }
    // SIMD slice converters (u16, u32): the decoder of what to_le / to_be encoded.  Checked last.
    #[cfg(target_arch = "x86_64")]
    {
        let little = resolved == Endianness::Little;
        if t == 1 {
            let vals: Vec<u16> = raw.iter().map(|(_, b)| *b as u16).collect();
            let mut s: Vec<u16> = vals.iter().map(|v| if little { v.to_le() } else { v.to_be() }).collect();
            zipora::io::endian::simd::convert_u16_slice_simd(&mut s, little);
            if s != vals {
                let j = s.iter().zip(vals.iter()).position(|(a, b)| a != b).unwrap_or(0);
                cx.violate("wrong_value", "endian.simd.convert_u16_slice_simd", format!("{} values encoded with to_{}() and converted with from_little={}: element #{} is {:#x}, was {:#x}", vals.len(), if little { "le" } else { "be" }, little, j, s[j], vals[j]));
                return;
            }
            cx.ev("convert_u16_slice_simd decodes to_le/to_be -> equal");
        }
        if t == 2 {
            let vals: Vec<u32> = raw.iter().map(|(_, b)| *b as u32).collect();
            let mut s: Vec<u32> = vals.iter().map(|v| if little { v.to_le() } else { v.to_be() }).collect();
            zipora::io::endian::simd::convert_u32_slice_simd(&mut s, little);
            if s != vals {
                let j = s.iter().zip(vals.iter()).position(|(a, b)| a != b).unwrap_or(0);
                cx.violate("wrong_value", "endian.simd.convert_u32_slice_simd", format!("{} values encoded with to_{}() and converted with from_little={}: element #{} is {:#x}, was {:#x}", vals.len(), if little { "le" } else { "be" }, little, j, s[j], vals[j]));
                return;
            }
            cx.ev("convert_u32_slice_simd decodes to_le/to_be -> equal");
        }
    }
    cx.cell(format!("endian/{}/{:?}", ENDIAN_TYPES[t], e));
    cx.nontrivial = raw.len() >= 2;
}

// ---------------------------------------------------------------------------------------
// several writer sessions over one file / one Vec: create over existing content, append after
// existing content, MemoryMappedOutput::open + seek (append at the end, patch a header in place),
// VecDataOutput::clear / reserve and reuse; then one reader over the result.

fn enc_of(vals: &[Val]) -> ZResult<(Vec<u8>, Vec<usize>)> {
    let mut o = VecDataOutput::new();
    let mut ends = vec![];
    for v in vals {
        v.write(&mut DynOut(&mut o))?;
        ends.push(o.len());
    }
    Ok((o.into_vec(), ends))
}

/// Write `vals` through `out`; after value i the writer must have advanced by `ends[i]` bytes.
fn write_session(cx: &mut Run, out: &mut dyn PosOut, vals: &[Val], ends: &[usize], site: &str, tag: &str) -> bool {
    let base = out.pos();
    for (i, v) in vals.iter().enumerate() {
        cx.steps += 1;
        if let Err(e) = v.write(&mut DynOut(out.out())) {
            cx.violate("unexpected_error", site, format!("{}: writing value #{} ({}) failed: {}", tag, i, v.desc(), clip(&e)));
            return false;
        }
        if out.pos() - base != ends[i] as u64 {
            cx.violate("length_mismatch", site, format!("{}: after value #{} ({}) the writer advanced {} bytes; the value sequence encodes to {} bytes so far", tag, i, v.desc(), out.pos() - base, ends[i]));
            return false;
        }
        cx.ev(format!("{} w{} {} -> ok, writer at {}", tag, i, v.desc(), out.pos()));
    }
    if let Err(e) = out.finish() {
        cx.violate("unexpected_error", site, format!("{}: flush failed: {}", tag, clip(&e)));
        return false;
    }
    true
}

fn file_is(cx: &mut Run, file: &TmpFile, exp: &[u8], site: &str, tag: &str) -> Option<Vec<u8>> {
    let got = std::fs::read(&file.0).unwrap_or_default();
    if got != exp {
        let j = got.iter().zip(exp.iter()).position(|(a, b)| a != b).unwrap_or(got.len().min(exp.len()));
        cx.violate(if got.len() != exp.len() { "length_mismatch" } else { "wrong_value" }, site, format!("{}: the file holds {} bytes {}, expected {} bytes {} (first difference at byte {})", tag, got.len(), short_bytes(&got), exp.len(), short_bytes(exp), j));
        return None;
    }
    cx.ev(format!("{}: the file holds exactly the expected {} bytes", tag, exp.len()));
    Some(got)
}

fn sessions_run(cx: &mut Run) {
    let cfg = cx.src.chan("cfg");
    let file = TmpFile::new(true);
    let junk_len = *cfg.pick(&[0usize, 0, 1, 9, 200, 5000]);
    let w1 = cfg.below(5);
    let mut w2 = cfg.below(5);
    let rk = cfg.below(6);
    let init = *cfg.pick(&[1usize, 8, 64, 4096]);
    let planned = 2 + cfg.below(7);
    let ops = take_ops(cx, "ops", planned);
    let mut vals: Vec<Val> = ops.iter().enumerate().map(|(i, o)| gen_val(Fam::Prim, i, *o, 300)).collect();
    if vals.is_empty() {
        return;
    }
    if w2 == 3 {
        // a fixed-width header that the second session patches in place
        vals[0] = Val::U64(gen_u64(ops[0][1], ops[0][2], 0));
    }
    let na = if w2 == 0 || w2 == 3 { vals.len() } else { 1 + cfg.below(vals.len() as u64) as usize };
    let (a, b) = vals.split_at(na.min(vals.len()));
    let (enc_a, ends_a, enc_b, ends_b) = match (enc_of(a), enc_of(b)) {
        (Ok((x, y)), Ok((z, w))) => (x, y, z, w),
        _ => {
            cx.violate("unexpected_error", "VecDataOutput.encode", "encoding the values into a Vec failed");
            return;
        }
    };
    let junk = pattern(junk_len, 77);
    if junk_len > 0 && std::fs::write(&file.0, &junk).is_err() {
        cx.abandoned = true;
        return;
    }
    let w1_name = ["FileDataOutput.create", "FileDataOutput.create", "FileDataOutput.append", "FileDataOutput.append", "MemoryMappedOutput.create"][w1 as usize];
    cx.ev(format!("the file {}; session 1: {}{}", if junk_len > 0 { format!("already holds {} bytes", junk_len) } else { "does not exist".to_string() }, ["FileDataOutput::create", "io::to_file", "FileDataOutput::append", "io::to_file_append", "MemoryMappedOutput::create"][w1 as usize], if w1 == 4 { format!("(initial_size={}) + truncate", init) } else { String::new() }));
    let append1 = w1 == 2 || w1 == 3;
    let mut skip0 = if append1 { junk_len } else { 0 };
    let mut exp: Vec<u8> = if append1 { junk.clone() } else { vec![] };
    {
        let made: ZResult<Box<dyn PosOut>> = match w1 {
            0 => FileDataOutput::create(&file.0).map(|f| Box::new(FOut(f)) as Box<dyn PosOut>),
            1 => zipora::io::to_file(&file.0).map(|f| Box::new(FOut(f)) as Box<dyn PosOut>),
            2 => FileDataOutput::append(&file.0).map(|f| Box::new(FOut(f)) as Box<dyn PosOut>),
            3 => zipora::io::to_file_append(&file.0).map(|f| Box::new(FOut(f)) as Box<dyn PosOut>),
            _ => MemoryMappedOutput::create(&file.0, init).map(|m| Box::new(MOut(m, true)) as Box<dyn PosOut>),
        };
        let mut out = match made {
            Ok(o) => o,
            Err(e) => {
                cx.violate("unexpected_error", w1_name, format!("session 1: cannot create the writer: {}", clip(&e)));
                return;
            }
        };
        if !write_session(cx, out.as_mut(), a, &ends_a, w1_name, "s1") {
            return;
        }
    }
    exp.extend_from_slice(&enc_a);
    if file_is(cx, &file, &exp, w1_name, "after session 1").is_none() {
        return;
    }
    // what a reader is expected to find: (value, offset of its end)
    let mut readable: Vec<(Val, usize)> = a.iter().cloned().zip(ends_a.iter().map(|e| skip0 + e)).collect();
    if w2 == 2 && exp.is_empty() {
        w2 = 0;
    }
    match w2 {
        0 => cx.ev("no second session"),
        1 => {
            cx.ev("session 2: FileDataOutput::append");
            let mut out = match FileDataOutput::append(&file.0) {
                Ok(f) => FOut(f),
                Err(e) => {
                    cx.violate("unexpected_error", "FileDataOutput.append", format!("session 2: {}", clip(&e)));
                    return;
                }
            };
            if !write_session(cx, &mut out, b, &ends_b, "FileDataOutput.append", "s2") {
                return;
            }
            let at = exp.len();
            readable.extend(b.iter().cloned().zip(ends_b.iter().map(|e| at + e)));
            exp.extend_from_slice(&enc_b);
        }
        2 | 3 => {
            let site = "MemoryMappedOutput.open";
            let mut m = match MemoryMappedOutput::open(&file.0) {
                Ok(m) => m,
                Err(e) => {
                    cx.violate("unexpected_error", site, format!("session 2: opening the {}-byte file failed: {}", exp.len(), clip(&e)));
                    return;
                }
            };
            if m.capacity() != exp.len() || m.position() != 0 || m.remaining() != exp.len() {
                cx.violate("wrong_position", site, format!("a {}-byte file opens with capacity()={} position()={} remaining()={}", exp.len(), m.capacity(), m.position(), m.remaining()));
                return;
            }
            if m.seek(exp.len() + 1).is_ok() || m.position() != 0 || m.remaining() != exp.len() {
                cx.violate("wrong_position", site, format!("seek({}) beyond the capacity {} succeeded or moved the cursor: position()={} remaining()={}", exp.len() + 1, exp.len(), m.position(), m.remaining()));
                return;
            }
            let target = if w2 == 2 { exp.len() } else { skip0 };
            if let Err(e) = m.seek(target) {
                cx.violate("unexpected_error", site, format!("seek({}) within capacity {} failed: {}", target, exp.len(), clip(&e)));
                return;
            }
            if w2 == 2 {
                cx.ev(format!("session 2: MemoryMappedOutput::open, seek({}) to the end, write, truncate", target));
                let mut out = MOut(m, true);
                if !write_session(cx, &mut out, b, &ends_b, site, "s2") {
                    return;
                }
                let at = exp.len();
                readable.extend(b.iter().cloned().zip(ends_b.iter().map(|e| at + e)));
                exp.extend_from_slice(&enc_b);
            } else {
                let new = gen_u64(3, ops[0][3], 1) ^ 0x5A5A;
                cx.ev(format!("session 2: MemoryMappedOutput::open, seek({}), overwrite the u64 header with {:#x}, flush", target, new));
                let r = m.write_u64(new).and_then(|_| DataOutput::flush(&mut m));
                if let Err(e) = r {
                    cx.violate("unexpected_error", site, format!("patching 8 bytes at {} failed: {}", target, clip(&e)));
                    return;
                }
                if m.position() != target + 8 || m.capacity() != exp.len() {
                    cx.violate("wrong_position", site, format!("after writing 8 bytes at {}: position()={} capacity()={} (file of {})", target, m.position(), m.capacity(), exp.len()));
                    return;
                }
                exp[target..target + 8].copy_from_slice(&new.to_le_bytes());
                readable[0].0 = Val::U64(new);
            }
        }
        _ => {
            cx.ev("session 2: FileDataOutput::create over the file written by session 1");
            let mut out = match FileDataOutput::create(&file.0) {
                Ok(f) => FOut(f),
                Err(e) => {
                    cx.violate("unexpected_error", "FileDataOutput.create", format!("session 2: {}", clip(&e)));
                    return;
                }
            };
            if !write_session(cx, &mut out, b, &ends_b, "FileDataOutput.create", "s2") {
                return;
            }
            exp = enc_b.clone();
            skip0 = 0;
            readable = b.iter().cloned().zip(ends_b.iter().copied()).collect();
        }
    }
    let w2_name = ["-", "FileDataOutput.append", "MemoryMappedOutput.open", "MemoryMappedOutput.open", "FileDataOutput.create"][w2 as usize];
    let got = match file_is(cx, &file, &exp, if w2 == 0 { w1_name } else { w2_name }, "after the last session") {
        Some(g) => g,
        None => return,
    };
    let total = exp.len();
    if total == 0 {
        cx.ev("the file is empty: no reader is opened");
        cx.nontrivial = true;
        return;
    }
    // ---- one reader over everything
    let open = |p: &PathBuf| std::fs::File::open(p).map_err(to_z);
    let rname = ["MmapDataInput::open", "io::from_file", "MemoryMappedInput::from_path", "io::from_reader(File)", "io::from_slice", "ReaderDataInput<MmapZeroCopyReader>"][rk as usize];
    let rsite = ["MmapDataInput", "MmapDataInput", "MemoryMappedInput", "ReaderDataInput<File>", "SliceDataInput", "MmapZeroCopyReader"][rk as usize];
    cx.ev(format!("reader: {}", rname));
    let made: ZResult<Box<dyn PosIn + '_>> = match rk {
        0 => MmapDataInput::open(&file.0).map(|r| Box::new(MDIn(r)) as Box<dyn PosIn>),
        1 => zipora::io::from_file(&file.0).map(|r| Box::new(MDIn(r)) as Box<dyn PosIn>),
        2 => MemoryMappedInput::from_path(&file.0).map(|r| Box::new(MMIn(r)) as Box<dyn PosIn>),
        3 => open(&file.0).map(|f| Box::new(RIn(zipora::io::from_reader(Box::new(f) as Box<dyn Read>))) as Box<dyn PosIn>),
        4 => Ok(Box::new(SIn(zipora::io::from_slice(&got))) as Box<dyn PosIn>),
        _ => open(&file.0).and_then(MmapZeroCopyReader::new).map(|r| Box::new(RIn(ReaderDataInput::new(Box::new(r) as Box<dyn Read>))) as Box<dyn PosIn>),
    };
    let mut inp = match made {
        Ok(i) => i,
        Err(e) => {
            cx.violate("unexpected_error", &format!("{}.open", rsite), format!("opening the {}-byte file failed: {}", total, clip(&e)));
            return;
        }
    };
    if skip0 > 0 {
        if let Err(e) = inp.inp().skip(skip0) {
            cx.violate("unexpected_error", &format!("{}.skip", rsite), format!("skip({}) over the older content failed: {}", skip0, clip(&e)));
            return;
        }
        if inp.pos() != skip0 as u64 {
            cx.violate("consumed_mismatch", &format!("{}.skip", rsite), format!("skip({}) left the reader at {}", skip0, inp.pos()));
            return;
        }
    }
    for (i, (v, end)) in readable.iter().enumerate() {
        cx.steps += 1;
        match v.read_check(&mut DynIn(inp.inp())) {
            Ok(None) => {
                if inp.pos() != *end as u64 {
                    cx.violate("consumed_mismatch", &format!("{}.read", rsite), format!("value #{} ({}) decoded to an equal value but the reader is at {} where the value ends at {}", i, v.desc(), inp.pos(), end));
                    return;
                }
                cx.ev(format!("r{} -> equal, reader at {}", i, inp.pos()));
            }
            Ok(Some(g)) => {
                cx.violate("wrong_value", &format!("{}.read", rsite), format!("value #{} written as {} was read back as {}", i, v.desc(), g));
                return;
            }
            Err(e) => {
                cx.violate("unexpected_error", &format!("{}.read", rsite), format!("reading value #{} ({}) failed: {}", i, v.desc(), clip(&e)));
                return;
            }
        }
    }
    if let Ok(x) = inp.inp().read_u8() {
        cx.violate("read_past_end", &format!("{}.read", rsite), format!("after all {} bytes were consumed the reader still returned a byte ({:#x})", total, x));
        return;
    }
    drop(inp);
    // the inherent views of the two mmap readers
    let bounds_of: Vec<(usize, usize)> = readable.iter().enumerate().map(|(i, (_, e))| (if i == 0 { skip0 } else { readable[i - 1].1 }, *e)).collect();
    if rk == 0 || rk == 1 {
        if let Ok(mut r) = MmapDataInput::open(&file.0) {
            let k = (ops[0][0] as usize) % bounds_of.len();
            let at = bounds_of[k].0;
            let _ = r.skip(at);
            if r.len() != total || r.is_empty() || r.as_slice() != &exp[..] || r.pos() != at || r.remaining() != total - at || r.remaining_slice() != &exp[at..] || DataInput::has_remaining(&r) != Some(at < total) {
                cx.violate("wrong_position", "MmapDataInput.views", format!("after skip({}) in a {}-byte file: len()={} pos()={} remaining()={} remaining_slice() of {} bytes, has_remaining()={:?}", at, total, r.len(), r.pos(), r.remaining(), r.remaining_slice().len(), DataInput::has_remaining(&r)));
                return;
            }
            cx.ev(format!("MmapDataInput views after skip({}) -> consistent", at));
        }
    }
    if rk == 5 {
        let mut z = match open(&file.0).and_then(MmapZeroCopyReader::new) {
            Ok(z) => z,
            Err(e) => {
                cx.violate("unexpected_error", "MmapZeroCopyReader.open", clip(&e));
                return;
            }
        };
        if z.len() != total || z.is_empty() || z.zc_available() != total || z.as_slice() != &exp[..] {
            cx.violate("wrong_position", "MmapZeroCopyReader.zc", format!("a fresh reader over {} bytes: len()={} zc_available()={}", total, z.len(), z.zc_available()));
            return;
        }
        for (i, (s, e)) in bounds_of.iter().enumerate() {
            cx.steps += 1;
            let n = e - s;
            if z.set_position(*s).is_err() {
                cx.violate("unexpected_error", "MmapZeroCopyReader.zc", format!("set_position({}) in {} bytes failed", s, total));
                return;
            }
            let ok = match z.zc_read(n) {
                Ok(Some(sl)) => sl == &exp[*s..*e],
                _ => false,
            };
            let adv = z.zc_advance(n).is_ok();
            if !ok || !adv || z.position() != *e || z.zc_available() != total - e || z.remaining_slice() != &exp[*e..] || z.zc_ensure(n + 1).ok() != Some((total - e).min(n + 1)) {
                cx.violate("wrong_value", "MmapZeroCopyReader.zc", format!("value #{} at {}..{} of {}: zc_read gave the right bytes: {}, zc_advance ok: {}, position()={} zc_available()={}", i, s, e, total, ok, adv, z.position(), z.zc_available()));
                return;
            }
        }
        let _ = z.set_position(total);
        if !matches!(z.zc_read(1), Ok(None)) || z.zc_advance(1).is_ok() || z.set_position(total + 1).is_ok() {
            cx.violate("read_past_end", "MmapZeroCopyReader.zc", format!("at the end of {} bytes zc_read(1) / zc_advance(1) / set_position({}) did not refuse", total, total + 1));
            return;
        }
        cx.ev("MmapZeroCopyReader set_position / zc_read / zc_advance over every value -> equal");
    }
    cx.cell(format!("sessions/{}/{}/{}", w1_name, w2_name, rsite));
    cx.nontrivial = readable.len() >= 2;
}

fn vec_reuse(cx: &mut Run) {
    let cfg = cx.src.chan("cfg");
    let ctor = cfg.below(4);
    let action = cfg.below(4);
    let planned = 2 + cfg.below(8);
    let ops = take_ops(cx, "ops", planned);
    let vals: Vec<Val> = ops.iter().enumerate().map(|(i, o)| gen_val(Fam::Prim, i, *o, 300)).collect();
    if vals.is_empty() {
        return;
    }
    let na = 1 + cfg.below(vals.len() as u64) as usize;
    let (a, b) = vals.split_at(na.min(vals.len()));
    let (enc_a, ends_a, enc_b, ends_b) = match (enc_of(a), enc_of(b)) {
        (Ok((x, y)), Ok((z, w))) => (x, y, z, w),
        _ => {
            cx.violate("unexpected_error", "VecDataOutput.encode", "encoding the values into a Vec failed");
            return;
        }
    };
    let site = "VecDataOutput.reuse";
    let mut o = match ctor {
        0 => VecDataOutput::new(),
        1 => VecDataOutput::default(),
        2 => zipora::io::to_vec(),
        _ => zipora::io::to_vec_with_capacity(cfg.below(40) as usize),
    };
    cx.ev(format!("VecDataOutput ({}): {} values, then {}, then {} values", ["new", "default", "to_vec", "to_vec_with_capacity"][ctor as usize], a.len(), ["clear()", "nothing", "reserve()", "clear() twice"][action as usize], b.len()));
    if !o.is_empty() || o.len() != 0 {
        cx.violate("wrong_position", site, format!("a fresh output has len()={}", o.len()));
        return;
    }
    for (i, v) in a.iter().enumerate() {
        cx.steps += 1;
        if v.write(&mut DynOut(&mut o)).is_err() || o.len() != ends_a[i] {
            cx.violate("length_mismatch", site, format!("after value #{} ({}) len()={} expected {}", i, v.desc(), o.len(), ends_a[i]));
            return;
        }
    }
    if o.as_slice() != &enc_a[..] {
        cx.violate("wrong_value", site, format!("as_slice() holds {} instead of {}", short_bytes(o.as_slice()), short_bytes(&enc_a)));
        return;
    }
    let mut exp: Vec<u8> = enc_a.clone();
    match action {
        0 | 3 => {
            o.clear();
            if action == 3 {
                o.clear();
            }
            exp.clear();
            if !o.is_empty() || DataOutput::position(&o) != Some(0) || DataOutput::bytes_written(&o) != Some(0) {
                cx.violate("wrong_position", site, format!("after clear(): len()={} position()={:?} bytes_written()={:?}", o.len(), DataOutput::position(&o), DataOutput::bytes_written(&o)));
                return;
            }
        }
        2 => o.reserve(*cfg.pick(&[0usize, 1, 64, 5000])),
        _ => {}
    }
    let base = exp.len();
    for (i, v) in b.iter().enumerate() {
        cx.steps += 1;
        if v.write(&mut DynOut(&mut o)).is_err() || o.len() != base + ends_b[i] {
            cx.violate("length_mismatch", site, format!("second batch: after value #{} ({}) len()={} expected {}", i, v.desc(), o.len(), base + ends_b[i]));
            return;
        }
    }
    exp.extend_from_slice(&enc_b);
    let bytes = o.into_vec();
    if bytes != exp {
        cx.violate("wrong_value", site, format!("into_vec() gives {} instead of {}", short_bytes(&bytes), short_bytes(&exp)));
        return;
    }
    cx.ev(format!("into_vec() -> the expected {} bytes", exp.len()));
    // read back with the slice reader's own views checked at every value boundary
    let readable: Vec<(&Val, usize)> = if base == 0 { b.iter().zip(ends_b.iter().copied()).collect() } else { a.iter().zip(ends_a.iter().copied()).chain(b.iter().zip(ends_b.iter().map(|e| base + e))).collect() };
    let mut inp = SliceDataInput::new(&bytes);
    for (i, (v, end)) in readable.iter().enumerate() {
        cx.steps += 1;
        match v.read_check(&mut DynIn(&mut inp)) {
            Ok(None) => {}
            Ok(Some(g)) => {
                cx.violate("wrong_value", "SliceDataInput.read", format!("value #{} written as {} was read back as {}", i, v.desc(), g));
                return;
            }
            Err(e) => {
                cx.violate("unexpected_error", "SliceDataInput.read", format!("reading value #{} ({}) failed: {}", i, v.desc(), clip(&e)));
                return;
            }
        }
        let p = inp.pos();
        if p != *end || inp.remaining() != bytes.len() - p || inp.has_more() != (p < bytes.len()) || inp.remaining_slice() != &bytes[p..] || DataInput::position(&inp) != Some(p as u64) || DataInput::has_remaining(&inp) != Some(p < bytes.len()) {
            cx.violate("wrong_position", "SliceDataInput.views", format!("after value #{} (ends at {} of {}): pos()={} remaining()={} has_more()={} remaining_slice() of {} bytes, position()={:?} has_remaining()={:?}", i, end, bytes.len(), p, inp.remaining(), inp.has_more(), inp.remaining_slice().len(), DataInput::position(&inp), DataInput::has_remaining(&inp)));
            return;
        }
    }
    cx.ev(format!("{} values read back through SliceDataInput, views consistent", readable.len()));
    // WriterDataOutput over a Vec: typed writes mixed with its own io::Write side, then into_inner
    let mut w = zipora::io::to_writer(Vec::<u8>::new());
    let mut exp2: Vec<u8> = vec![];
    for (i, v) in vals.iter().enumerate() {
        cx.steps += 1;
        if ops[i][3] % 3 == 0 {
            let chunk = pattern(1 + (ops[i][2] % 9) as usize, i + 50);
            if Write::write_all(&mut w, &chunk).is_err() {
                cx.violate("unexpected_error", "WriterDataOutput.io_write", "write_all into a Vec failed");
                return;
            }
            exp2.extend_from_slice(&chunk);
        }
        if v.write(&mut DynOut(&mut w)).is_err() {
            cx.violate("unexpected_error", "WriterDataOutput.io_write", format!("writing value #{} failed", i));
            return;
        }
        if let Ok((one, _)) = enc_of(std::slice::from_ref(v)) {
            exp2.extend_from_slice(&one);
        }
        if w.bytes_written() != exp2.len() as u64 {
            cx.violate("length_mismatch", "WriterDataOutput.io_write", format!("after value #{} bytes_written()={} but {} bytes were handed over", i, w.bytes_written(), exp2.len()));
            return;
        }
    }
    let inner = w.into_inner();
    if inner != exp2 {
        cx.violate("wrong_value", "WriterDataOutput.io_write", format!("into_inner() gives {} instead of {}", short_bytes(&inner), short_bytes(&exp2)));
        return;
    }
    cx.ev(format!("WriterDataOutput<Vec>: typed and io::Write writes interleaved, into_inner() -> the expected {} bytes", exp2.len()));
    cx.nontrivial = vals.len() >= 2;
}


// ---------------------------------------------------------------------------------------
// continued use after a refused operation.  Every DataInput back end is asked for more than
// remains (read_u16..u64 / read_bytes / read_vec / skip past the end, including lengths near
// usize::MAX) in the middle of ordinary reads, and is then used again.  Positioned back ends
// (slice, mmap, MemoryMappedInput, RangeReader's own DataInput) check their bounds before they
// move: the refused call must not consume anything and the next reads continue from the same
// cursor.  Reader-backed inputs (ReaderDataInput over anything) may have consumed an unspecified
// amount in the failed read_exact: from then on only "no panic, nothing invented" is demanded
// (whatever is returned must be bytes that really lie at or after the old cursor).

struct RgCur(RangeReader<Cursor<Vec<u8>>>);
impl PosIn for RgCur {
    fn inp(&mut self) -> &mut dyn DataInput {
        &mut self.0
    }
    fn pos(&self) -> u64 {
        DataInput::position(&self.0).unwrap_or(u64::MAX)
    }
    fn views(&self, data: &[u8], pos: usize) -> Option<String> {
        let (cp, rem, end) = (self.0.current_position() - self.0.start_position(), self.0.remaining(), self.0.is_at_end());
        if cp != pos as u64 || rem != (data.len() - pos) as u64 || end != (pos >= data.len()) {
            Some(format!("current_position()-start={} remaining()={} is_at_end()={}", cp, rem, end))
        } else {
            None
        }
    }
}

const RF_BE: [&str; 9] = ["SliceDataInput", "MmapDataInput", "MemoryMappedInput(BufferedIO)", "MemoryMappedInput(mmap)", "RangeReader", "ReaderDataInput<Cursor>", "ReaderDataInput<StreamBufferedReader>", "ReaderDataInput<ZeroCopyReader>", "ReaderDataInput<RangeReader>"];

fn refused_ops(cx: &mut Run) {
    let cfg = cx.src.chan("cfg");
    let be = cfg.below(9) as usize;
    let name = RF_BE[be];
    let positioned = be <= 4;
    let len = match be {
        1 => 1 + cfg.below(40) as usize,
        2 => *cfg.pick(&[1usize, 2, 9, 40, 4096]),
        3 => 4097 + cfg.below(30) as usize,
        _ => [cfg.below(41) as usize, 5000][cfg.weighted(&[9, 1])],
    };
    let data = pattern(len, 53 + be);
    let file = TmpFile::new(be >= 1 && be <= 3);
    if be >= 1 && be <= 3 && std::fs::write(&file.0, &data).is_err() {
        cx.abandoned = true;
        return;
    }
    let lead = cfg.below(7) as usize;
    let wrapped: Vec<u8> = pattern(lead, 3).into_iter().chain(data.iter().copied()).chain(pattern(5, 4)).collect();
    let made: ZResult<Box<dyn PosIn + '_>> = match be {
        0 => Ok(Box::new(SIn(SliceDataInput::new(&data)))),
        1 => MmapDataInput::open(&file.0).map(|r| Box::new(MDIn(r)) as Box<dyn PosIn>),
        2 | 3 => MemoryMappedInput::from_path(&file.0).map(|r| Box::new(MMIn(r)) as Box<dyn PosIn>),
        4 => RangeReader::new_and_seek(Cursor::new(wrapped.clone()), lead as u64, len as u64).map(|r| Box::new(RgCur(r)) as Box<dyn PosIn>),
        5 => Ok(Box::new(RIn(ReaderDataInput::new(Box::new(Cursor::new(data.clone())) as Box<dyn Read>)))),
        6 => {
            let (c, _) = draw_sb_cfg(&cfg);
            StreamBufferedReader::with_config(Cursor::new(data.clone()), c).map(|r| Box::new(RIn(ReaderDataInput::new(Box::new(r) as Box<dyn Read>))) as Box<dyn PosIn>)
        }
        7 => ZeroCopyReader::with_capacity(Cursor::new(data.clone()), draw_zc_cap(&cfg)).map(|r| Box::new(RIn(ReaderDataInput::new(Box::new(r) as Box<dyn Read>))) as Box<dyn PosIn>),
        _ => RangeReader::new_and_seek(Cursor::new(wrapped.clone()), lead as u64, len as u64).map(|r| Box::new(RIn(ReaderDataInput::new(Box::new(r) as Box<dyn Read>))) as Box<dyn PosIn>),
    };
    let mut inp = match made {
        Ok(i) => i,
        Err(e) => {
            cx.violate("unexpected_error", &format!("{}.open", name), clip(&e));
            return;
        }
    };
    cx.ev(format!("{} over {} bytes", name, len));
    let planned = 4 + cfg.below(9);
    let ops = take_ops(cx, "ops", planned);
    let mut pos = 0usize;
    // Some(min): a refused read on a reader-backed input may have consumed anything from `min` on
    let mut unknown: Option<usize> = None;
    let mut refusals = 0;
    for o in &ops {
        cx.steps += 1;
        let rem = len - pos;
        let over = o[0] % 10 >= 7;
        // (operation, requested bytes)
        let (op, n): (u64, usize) = if over {
            let fixed: Vec<(u64, usize)> = [(1u64, 2usize), (2, 4), (3, 8)].iter().copied().filter(|(_, w)| *w > rem).collect();
            if o[1] % 3 == 0 && !fixed.is_empty() {
                fixed[(o[2] as usize) % fixed.len()]
            } else {
                let k = 4 + o[1] % 3;
                let n = match (k, o[3] % 4) {
                    (6, 0) => usize::MAX - (o[2] % 3) as usize,
                    (6, 1) => (isize::MAX as usize) + (o[2] % 3) as usize,
                    (5, 0) => usize::MAX - (o[2] % 3) as usize,
                    _ => rem + 1 + (o[2] % 3) as usize,
                };
                (k, n)
            }
        } else {
            match o[0] % 7 {
                0 => (0, 1),
                1 => (1, 2),
                2 => (2, 4),
                3 => (3, 8),
                k => (k, (o[2] as usize) % 12),
            }
        };
        let opname = ["read_u8", "read_u16", "read_u32", "read_u64", "read_bytes", "read_vec", "skip"][op as usize];
        let what = if op <= 3 { opname.to_string() } else { format!("{}({})", opname, n) };
        if n > len + 8 {
            cx.ev(format!("{} at cursor {} ...", what, pos));
        }
        let r: ZResult<Vec<u8>> = {
            let i = inp.inp();
            match op {
                0 => i.read_u8().map(|v| vec![v]),
                1 => i.read_u16().map(|v| v.to_le_bytes().to_vec()),
                2 => i.read_u32().map(|v| v.to_le_bytes().to_vec()),
                3 => i.read_u64().map(|v| v.to_le_bytes().to_vec()),
                4 => {
                    let mut b = vec![0u8; n];
                    i.read_bytes(&mut b).map(|_| b)
                }
                5 => i.read_vec(n),
                _ => i.skip(n).map(|_| vec![]),
            }
        };
        let fits = n <= rem;
        if let Some(min) = unknown {
            // state after a refusal on a reader-backed input: nothing may be invented
            match r {
                Ok(b) => {
                    let genuine = op == 6 || b.is_empty() || data[min..].windows(b.len()).any(|w| w == &b[..]);
                    if !genuine {
                        cx.violate("wrong_value", &format!("{}.after_refusal", name), format!("{} after a refused call returned {} which lies nowhere at or after byte {} of the input", what, short_bytes(&b), min));
                        return;
                    }
                    cx.ev(format!("{} -> Ok ({} bytes that exist at or after {})", what, b.len(), min));
                }
                Err(_) => cx.ev(format!("{} -> Err", what)),
            }
            if inp.pos() > len as u64 {
                cx.violate("wrong_position", &format!("{}.after_refusal", name), format!("the input reports position {} in {} bytes", inp.pos(), len));
                return;
            }
            continue;
        }
        match r {
            Ok(b) => {
                if !fits {
                    cx.violate("read_past_end", &format!("{}.refusal", name), format!("{} at {} succeeded although only {} bytes remain", what, pos, rem));
                    return;
                }
                if op != 6 && b[..] != data[pos..pos + n] {
                    cx.violate("wrong_value", &format!("{}.{}", name, if refusals > 0 { "after_refusal" } else { "read" }), format!("{} at {} returned {} instead of {} ({} refused call(s) before)", what, pos, short_bytes(&b), short_bytes(&data[pos..pos + n]), refusals));
                    return;
                }
                pos += n;
                cx.ev(format!("{} -> ok, cursor {}", what, pos));
            }
            Err(e) => {
                if fits {
                    cx.violate("unexpected_error", &format!("{}.{}", name, if refusals > 0 { "after_refusal" } else { "read" }), format!("{} at {} with {} bytes remaining failed ({} refused call(s) before): {}", what, pos, rem, refusals, clip(&e)));
                    return;
                }
                refusals += 1;
                cx.probe(if n > len + 8 { "refused_huge" } else { "refused" });
                cx.ev(format!("{} at {} ({} remain) -> Err (refused)", what, pos, rem));
                if !positioned {
                    unknown = Some(pos);
                    continue;
                }
            }
        }
        // the cursor as every view of the back end shows it
        let (p, tp, hr) = (inp.pos(), inp.inp().position(), inp.inp().has_remaining());
        let cursor_ok = p == pos as u64 && tp.map_or(true, |q| q == pos as u64) && hr.map_or(true, |h| h == (pos < len));
        // (the slice-returning views are only asked once the cursor itself is known to be in bounds)
        let views = if cursor_ok { inp.views(&data, pos) } else { None };
        if !cursor_ok || views.is_some() {
            let (class, site) = if refusals > 0 { ("refused_op_consumed", format!("{}.after_refusal", name)) } else { ("wrong_position", format!("{}.read", name)) };
            cx.violate(class, &site, format!("after {} the cursor is {} of {} ({} refused call(s) so far) but pos()={} position()={:?} has_remaining()={:?} {}", what, pos, len, refusals, p, tp, hr, views.unwrap_or_default()));
            return;
        }
    }
    cx.cell(format!("refused/{}/{}", name, if refusals > 0 { "refused" } else { "none" }));
    cx.nontrivial = ops.len() >= 3;
}

// ---------------------------------------------------------------------------------------
// scenarios

enum Kind {
    Typed(Be, bool, Fam),
    SbReader(bool),
    SbWriter(bool),
    ZcReader(bool),
    ZcWriter(bool),
    SeekSbReader,
    SeekSbWriter,
    SeekRangeReader,
    SeekRangeWriter,
    MmapInput,
    CodecVarInt,
    CodecSimdVarint,
    CodecStrategySingle,
    CodecStrategySequence,
    CodecEndian,
    Sessions,
    VecReuse,
    RefusedOps,
}
struct Sc {
    name: &'static str,
    kind: Kind,
    quick: u64,
}
impl Scenario for Sc {
    fn name(&self) -> String {
        self.name.to_string()
    }
    fn budget(&self, tier: Tier) -> u64 {
        match tier {
            Tier::Quick => self.quick * 12,
            Tier::Thorough => self.quick * 400,
        }
    }
    fn run(&self, cx: &mut Run) {
        match self.kind {
            Kind::Typed(be, hard, fam) => typed_run(cx, be, hard, fam),
            Kind::SbReader(h) => api_sb_reader(cx, h),
            Kind::SbWriter(h) => api_sb_writer(cx, h),
            Kind::ZcReader(h) => api_zc_reader(cx, h),
            Kind::ZcWriter(h) => api_zc_writer(cx, h),
            Kind::SeekSbReader => seek_sb_reader(cx),
            Kind::SeekSbWriter => seek_sb_writer(cx),
            Kind::SeekRangeReader => seek_range_reader(cx),
            Kind::SeekRangeWriter => seek_range_writer(cx),
            Kind::MmapInput => api_mmap_input(cx),
            Kind::CodecVarInt => codec_var_int(cx),
            Kind::CodecSimdVarint => codec_simd_varint(cx),
            Kind::CodecStrategySingle => codec_strategy_single(cx),
            Kind::CodecStrategySequence => codec_strategy_sequence(cx),
            Kind::CodecEndian => codec_endian(cx),
            Kind::Sessions => sessions_run(cx),
            Kind::VecReuse => vec_reuse(cx),
            Kind::RefusedOps => refused_ops(cx),
        }
    }
}

/// Value-family scenarios run over the plain or the buffered back end, chosen per run.
struct Values {
    name: &'static str,
    fam: Fam,
    quick: u64,
}
impl Scenario for Values {
    fn name(&self) -> String {
        self.name.to_string()
    }
    fn budget(&self, tier: Tier) -> u64 {
        match tier {
            Tier::Quick => self.quick * 12,
            Tier::Thorough => self.quick * 400,
        }
    }
    fn run(&self, cx: &mut Run) {
        let be = [Be::Plain, Be::Buffered, Be::ZeroCopy, Be::SliceVec][cx.src.chan("cfg").below(4) as usize];
        typed_run(cx, be, false, self.fam)
    }
}

// ---- MultiRangeReader driven through its own API (the typed scenarios only see it as a `Read`)

/// Ranges that touch, overlap or leave gaps; `next_range()` called by the caller with part of the
/// current range unread; ranges added while reading.  Every byte of the medium is a function of its
/// position, so each byte a read returns is attributable.
struct MultiRangeApi;

impl Scenario for MultiRangeApi {
    fn name(&self) -> String {
        "range/multi_range_api".into()
    }
    fn budget(&self, tier: Tier) -> u64 {
        match tier {
            Tier::Quick => 30_000,
            Tier::Thorough => 1_000_000,
        }
    }
    fn run(&self, cx: &mut Run) {
        let cfg = cx.src.chan("cfg");
        let n = 40 + cfg.below(200) as usize;
        let medium: Vec<u8> = (0..n).map(|i| (i as u8).wrapping_mul(7).wrapping_add(3)).collect();
        // ranges: each starts where the previous one ended (adjacent), after a gap, or inside it (overlap)
        let nr = 1 + cfg.below(4) as usize;
        let mut ranges: Vec<(u64, u64)> = vec![];
        let mut at = cfg.below(8);
        for _ in 0..nr {
            let start = match cfg.below(4) {
                0 | 1 => at,
                2 => at + 1 + cfg.below(9),
                _ => at.saturating_sub(1 + cfg.below(4)),
            };
            let len = cfg.below(12);
            let end = (start + len).min(n as u64);
            let start = start.min(end);
            ranges.push((start, end));
            at = end;
        }
        cx.ev(format!("medium of {} bytes, ranges {:?}", n, ranges));
        let mut rd = MultiRangeReader::new(Cursor::new(medium.clone()), ranges.clone());
        // model
        let mut cur = 0usize;
        let mut pos = 0u64;
        let planned = 3 + cfg.below(14);
        let mut ops = cx.src.ops("ops", planned);
        let mut nops = 0u64;
        while let Some(o) = ops.next() {
            nops += 1;
            match o[0] % 8 {
                0 | 1 | 2 | 3 => {
                    let want = [0usize, 1, 2, 3, 5, 8, 20][(o[1] % 7) as usize];
                    let mut buf = vec![0xEEu8; want];
                    let got = rd.read(&mut buf);
                    // model: skip exhausted ranges, then read within the current one
                    while cur < ranges.len() && ranges[cur].0 + pos >= ranges[cur].1 {
                        if cur + 1 < ranges.len() {
                            cur += 1;
                            pos = 0;
                        } else {
                            break;
                        }
                    }
                    let expect: Vec<u8> = if cur < ranges.len() && ranges[cur].0 + pos < ranges[cur].1 {
                        let a = (ranges[cur].0 + pos) as usize;
                        let k = want.min((ranges[cur].1 - ranges[cur].0 - pos) as usize);
                        medium[a..a + k].to_vec()
                    } else {
                        vec![]
                    };
                    match got {
                        Ok(k) => {
                            cx.ev(format!("read({}) -> {} bytes", want, k));
                            // a Read may return fewer bytes than asked for, never other bytes
                            if k > expect.len() || buf[..k] != expect[..k] || (k == 0 && want > 0 && !expect.is_empty()) {
                                cx.violate("wrong_value", "MultiRangeReader.read", format!("read({}) in range #{} {:?} at offset {} returned {:?}, the medium holds {:?} there", want, cur, ranges.get(cur), pos, &buf[..k.min(want)], expect));
                                return;
                            }
                            pos += k as u64;
                        }
                        Err(e) => {
                            cx.violate("unexpected_error", "MultiRangeReader.read", format!("read({}) failed on an in-memory medium: {}", want, e));
                            return;
                        }
                    }
                }
                4 | 5 => {
                    let r = rd.next_range();
                    let m = cur + 1 < ranges.len();
                    cx.ev(format!("next_range() -> {} (range #{} had {} of {} bytes read)", r, cur, pos, ranges.get(cur).map(|x| x.1 - x.0).unwrap_or(0)));
                    if m {
                        if ranges[cur].0 + pos < ranges[cur].1 {
                            cx.probe("next_range_with_bytes_unread");
                        }
                        cur += 1;
                        pos = 0;
                    }
                    if r != m {
                        cx.violate("wrong_value", "MultiRangeReader.next_range", format!("next_range() = {} with {} ranges and range #{} current", r, ranges.len(), cur));
                        return;
                    }
                }
                6 => {
                    let start = (o[1] % (n as u64 + 1)).min(n as u64);
                    let end = (start + o[2] % 10).min(n as u64);
                    rd.add_range(start, end);
                    ranges.push((start, end));
                    cx.ev(format!("add_range({}, {})", start, end));
                }
                _ => {
                    let (c, t) = (rd.current_range(), rd.total_length());
                    let mt: u64 = ranges.iter().map(|r| r.1 - r.0).sum();
                    cx.ev(format!("current_range() -> {:?}, total_length() -> {}", c, t));
                    if t != mt {
                        cx.violate("wrong_value", "MultiRangeReader.total_length", format!("total_length() = {} for ranges {:?}", t, ranges));
                        return;
                    }
                    // (current_range may lag behind the model while the reader has not yet stepped over an
                    // exhausted range: only a range the model has not reached yet would be wrong)
                    if let Some(c) = c {
                        if !ranges[..=cur.min(ranges.len() - 1)].contains(&c) {
                            cx.violate("wrong_value", "MultiRangeReader.current_range", format!("current_range() = {:?}, the model is at range #{} of {:?}", c, cur, ranges));
                            return;
                        }
                    }
                }
            }
        }
        cx.steps = nops;
        cx.nontrivial = nops >= 3;
    }
}

fn main() {
    let mut spec = CheckSpec::new(
        "C13",
        "exploration",
        "seeded typed value sequences x seeded writer/reader stacks x seeded benign (clean) or hard (faulty) stream faults; \
         plus pure codec scenarios (related integers x strategies), multi-session files and refused-operation histories; \
         non-trivial = at least 2 values written and read back (API scenarios: at least 3 operations); \
         distinct = distinct hash of (configuration, operations, observed results, injected faults)",
    );
    spec.assumptions = vec![
        "the slice-only codecs (VarInt, SignedVarInt, VarIntEncoder strategies, SimdVarintCodec, EndianConvert/EndianIO) are exercised by the codec/* scenarios as pure functions: related integers under a per-run bit-width cap, every single-value decoder sees its value followed by the next encoding; the SIMD tier is the host's".into(),
        "a refused call (more bytes asked for than remain) must leave positioned inputs (slice, mmap, MemoryMappedInput, RangeReader's DataInput) where they were; after a refused call on a Read-backed input only 'no panic, nothing invented' is demanded".into(),
        "two encoders/decoders that zipora names for the same byte order (to_be / EndianIO::big_endian / convert_slice_to_endian(Big) / simd converters) are treated as corresponding pairs".into(),
        "hard faults are injected on one side per run (writer or reader); the other side sees benign short transfers only".into(),
        "a live rc::Weak / sync::Weak is checked for byte consumption only (a stand-alone decoded Weak cannot own its referent)".into(),
        "Version values stay within the documented packed format 0xMMmmpppp (major, minor <= 255)".into(),
        "file-backed back ends (FileDataOutput, MemoryMappedOutput, MmapDataInput, MemoryMappedInput, MmapZeroCopyReader) run on real files in /dev/shm without fault injection".into(),
    ];
    spec.components = vec![
        ("io::data_input / data_output / var_int", "real"),
        ("io::var_int_variants, simd_encoding::varint", "real (pure, codec/* scenarios)"),
        ("io::stream_buffer, range_stream, zero_copy, mmap", "real"),
        ("io::complex_types, smart_ptr, versioning, endian", "real"),
        ("storage medium", "stub (in-memory Cursor behind FaultyRead/FaultyWrite; real files in /dev/shm for the mmap back ends)"),
    ];
    spec.init = zsim_props::install_hooks;
    let typed: [(&'static str, Be, bool, u64); 14] = [
        ("reader_writer/clean", Be::Plain, false, 3000),
        ("reader_writer/faulty", Be::Plain, true, 3000),
        ("stream_buffer/typed_clean", Be::Buffered, false, 3500),
        ("stream_buffer/typed_faulty", Be::Buffered, true, 3500),
        ("zero_copy/typed_clean", Be::ZeroCopy, false, 3000),
        ("zero_copy/typed_faulty", Be::ZeroCopy, true, 3000),
        ("range/typed_clean", Be::Range, false, 2500),
        ("range/typed_faulty", Be::Range, true, 2500),
        ("multi_range/clean", Be::MultiRange, false, 3000),
        ("multi_range/faulty", Be::MultiRange, true, 3000),
        ("stacked/clean", Be::Stacked, false, 3500),
        ("stacked/faulty", Be::Stacked, true, 3500),
        ("slice_vec/clean", Be::SliceVec, false, 1500),
        ("file_mmap/clean", Be::File, false, 2000),
    ];
    for (name, be, hard, quick) in typed {
        spec.scenarios.push(Box::new(Sc { name, kind: Kind::Typed(be, hard, Fam::Prim), quick }));
    }
    for (name, fam, quick) in [
        ("values/complex", Fam::Complex, 3500u64),
        ("values/smart_ptr", Fam::Smart, 3000),
        ("values/smart_ptr_weak", Fam::SmartWeak, 1000),
        ("values/versioned", Fam::Versioned, 2500),
        ("values/versioned_struct", Fam::VersionedStruct, 800),
    ] {
        spec.scenarios.push(Box::new(Values { name, fam, quick }));
    }
    for (name, kind, quick) in [
        ("stream_buffer/reader_api_clean", Kind::SbReader(false), 5000u64),
        ("stream_buffer/reader_api_faulty", Kind::SbReader(true), 5000),
        ("stream_buffer/writer_api_clean", Kind::SbWriter(false), 3500),
        ("stream_buffer/writer_api_faulty", Kind::SbWriter(true), 3500),
        ("stream_buffer/reader_seek", Kind::SeekSbReader, 3000),
        ("stream_buffer/writer_seek", Kind::SeekSbWriter, 3000),
        ("zero_copy/reader_api_clean", Kind::ZcReader(false), 4500),
        ("zero_copy/reader_api_faulty", Kind::ZcReader(true), 4500),
        ("zero_copy/writer_api_clean", Kind::ZcWriter(false), 3500),
        ("zero_copy/writer_api_faulty", Kind::ZcWriter(true), 3500),
        ("range/reader_seek", Kind::SeekRangeReader, 3500),
        ("range/writer_seek", Kind::SeekRangeWriter, 3500),
        ("file_mmap/input_api", Kind::MmapInput, 2000),
        ("codec/var_int", Kind::CodecVarInt, 3000),
        ("codec/simd_varint", Kind::CodecSimdVarint, 2500),
        ("codec/strategy_single", Kind::CodecStrategySingle, 3500),
        ("codec/strategy_sequence", Kind::CodecStrategySequence, 4000),
        ("codec/endian", Kind::CodecEndian, 2500),
        ("file_mmap/sessions", Kind::Sessions, 1500),
        ("slice_vec/reuse", Kind::VecReuse, 1500),
        ("inputs/refused_ops", Kind::RefusedOps, 4000),
    ] {
        spec.scenarios.push(Box::new(Sc { name, kind, quick }));
    }
    spec.scenarios.push(Box::new(MultiRangeApi));
    zsim_core::driver::main(spec);
}
