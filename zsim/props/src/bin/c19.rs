//! C19 — file-backed structures reopen as written; damaged files are refused (engine E4 + E5).
//!
//! One run = one seeded operation history against the real structure in a scratch directory,
//! with the file image and the reference model's logical state snapshotted at every durable
//! point S0..Sn, followed by
//!   case zero: a clean reopen, which must reproduce the last durable state exactly, and
//!   one *image family* (chosen per run) built from one transition S(t-1) -> S(t):
//!     trunc      every prefix of the new image (all lengths up to 4 KiB, then every 512-byte
//!                boundary -1/0/+1)
//!     zero_tail  the new length, the new bytes up to a 512-byte boundary, zeros behind it
//!     old_ext    the old image cut / zero-extended to the new length
//!     block      the new image with ONE 512 B or 4 KiB block rolled back to its pre-write content
//!     hdr_data   header block (first 512 B / 4 KiB) from one side, data blocks from the other
//!                (both directions)
//!   Mixtures are made of whole 512 B / 4 KiB blocks only (the statement speaks of blocks);
//!   cutting short is done at every byte (the statement says so).
//! Every image is recovered in-process (open + read everything) under catch_unwind.
//!
//! Oracle (no stricter than the statement): `Err` from open/load or from any later read is
//! always fine; a complete error-free read-out must equal the logical state at SOME durable
//! point S0..St; panic / crash / allocation blow-up / hang are violations.  Byte rot is NOT
//! part of C19's statement (it is C15's) and is not generated here.

use std::collections::BTreeMap;
use std::panic::{catch_unwind, AssertUnwindSafe};
use std::path::{Path, PathBuf};
use zsim_core::{Chan, CheckSpec, Run, Scenario, Tier};

// ---------------------------------------------------------------------------------------
// An "electric fence" around zipora's own anonymous mmap() calls.
//
// `MmapVec` takes its buffer from `MemoryMappedAllocator` (memory/mmap.rs), which calls
// `libc::mmap` directly, and never gives it back (MmapAllocation has no Drop): every open
// costs 64 KiB of address space for good.  One run of this check reopens thousands of images,
// so without help the worker's RLIMIT_AS would be exhausted by the leak and `open` would start
// to answer Err for a reason that has nothing to do with the image.  The executable therefore
// defines `mmap` itself (symbols of the executable win over libc's at link time; glibc's own
// internal calls are not affected): while tracking is switched on for the current thread,
// anonymous private mappings are recorded so that the harness can unmap them once the
// structure that owned them is gone, and one PROT_NONE page is placed behind each of them, so
// that an access beyond the mapping zipora asked for faults deterministically instead of
// reading whatever happens to be mapped next.
mod fence {
    use std::cell::{Cell, RefCell};

    thread_local! {
        static ON: Cell<bool> = const { Cell::new(false) };
        static REGIONS: RefCell<Vec<(usize, usize)>> = const { RefCell::new(Vec::new()) };
    }
    const PAGE: usize = 4096;

    unsafe fn raw(addr: *mut libc::c_void, len: libc::size_t, prot: libc::c_int, flags: libc::c_int, fd: libc::c_int, off: libc::off_t) -> *mut libc::c_void {
        libc::syscall(libc::SYS_mmap, addr, len, prot, flags, fd, off) as *mut libc::c_void
    }

    #[no_mangle]
    pub unsafe extern "C" fn mmap(addr: *mut libc::c_void, len: libc::size_t, prot: libc::c_int, flags: libc::c_int, fd: libc::c_int, off: libc::off_t) -> *mut libc::c_void {
        let anon = fd == -1 && addr.is_null() && (flags & libc::MAP_ANONYMOUS) != 0 && (flags & libc::MAP_PRIVATE) != 0;
        let track = anon && len >= PAGE && ON.try_with(|c| c.get()).unwrap_or(false);
        if !track {
            return raw(addr, len, prot, flags, fd, off);
        }
        let rounded = (len + PAGE - 1) & !(PAGE - 1);
        let p = raw(std::ptr::null_mut(), rounded + PAGE, prot, flags, -1, 0);
        if p == libc::MAP_FAILED {
            return p;
        }
        libc::mprotect((p as *mut u8).add(rounded) as *mut libc::c_void, PAGE, libc::PROT_NONE);
        let _ = REGIONS.try_with(|r| r.borrow_mut().push((p as usize, rounded + PAGE)));
        p
    }

    pub fn on(v: bool) {
        ON.with(|c| c.set(v));
    }
    pub fn mark() -> usize {
        REGIONS.with(|r| r.borrow().len())
    }
    /// Unmap every tracked region created since `mark`.  Only call when the owners are gone.
    pub fn release_since(mark: usize) {
        let tail: Vec<(usize, usize)> = REGIONS.with(|r| {
            let mut r = r.borrow_mut();
            if mark >= r.len() {
                vec![]
            } else {
                r.split_off(mark)
            }
        });
        for (p, l) in tail {
            unsafe {
                libc::munmap(p as *mut libc::c_void, l);
            }
        }
    }
    /// Is the interposition live in this executable?
    pub fn selftest() -> bool {
        let was = ON.with(|c| c.replace(true));
        let m = mark();
        let p = unsafe { libc::mmap(std::ptr::null_mut(), 65536, libc::PROT_READ | libc::PROT_WRITE, libc::MAP_PRIVATE | libc::MAP_ANONYMOUS, -1, 0) };
        let ok = p != libc::MAP_FAILED && mark() == m + 1;
        if ok {
            release_since(m);
        } else if p != libc::MAP_FAILED {
            unsafe {
                libc::munmap(p, 65536);
            }
        }
        ON.with(|c| c.set(was));
        ok
    }
}

// ---------------------------------------------------------------------------------------
// scratch directory

struct Scratch(PathBuf);

/// A run that kills its process cannot remove its scratch directory; the next process to start
/// removes the directories of processes that no longer exist.
fn sweep_stale_scratch() {
    static ONCE: std::sync::Once = std::sync::Once::new();
    ONCE.call_once(|| {
        if let Ok(rd) = std::fs::read_dir(std::env::temp_dir()) {
            for e in rd.flatten() {
                let name = e.file_name().to_string_lossy().to_string();
                if let Some(rest) = name.strip_prefix("zsim-c19-") {
                    if let Some(pid) = rest.split('-').next().and_then(|p| p.parse::<u32>().ok()) {
                        if pid != std::process::id() && !Path::new(&format!("/proc/{}", pid)).exists() {
                            let _ = std::fs::remove_dir_all(e.path());
                        }
                    }
                }
            }
        }
    });
}

impl Scratch {
    fn new(cx: &Run, tag: &str) -> Scratch {
        sweep_stale_scratch();
        let d = std::env::temp_dir().join(format!("zsim-c19-{}-{:016x}-{}", std::process::id(), cx.src.seed, tag));
        let _ = std::fs::remove_dir_all(&d);
        std::fs::create_dir_all(&d).expect("scratch dir");
        Scratch(d)
    }
    fn path(&self, name: &str) -> PathBuf {
        self.0.join(name)
    }
}

impl Drop for Scratch {
    fn drop(&mut self) {
        let _ = std::fs::remove_dir_all(&self.0);
    }
}

// ---------------------------------------------------------------------------------------
// cases, outcomes, verdicts

enum Outcome<S> {
    Refused,
    Ok(S),
    Panic(String, String),
}

/// Run one recovery: descriptor to stderr first (a death is then attributable to this case),
/// then the recovery itself under catch_unwind.
fn recover<S>(scen: &str, desc: &str, f: impl FnOnce() -> Result<S, String>) -> Outcome<S> {
    eprintln!("E4 case: {} {}", scen, desc);
    match catch_unwind(AssertUnwindSafe(f)) {
        Ok(Ok(s)) => Outcome::Ok(s),
        Ok(Err(_)) => Outcome::Refused,
        Err(_) => {
            let (loc, msg) = zsim_core::e1::LAST_PANIC.with(|l| l.borrow_mut().take()).unwrap_or_else(|| ("<unknown>".into(), "<no message>".into()));
            Outcome::Panic(loc, msg)
        }
    }
}

const PRIO_PANIC: u8 = 3;
const PRIO_CLEAN: u8 = 2;
const PRIO_IMAGE: u8 = 1;

/// Violations seen in one run.  All cases of the run execute; the one reported is the most
/// severe (panic > clean reopen > damaged image), first seen among equals.
#[derive(Default)]
struct Verdicts {
    list: Vec<(u8, String, String, String)>,
}

impl Verdicts {
    fn add(&mut self, prio: u8, class: &str, site: &str, detail: String) {
        if !self.list.iter().any(|v| v.1 == class && v.2 == site) {
            self.list.push((prio, class.to_string(), site.to_string(), detail));
        }
    }
    fn report(self, cx: &mut Run) {
        let mut best: Option<&(u8, String, String, String)> = None;
        for v in &self.list {
            if best.map(|b| v.0 > b.0).unwrap_or(true) {
                best = Some(v);
            }
        }
        if let Some(v) = best {
            cx.violate(&v.1, &v.2, v.3.clone());
        }
    }
}

/// Per-family tally; one event line per family keeps the trace readable.
#[derive(Default)]
struct Tally {
    images: u64,
    refused: u64,
    ok_at: BTreeMap<usize, u64>,
    bad: u64,
    panics: u64,
}

/// Judge one recovered image against the durable states `states[0..]` (index = durable point).
fn judge<S: PartialEq>(
    cx: &mut Run,
    v: &mut Verdicts,
    t: &mut Tally,
    target: &str,
    fam: &str,
    desc: &str,
    out: Outcome<S>,
    states: &[(usize, &S)],
    show: &dyn Fn(&S) -> String,
) {
    t.images += 1;
    match out {
        Outcome::Refused => {
            t.refused += 1;
            cx.cell(format!("{}/{}/refused", target, fam));
        }
        Outcome::Ok(s) => match states.iter().rev().find(|(_, st)| **st == s) {
            Some((i, _)) => {
                *t.ok_at.entry(*i).or_insert(0) += 1;
                cx.cell(format!("{}/{}/ok_durable", target, fam));
            }
            None => {
                t.bad += 1;
                cx.cell(format!("{}/{}/never_durable", target, fam));
                if t.bad <= 3 {
                    cx.ev(format!("  {} {}: opened without error as {} - valid at no durable point", fam, desc, show(&s)));
                }
                v.add(
                    PRIO_IMAGE,
                    "state_never_durable",
                    &format!("{}.reopen/{}", target, fam),
                    format!("image [{}] reopened and read without any error as {}, which was the logical state at no durable point (S0..S{})", desc, show(&s), states.last().map(|x| x.0).unwrap_or(0)),
                );
            }
        },
        Outcome::Panic(loc, msg) => {
            t.panics += 1;
            cx.cell(format!("{}/{}/panic", target, fam));
            if t.panics <= 3 {
                cx.ev(format!("  {} {}: PANIC at {} ({})", fam, desc, loc, msg));
            }
            v.add(PRIO_PANIC, "panic", &loc, format!("{} image [{}]: {}", target, desc, msg));
        }
    }
}

fn tally_event(cx: &mut Run, fam: &str, t: &Tally) {
    let oks: Vec<String> = t.ok_at.iter().map(|(i, n)| format!("S{}x{}", i, n)).collect();
    cx.ev(format!("family {}: {} images -> refused={} ok_durable=[{}] never_durable={} panics={}", fam, t.images, t.refused, oks.join(","), t.bad, t.panics));
    *cx.faults.entry(fam.to_string()).or_insert(0) += t.images;
    cx.probe_n("images_recovered", t.images);
    cx.probe_n("images_refused", t.refused);
    cx.probe_n("images_ok_as_durable_state", t.ok_at.values().sum());
    cx.probe_n("images_ok_as_never_durable_state", t.bad);
}

/// The clean reopen (case zero): must be Ok and equal to `want`.
fn judge_clean<S: PartialEq>(cx: &mut Run, v: &mut Verdicts, target: &str, what: &str, out: Outcome<S>, want: &S, show: &dyn Fn(&S) -> String) -> bool {
    cx.probe("clean_reopens");
    match out {
        Outcome::Ok(s) if s == *want => {
            cx.cell(format!("{}/clean/ok", target));
            true
        }
        Outcome::Ok(s) => {
            cx.cell(format!("{}/clean/mismatch", target));
            cx.ev(format!("  clean reopen {}: got {} want {}", what, show(&s), show(want)));
            v.add(PRIO_CLEAN, "clean_reopen_mismatch", &format!("{}.reopen/clean", target), format!("{}: undamaged file reopened as {} but the last durable state was {}", what, show(&s), show(want)));
            false
        }
        Outcome::Refused => {
            cx.cell(format!("{}/clean/refused", target));
            cx.ev(format!("  clean reopen {}: refused, want {}", what, show(want)));
            v.add(PRIO_CLEAN, "clean_reopen_refused", &format!("{}.reopen/clean", target), format!("{}: undamaged file was refused; the last durable state was {}", what, show(want)));
            false
        }
        Outcome::Panic(loc, msg) => {
            cx.cell(format!("{}/clean/panic", target));
            cx.ev(format!("  clean reopen {}: PANIC at {} ({})", what, loc, msg));
            v.add(PRIO_PANIC, "panic", &loc, format!("{} clean reopen {}: {}", target, what, msg));
            false
        }
    }
}

// ---------------------------------------------------------------------------------------
// image families for single-file structures

#[derive(Clone, Copy, PartialEq, Debug)]
enum Fam {
    Trunc,
    ZeroTail,
    OldExt,
    Block,
    HdrData,
}

impl Fam {
    fn name(self) -> &'static str {
        match self {
            Fam::Trunc => "trunc",
            Fam::ZeroTail => "zero_tail",
            Fam::OldExt => "old_ext",
            Fam::Block => "block",
            Fam::HdrData => "hdr_data",
        }
    }
}

/// Every truncation length of an n-byte file: all of them up to 4 KiB, then every 512-byte
/// boundary -1/0/+1, and n-1.  (n itself is the undamaged file.)
fn trunc_lengths(n: usize) -> Vec<usize> {
    let mut v: Vec<usize> = (0..n.min(4097)).collect();
    // (a file far larger than anything the histories here are meant to produce - a defect in a
    // writer can do that - is sampled at a coarser stride instead of stalling the run)
    let stride = if n <= 256 * 1024 { 512 } else { (n / 512 / 512 + 1) * 512 };
    let mut b = 4608;
    while b <= n + 1 {
        for l in [b - 1, b, b + 1] {
            if l < n {
                v.push(l);
            }
        }
        b += stride;
    }
    if n > 0 {
        v.push(n - 1);
    }
    v.sort_unstable();
    v.dedup();
    v
}

fn old_byte(old: Option<&[u8]>, i: usize) -> u8 {
    old.and_then(|o| o.get(i).copied()).unwrap_or(0)
}

/// Enumerate the images of one family for the transition old -> new.
fn for_each_image(fam: Fam, old: Option<&[u8]>, new: &[u8], fault: &Chan, f: &mut dyn FnMut(&str, &[u8])) {
    let n = new.len();
    match fam {
        Fam::Trunc => {
            for l in trunc_lengths(n) {
                f(&format!("cut at {} of {}", l, n), &new[..l]);
            }
        }
        Fam::ZeroTail => {
            // blocks reach the disk whole: the written prefix ends on a 512-byte boundary
            let _ = fault;
            let mut img = vec![0u8; n];
            for k in (0..n).step_by(512 * (n / 512 / 512 + 1)) {
                img.iter_mut().for_each(|b| *b = 0);
                img[..k].copy_from_slice(&new[..k]);
                f(&format!("new bytes 0..{} then zeros to {}", k, n), &img);
            }
        }
        Fam::OldExt => {
            let o = old.unwrap_or(&[]);
            let mut img = vec![0u8; n];
            let k = o.len().min(n);
            img[..k].copy_from_slice(&o[..k]);
            f(&format!("old image ({} bytes) at the new length {}", o.len(), n), &img);
            // and the old length with the new bytes (set_len not yet done / done first)
            let m = o.len();
            let mut img2 = vec![0u8; m];
            let k2 = m.min(n);
            img2[..k2].copy_from_slice(&new[..k2]);
            f(&format!("new bytes at the old length {}", m), &img2);
        }
        Fam::Block => {
            for bs in [512usize, 4096] {
                let mut b = 0;
                let step = n / bs / 512 + 1;
                while b * bs < n {
                    let lo = b * bs;
                    let hi = (lo + bs).min(n);
                    let differs = (lo..hi).any(|i| new[i] != old_byte(old, i));
                    if differs {
                        let mut img = new.to_vec();
                        for i in lo..hi {
                            img[i] = old_byte(old, i);
                        }
                        f(&format!("{}-byte block {} rolled back to its pre-write content", bs, b), &img);
                    }
                    b += step;
                }
            }
        }
        Fam::HdrData => {
            for bs in [512usize, 4096] {
                if n <= bs {
                    continue;
                }
                let mut a = new.to_vec();
                for i in bs..n {
                    a[i] = old_byte(old, i);
                }
                f(&format!("first {} bytes new, the rest pre-write content", bs), &a);
                let mut b = new.to_vec();
                for i in 0..bs {
                    b[i] = old_byte(old, i);
                }
                f(&format!("first {} bytes pre-write content, the rest new", bs), &b);
            }
        }
    }
}

fn pick_family(cfg: &Chan, fams: &[Fam]) -> Fam {
    // index 0 (trunc) is what the shrinker converges to, and the family the statement spells out
    let w: Vec<u32> = (0..fams.len()).map(|i| if i == 0 { 3 } else { 1 }).collect();
    fams[cfg.weighted(&w)]
}

const ALL_FAMS: [Fam; 5] = [Fam::Trunc, Fam::ZeroTail, Fam::OldExt, Fam::Block, Fam::HdrData];

fn hex(v: &[u8], max: usize) -> String {
    let mut s = String::new();
    for b in v.iter().take(max) {
        s.push_str(&format!("{:02x}", b));
    }
    if v.len() > max {
        s.push_str(&format!("..({} bytes)", v.len()));
    }
    s
}

/// Values whose every byte is non-zero and which are unique per counter.
fn uval(c: u64) -> u64 {
    let mut v = 0u64;
    for i in 0..8 {
        v |= (0x80 | ((c >> (7 * i)) & 0x7f)) << (8 * i);
    }
    v
}

// =======================================================================================
// MmapVec

use zipora::memory::{MmapVec, MmapVecConfig};

struct MmapVecSc {
    large: bool,
}

type VecState = Vec<u64>;

fn show_vec(v: &VecState) -> String {
    let head: Vec<String> = v.iter().take(6).map(|x| format!("{:x}", x)).collect();
    format!("len {} [{}{}]", v.len(), head.join(","), if v.len() > 6 { ",.." } else { "" })
}

fn mmapvec_readout(path: &Path) -> Result<VecState, String> {
    let v = MmapVec::<u64>::open(path, MmapVecConfig::default()).map_err(|e| e.to_string())?;
    let n = v.len();
    let s = v.as_slice().to_vec();
    if s.len() != n {
        return Err("as_slice length differs from len()".into());
    }
    for i in [0usize, n / 2, n.saturating_sub(1)] {
        if i < n && v.get(i).copied() != Some(s[i]) {
            return Err("get() differs from as_slice()".into());
        }
    }
    if v.get(n).is_some() {
        return Err("get(len) is Some".into());
    }
    Ok(s)
}

/// A recovery of an MmapVec image, with the mapping it leaks given back afterwards.
fn mmapvec_recover(scen: &str, desc: &str, path: &Path) -> Outcome<VecState> {
    let m = fence::mark();
    let o = recover(scen, desc, || mmapvec_readout(path));
    fence::release_since(m);
    o
}

/// Continued use of a reopened image: fill the vector up to the capacity it reports (no growth
/// is needed for that), sync, reopen.  Ok((pushed, final content)); Err = some call reported an error.
fn mmapvec_continue(path: &Path, limit: usize) -> Result<(Vec<u64>, VecState), String> {
    let mut v = MmapVec::<u64>::open(path, MmapVecConfig::default()).map_err(|e| e.to_string())?;
    let room = v.capacity().saturating_sub(v.len()).min(limit);
    let mut pushed = vec![];
    for i in 0..room {
        let x = uval(0x7000_0000 + i as u64);
        v.push(x).map_err(|e| e.to_string())?;
        pushed.push(x);
    }
    v.sync().map_err(|e| e.to_string())?;
    drop(v);
    let w = MmapVec::<u64>::open(path, MmapVecConfig::default()).map_err(|e| e.to_string())?;
    Ok((pushed, w.as_slice().to_vec()))
}

struct Snap<S> {
    bytes: Vec<u8>,
    /// logical state at this durable point (None: no file / nothing there yet)
    state: Option<S>,
    /// false: the structure's own open is not expected to accept this file (created, never synced)
    openable: bool,
    how: String,
}

impl Scenario for MmapVecSc {
    fn name(&self) -> String {
        if self.large { "MmapVec/large".into() } else { "MmapVec/history".into() }
    }
    fn budget(&self, tier: Tier) -> u64 {
        match (self.large, tier) {
            (false, Tier::Quick) => 4000,
            (false, Tier::Thorough) => 160_000,
            (true, Tier::Quick) => 32,
            (true, Tier::Thorough) => 480,
        }
    }
    fn run(&self, cx: &mut Run) {
        let scen = self.name();
        let cfg = cx.src.chan("cfg");
        let fault = cx.src.chan("fault");
        let fam = if self.large { Fam::Trunc } else { pick_family(&cfg, &ALL_FAMS) };
        let cap0 = if self.large { 8200 + cfg.below(400) as usize } else { *cfg.pick(&[1usize, 2, 3, 4, 8, 70, 130]) };
        let gf = *cfg.pick(&[1.5f64, 2.0, 1.618]);
        let sow = !self.large && cfg.chance(1, 5);
        let planned = if self.large { 2 } else { 4 + cfg.below(12) };
        let which_t = if self.large { 0 } else { cfg.small(8) };
        let scratch = Scratch::new(cx, "mmapvec");
        let path = scratch.path("v.mmv");
        let img = scratch.path("img.mmv");
        let mut v = Verdicts::default();
        fence::on(true);
        let mark0 = fence::mark();
        let config = || MmapVecConfig { initial_capacity: cap0, growth_factor: gf, sync_on_write: sow, ..MmapVecConfig::default() };
        cx.ev(format!("create MmapVec<u64> initial_capacity={} growth_factor={} sync_on_write={}", cap0, gf, sow));
        let mut vec = match MmapVec::<u64>::create(&path, config()) {
            Ok(x) => Some(x),
            Err(e) => {
                cx.ev(format!("create failed: {}", e));
                None
            }
        };
        let mut mem: VecState = vec![];
        let mut snaps: Vec<Snap<VecState>> = vec![];
        // S0: `create` writes and fsyncs a zero-filled file; the vector is empty then.  The file is
        // not openable yet (no header), but "empty" is what the structure held at that point, so
        // a damaged image that reads back as the empty vector is not held against it.
        snaps.push(Snap { bytes: std::fs::read(&path).unwrap_or_default(), state: Some(vec![]), openable: false, how: "create".into() });
        let mut ctr = 0u64;
        let mut fresh = |k: usize| -> Vec<u64> {
            (0..k)
                .map(|_| {
                    ctr += 1;
                    uval(ctr)
                })
                .collect()
        };
        let mut ops = cx.src.ops("ops", planned);
        let mut nops = 0u64;
        let mut first = true;
        while let (Some(o), true) = (ops.next(), vec.is_some()) {
            nops += 1;
            let h = vec.as_mut().unwrap();
            // states that existed while the operation ran: an implicit sync (growth,
            // sync_on_write) may have made any of them durable
            let mut cands: Vec<VecState> = vec![mem.clone()];
            let mut explicit = false;
            let k = if self.large { if first { 4 } else { 10 } } else { o[0] % 15 };
            first = false;
            let what: String;
            let res: Result<(), String> = match k {
                0 | 1 | 2 => {
                    let x = fresh(1)[0];
                    what = format!("push {:x}", x);
                    let r = h.push(x).map_err(|e| e.to_string());
                    if r.is_ok() {
                        mem.push(x);
                    }
                    r
                }
                3 => {
                    let got = h.pop();
                    what = format!("pop -> {:?}", got.map(|x| format!("{:x}", x)));
                    mem.pop();
                    Ok(())
                }
                4 => {
                    let n = if self.large { if o[2] % 2 == 0 { 8183 + (o[1] as usize) % (cap0 - 8183 + 1) } else { 1 + (o[1] as usize) % cap0 } } else if o[2] % 4 == 0 { 60 + (o[1] % 90) as usize } else { 1 + (o[1] % 5) as usize };
                    let xs = fresh(n);
                    what = format!("extend {} values", n);
                    for x in &xs {
                        mem.push(*x);
                        // growth in the middle of an extend syncs the elements pushed so far
                        // (large: the extend stays within the initial capacity, no growth)
                        if !self.large {
                            cands.push(mem.clone());
                        }
                    }
                    h.extend(xs.iter().copied()).map_err(|e| e.to_string())
                }
                5 => {
                    let n = (o[1] as usize) % (mem.len() + 2);
                    what = format!("truncate {}", n);
                    mem.truncate(n);
                    h.truncate(n).map_err(|e| e.to_string())
                }
                6 => {
                    let n = (o[1] as usize) % (mem.len() + 4);
                    let x = fresh(1)[0];
                    what = format!("resize {} fill {:x}", n, x);
                    if n < mem.len() {
                        mem.truncate(n);
                    } else {
                        while mem.len() < n {
                            mem.push(x);
                        }
                    }
                    h.resize(n, x).map_err(|e| e.to_string())
                }
                7 => {
                    let n = (o[1] % 6) as usize;
                    what = format!("reserve {}", n);
                    h.reserve(n).map_err(|e| e.to_string())
                }
                8 => {
                    what = "clear".into();
                    mem.clear();
                    h.clear().map_err(|e| e.to_string())
                }
                9 => {
                    what = "shrink_to_fit".into();
                    h.shrink_to_fit().map_err(|e| e.to_string())
                }
                10 | 11 => {
                    what = "sync".into();
                    explicit = true;
                    h.sync().map_err(|e| e.to_string())
                }
                12 => {
                    // process restart: the handle goes away without a sync, the file is reopened
                    let dur = if snaps.last().unwrap().openable { snaps.last().unwrap().state.clone() } else { None };
                    match dur {
                        None => {
                            what = "sync (restart skipped: nothing durable yet)".into();
                            explicit = true;
                            h.sync().map_err(|e| e.to_string())
                        }
                        Some(d) => {
                            what = "restart (drop without sync, open)".into();
                            vec = None;
                            match MmapVec::<u64>::open(&path, config()) {
                                Ok(nv) => {
                                    let got = nv.as_slice().to_vec();
                                    if got != d {
                                        v.add(PRIO_CLEAN, "clean_reopen_mismatch", "MmapVec.reopen/clean", format!("restart: reopened as {} but the last durable state was {}", show_vec(&got), show_vec(&d)));
                                    }
                                    mem = d;
                                    vec = Some(nv);
                                    cx.probe("restarts");
                                    Ok(())
                                }
                                Err(e) => {
                                    v.add(PRIO_CLEAN, "clean_reopen_refused", "MmapVec.reopen/clean", format!("restart: undamaged file refused ({}); last durable state {}", e, show_vec(&d)));
                                    Err(e.to_string())
                                }
                            }
                        }
                    }
                }
                13 => {
                    let n = 1 + (o[1] % 12) as usize;
                    let xs = fresh(n);
                    what = format!("push_bulk_simd {} values", n);
                    let r = h.push_bulk_simd(&xs).map_err(|e| e.to_string());
                    if r.is_ok() {
                        mem.extend_from_slice(&xs);
                    }
                    r
                }
                _ => {
                    let n = (o[1] as usize) % (mem.len() + 1);
                    what = format!("pop_bulk_simd {}", n);
                    let r = h.pop_bulk_simd(n).map(|_| ()).map_err(|e| e.to_string());
                    if r.is_ok() {
                        let l = mem.len() - n;
                        mem.truncate(l);
                    }
                    r
                }
            };
            cands.push(mem.clone());
            if let Err(e) = &res {
                cx.ev(format!("{} -> Err({}); history ends here", what, e));
                break;
            }
            // did the file change?  then a durable point was passed inside this operation
            let bytes = std::fs::read(&path).unwrap_or_default();
            let changed = bytes != snaps.last().unwrap().bytes;
            if changed || explicit {
                let want: Vec<VecState> = if explicit { vec![mem.clone()] } else { cands.clone() };
                match mmapvec_recover(&scen, &format!("clean reopen after op {} ({})", nops, what), &path) {
                    Outcome::Ok(s) => {
                        if want.iter().any(|w| *w == s) {
                            cx.ev(format!("{} -> durable S{} = {}", what, snaps.len(), show_vec(&s)));
                            if changed {
                                snaps.push(Snap { bytes, state: Some(s), openable: true, how: what.clone() });
                            }
                            cx.probe("durable_points");
                        } else {
                            cx.ev(format!("{} -> file reopens as {} but the model says {}", what, show_vec(&s), show_vec(&mem)));
                            v.add(PRIO_CLEAN, "clean_reopen_mismatch", "MmapVec.reopen/clean", format!("after [{}] the undamaged file reopens as {} but the vector held {} when it was synced", what, show_vec(&s), show_vec(&mem)));
                            break;
                        }
                    }
                    Outcome::Refused => {
                        cx.ev(format!("{} -> undamaged file refused", what));
                        v.add(PRIO_CLEAN, "clean_reopen_refused", "MmapVec.reopen/clean", format!("after [{}] the undamaged file is refused; the vector held {}", what, show_vec(&mem)));
                        break;
                    }
                    Outcome::Panic(loc, msg) => {
                        v.add(PRIO_PANIC, "panic", &loc, format!("MmapVec clean reopen after [{}]: {}", what, msg));
                        break;
                    }
                }
            } else {
                cx.ev(format!("{} (not durable)", what));
            }
        }
        drop(vec);
        cx.steps = nops;
        // ---- images of one transition
        if snaps.len() >= 2 {
            let t = snaps.len() - 1 - (which_t as usize).min(snaps.len() - 2);
            let new = snaps[t].bytes.clone();
            let old = snaps[t - 1].bytes.clone();
            let states: Vec<(usize, &VecState)> = snaps[..=t].iter().enumerate().filter_map(|(i, s)| s.state.as_ref().map(|st| (i, st))).collect();
            cx.ev(format!("images of S{} -> S{} [{}], file {} -> {} bytes, family {}", t - 1, t, snaps[t].how, old.len(), new.len(), fam.name()));
            let mut tl = Tally::default();
            for_each_image(fam, Some(&old), &new, &fault, &mut |desc, bytes| {
                if std::fs::write(&img, bytes).is_err() {
                    return;
                }
                let o = mmapvec_recover(&scen, &format!("{} {}", fam.name(), desc), &img);
                let accepted: Option<VecState> = match &o {
                    Outcome::Ok(s) if states.iter().any(|(_, st)| **st == *s) => Some(s.clone()),
                    _ => None,
                };
                judge(cx, &mut v, &mut tl, "MmapVec", fam.name(), desc, o, &states, &show_vec);
                // an image that was accepted is then used: what the header vouches for (its
                // capacity) must really be there
                if let Some(s0) = accepted {
                    let m = fence::mark();
                    let o2 = recover(&scen, &format!("{} {} + continued use", fam.name(), desc), || mmapvec_continue(&img, 20_000));
                    fence::release_since(m);
                    cx.probe("accepted_images_used_further");
                    match o2 {
                        Outcome::Ok((pushed, fin)) => {
                            let mut want = s0.clone();
                            want.extend_from_slice(&pushed);
                            if fin != want {
                                v.add(PRIO_IMAGE, "continued_use_mismatch", &format!("MmapVec.reopen+use/{}", fam.name()), format!("image [{}] reopened as {}; after {} pushes (within the reported capacity) and a sync it reopens as {}", desc, show_vec(&s0), pushed.len(), show_vec(&fin)));
                            }
                        }
                        Outcome::Refused => cx.probe("continued_use_reported_error"),
                        Outcome::Panic(loc, msg) => v.add(PRIO_PANIC, "panic", &loc, format!("MmapVec image [{}] continued use: {}", desc, msg)),
                    }
                }
            });
            tally_event(cx, fam.name(), &tl);
            cx.nontrivial = tl.images > 0;
        }
        fence::release_since(mark0);
        fence::on(false);
        v.report(cx);
    }
}


// =======================================================================================
// MmapVec<u8>: every mutator, including the ones that change elements in place without
// changing the length (get_mut, as_mut_slice, fill_range_simd with and without the >= 64-byte
// fast path), followed by sync and a reopen: "presents exactly the logical content it had
// when it was last synced".  No damaged images here - this scenario is about which
// mutations a sync makes durable.

struct MmapVecBytes;

fn show_bytes(v: &Vec<u8>) -> String {
    format!("len {} #{}", v.len(), hex(v, 10))
}

impl Scenario for MmapVecBytes {
    fn name(&self) -> String {
        "MmapVec/u8-inplace".into()
    }
    fn budget(&self, tier: Tier) -> u64 {
        match tier {
            Tier::Quick => 3000,
            Tier::Thorough => 120_000,
        }
    }
    fn run(&self, cx: &mut Run) {
        let cfg = cx.src.chan("cfg");
        let cap0 = *cfg.pick(&[1usize, 8, 64, 200, 1024]);
        let sow = cfg.chance(1, 6);
        let planned = 4 + cfg.below(14);
        let scratch = Scratch::new(cx, "mmapvec8");
        let path = scratch.path("b.mmv");
        let mut v = Verdicts::default();
        fence::on(true);
        let mark0 = fence::mark();
        let config = || MmapVecConfig { initial_capacity: cap0, growth_factor: 2.0, sync_on_write: sow, ..MmapVecConfig::default() };
        cx.ev(format!("create MmapVec<u8> initial_capacity={} sync_on_write={}", cap0, sow));
        let mut vec = MmapVec::<u8>::create(&path, config()).ok();
        let mut mem: Vec<u8> = vec![];
        let mut durable: Option<Vec<u8>> = None;
        let mut ctr = 0u8;
        let mut ops = cx.src.ops("ops", planned);
        let mut nops = 0u64;
        let mut since_sync: Vec<&'static str> = vec![];
        // every state the vector went through since the last explicit sync: growth and sync_on_write
        // sync implicitly, so any of them may legitimately be what a restart finds
        let mut since_states: Vec<Vec<u8>> = vec![];
        while let (Some(o), true) = (ops.next(), vec.is_some()) {
            nops += 1;
            let h = vec.as_mut().unwrap();
            ctr = ctr.wrapping_add(1).max(1);
            let what: String;
            let mut explicit = false;
            let res: Result<(), String> = match o[0] % 9 {
                0 | 1 => {
                    let n = [1usize, 3, 40, 70, 130, 200][(o[1] % 6) as usize];
                    let xs: Vec<u8> = (0..n).map(|i| ctr.wrapping_mul(31).wrapping_add(i as u8)).collect();
                    what = format!("extend {} bytes", n);
                    since_sync.push("extend");
                    for x in &xs {
                        mem.push(*x);
                        since_states.push(mem.clone());
                    }
                    h.extend(xs.iter().copied()).map_err(|e| e.to_string())
                }
                2 | 3 => {
                    if mem.is_empty() {
                        continue;
                    }
                    let len = [1usize, 7, 63, 64, 65, 100, 128][(o[1] % 7) as usize].min(mem.len());
                    let start = (o[2] as usize) % (mem.len() - len + 1);
                    what = format!("fill_range_simd({}..{}, {:#x})", start, start + len, ctr);
                    since_sync.push(if len >= 64 { "fill_range_simd(>=64B)" } else { "fill_range_simd(<64B)" });
                    if len >= 64 {
                        cx.probe("fill_range_fast_path");
                    }
                    for b in &mut mem[start..start + len] {
                        *b = ctr;
                    }
                    h.fill_range_simd(start..start + len, ctr).map_err(|e| e.to_string())
                }
                4 => {
                    if mem.is_empty() {
                        continue;
                    }
                    let i = (o[1] as usize) % mem.len();
                    what = format!("*get_mut({}) = {:#x}", i, ctr);
                    since_sync.push("get_mut");
                    mem[i] = ctr;
                    match h.get_mut(i) {
                        Some(r) => {
                            *r = ctr;
                            Ok(())
                        }
                        None => Err("get_mut in range returned None".into()),
                    }
                }
                5 => {
                    if mem.is_empty() {
                        continue;
                    }
                    let a = (o[1] as usize) % mem.len();
                    let b = (a + 1 + (o[2] as usize) % 80).min(mem.len());
                    what = format!("as_mut_slice()[{}..{}].fill({:#x})", a, b, ctr);
                    since_sync.push("as_mut_slice");
                    for x in &mut mem[a..b] {
                        *x = ctr;
                    }
                    h.as_mut_slice()[a..b].fill(ctr);
                    Ok(())
                }
                6 => {
                    let n = (o[1] as usize) % (mem.len() + 1);
                    what = format!("truncate {}", n);
                    since_sync.push("truncate");
                    mem.truncate(n);
                    h.truncate(n).map_err(|e| e.to_string())
                }
                7 => {
                    what = "sync".into();
                    explicit = true;
                    h.sync().map_err(|e| e.to_string())
                }
                _ => {
                    // restart without a sync: the file must still hold the last synced content
                    match durable.clone() {
                        None => {
                            what = "sync (restart skipped: nothing synced yet)".into();
                            explicit = true;
                            h.sync().map_err(|e| e.to_string())
                        }
                        Some(d) => {
                            what = "restart (drop without sync, open)".into();
                            vec = None;
                            match MmapVec::<u8>::open(&path, config()) {
                                Ok(nv) => {
                                    let got = nv.as_slice().to_vec();
                                    // growth and sync_on_write sync implicitly: any state since the last explicit sync is acceptable only if it equals the model now or the recorded durable state
                                    if got != d && got != mem && !since_states.contains(&got) {
                                        v.add(PRIO_CLEAN, "clean_reopen_mismatch", "MmapVec<u8>.reopen/restart", format!("restart: reopened as {} but the last synced state was {} (in memory: {})", show_bytes(&got), show_bytes(&d), show_bytes(&mem)));
                                    }
                                    mem = got;
                                    durable = Some(mem.clone());
                                    since_sync.clear();
                                    since_states.clear();
                                    vec = Some(nv);
                                    cx.probe("restarts");
                                    Ok(())
                                }
                                Err(e) => {
                                    v.add(PRIO_CLEAN, "clean_reopen_refused", "MmapVec<u8>.reopen/restart", format!("restart: undamaged file refused ({})", e));
                                    Err(e.to_string())
                                }
                            }
                        }
                    }
                }
            };
            if let Err(e) = &res {
                cx.ev(format!("{} -> Err({}); history ends here", what, e));
                break;
            }
            if explicit {
                match mmapvec8_recover(&path) {
                    Outcome::Ok(s) => {
                        if s == mem {
                            cx.ev(format!("{} -> durable {}", what, show_bytes(&s)));
                            cx.probe("durable_points");
                            durable = Some(s);
                            since_sync.clear();
                            since_states.clear();
                        } else {
                            cx.ev(format!("{} -> file reopens as {} but the vector holds {}", what, show_bytes(&s), show_bytes(&mem)));
                            let first_diff = s.iter().zip(mem.iter()).position(|(a, b)| a != b).unwrap_or(s.len().min(mem.len()));
                            v.add(PRIO_CLEAN, "clean_reopen_mismatch", "MmapVec<u8>.reopen/clean", format!("sync returned Ok but the file reopens as {} while the vector held {} (first difference at byte {}); mutations since the previous sync: {:?}", show_bytes(&s), show_bytes(&mem), first_diff, since_sync));
                            break;
                        }
                    }
                    Outcome::Refused => {
                        v.add(PRIO_CLEAN, "clean_reopen_refused", "MmapVec<u8>.reopen/clean", format!("after sync the undamaged file is refused; the vector held {}", show_bytes(&mem)));
                        break;
                    }
                    Outcome::Panic(loc, msg) => {
                        v.add(PRIO_PANIC, "panic", &loc, format!("MmapVec<u8> clean reopen after sync: {}", msg));
                        break;
                    }
                }
            } else {
                cx.ev(format!("{}", what));
                since_states.push(mem.clone());
            }
        }
        drop(vec);
        cx.steps = nops;
        cx.nontrivial = durable.is_some();
        fence::release_since(mark0);
        fence::on(false);
        v.report(cx);
    }
}

fn mmapvec8_recover(path: &Path) -> Outcome<Vec<u8>> {
    let m = fence::mark();
    let o = recover("MmapVec/u8-inplace", "clean reopen after sync", || {
        let v = MmapVec::<u8>::open(path, MmapVecConfig::default()).map_err(|e| e.to_string())?;
        Ok(v.as_slice().to_vec())
    });
    fence::release_since(m);
    o
}

// =======================================================================================
// PlainBlobStore (a directory of record files)

use zipora::blob_store::{BlobStore, IterableBlobStore, PlainBlobStore};

type DirState = BTreeMap<u32, Vec<u8>>;

fn show_dir(s: &DirState) -> String {
    let items: Vec<String> = s.iter().take(8).map(|(k, v)| format!("{}:{}", k, hex(v, 6))).collect();
    format!("{{{}{}}}", items.join(" "), if s.len() > 8 { " .." } else { "" })
}

fn plain_readout(dir: &Path) -> Result<DirState, String> {
    let st = PlainBlobStore::new(dir).map_err(|e| e.to_string())?;
    let ids: Vec<u32> = st.iter_ids().collect();
    let mut m = DirState::new();
    for id in &ids {
        let d = st.get(*id).map_err(|e| e.to_string())?;
        match st.size(*id) {
            Ok(Some(n)) if n == d.len() => {}
            Ok(_) => return Err("size() disagrees with get()".into()),
            Err(e) => return Err(e.to_string()),
        }
        m.insert(*id, d);
    }
    if st.len() != ids.len() {
        return Err("len() disagrees with iter_ids()".into());
    }
    Ok(m)
}

fn list_dir(dir: &Path) -> BTreeMap<String, Vec<u8>> {
    let mut m = BTreeMap::new();
    if let Ok(rd) = std::fs::read_dir(dir) {
        for e in rd.flatten() {
            if let Ok(b) = std::fs::read(e.path()) {
                m.insert(e.file_name().to_string_lossy().to_string(), b);
            }
        }
    }
    m
}

fn write_dir_image(dir: &Path, s: &DirState) {
    let _ = std::fs::remove_dir_all(dir);
    let _ = std::fs::create_dir_all(dir);
    for (k, v) in s {
        let _ = std::fs::write(dir.join(k.to_string()), v);
    }
}

struct PlainSc;

impl Scenario for PlainSc {
    fn name(&self) -> String {
        "PlainBlobStore/history".into()
    }
    fn budget(&self, tier: Tier) -> u64 {
        match tier {
            Tier::Quick => 3000,
            Tier::Thorough => 120_000,
        }
    }
    fn run(&self, cx: &mut Run) {
        let scen = self.name();
        let cfg = cx.src.chan("cfg");
        let planned = 3 + cfg.below(10);
        // family 0 used to ASSUME an in-place write of the record file; it is replaced by family 3
        // (crash points inside the real put), which observes what the code leaves behind
        let fam = match cfg.below(4) {
            0 => 3,
            f => f,
        };
        let which = cfg.small(6) as usize;
        let scratch = Scratch::new(cx, "plain");
        let dir = scratch.path("store");
        let imgdir = scratch.path("img");
        let mut v = Verdicts::default();
        let mut store = match PlainBlobStore::create_new(&dir) {
            Ok(s) => Some(s),
            Err(e) => {
                cx.ev(format!("create_new failed: {}", e));
                None
            }
        };
        cx.ev("create_new (S0 = empty store)");
        let mut model = DirState::new();
        let mut states: Vec<DirState> = vec![model.clone()];
        // (state index after the op, id, put?)
        let mut trans: Vec<(usize, u32, bool)> = vec![];
        let mut ctr = 0u64;
        let mut ops = cx.src.ops("ops", planned);
        let mut nops = 0;
        while let (Some(o), true) = (ops.next(), store.is_some()) {
            nops += 1;
            let st = store.as_mut().unwrap();
            match o[0] % 8 {
                0 | 1 | 2 | 3 => {
                    ctr += 1;
                    let len = match o[1] % 64 {
                        0..=3 => 0,
                        4..=7 => 1,
                        8..=11 => 2,
                        12..=15 => 3,
                        16..=23 => 5,
                        24..=31 => 8,
                        32..=39 => 13,
                        40..=47 => 40,
                        48..=50 => 600,
                        51 => 5000,
                        _ => 21,
                    };
                    let mut data = format!("r{}:", ctr).into_bytes();
                    while data.len() < len {
                        data.push(0x80 | ((ctr as u8).wrapping_mul(7).wrapping_add(data.len() as u8) & 0x7f));
                    }
                    data.truncate(len);
                    match st.put(&data) {
                        Ok(id) => {
                            model.insert(id, data.clone());
                            states.push(model.clone());
                            trans.push((states.len() - 1, id, true));
                            cx.ev(format!("put {} bytes {} -> id {} (S{})", data.len(), hex(&data, 8), id, states.len() - 1));
                        }
                        Err(e) => {
                            cx.ev(format!("put -> Err({}); history ends here", e));
                            break;
                        }
                    }
                }
                4 | 5 => {
                    if model.is_empty() {
                        continue;
                    }
                    let id = *model.keys().nth((o[1] as usize) % model.len()).unwrap();
                    match st.remove(id) {
                        Ok(()) => {
                            model.remove(&id);
                            states.push(model.clone());
                            trans.push((states.len() - 1, id, false));
                            cx.ev(format!("remove {} (S{})", id, states.len() - 1));
                        }
                        Err(e) => {
                            cx.ev(format!("remove {} -> Err({}); history ends here", id, e));
                            break;
                        }
                    }
                }
                6 => {
                    let id = 1000 + (o[1] % 5) as u32;
                    let r = st.remove(id);
                    cx.ev(format!("remove absent {} -> {}", id, if r.is_ok() { "Ok" } else { "Err" }));
                }
                _ => {
                    store = None;
                    let o2 = recover(&scen, &format!("restart after op {}", nops), || plain_readout(&dir));
                    let ok = judge_clean(cx, &mut v, "PlainBlobStore", "restart", o2, &model, &show_dir);
                    cx.ev(format!("restart -> {}", if ok { "same content" } else { "DIFFERENT" }));
                    cx.probe("restarts");
                    store = PlainBlobStore::new(&dir).ok();
                }
            }
        }
        drop(store);
        cx.steps = nops;
        // case zero
        let o = recover(&scen, "clean reopen", || plain_readout(&dir));
        judge_clean(cx, &mut v, "PlainBlobStore", "final", o, &model, &show_dir);
        // one image family
        let mut tl = Tally::default();
        let puts: Vec<&(usize, u32, bool)> = trans.iter().filter(|t| t.2).collect();
        let removes: Vec<&(usize, u32, bool)> = trans.iter().filter(|t| !t.2).collect();
        let famname = ["new_record_prefix", "record_cut", "removed_present", "crash_point"][fam as usize];
        match fam {
            0 if !puts.is_empty() => {
                // the put that led to S(t) was interrupted: its file is absent or any prefix
                let &(t, id, _) = puts[puts.len() - 1 - which.min(puts.len() - 1)];
                let data = states[t][&id].clone();
                let allowed: Vec<(usize, &DirState)> = states[..=t].iter().enumerate().collect();
                cx.ev(format!("images of S{} -> S{} (put id {} of {} bytes), family {}", t - 1, t, id, data.len(), famname));
                write_dir_image(&imgdir, &states[t]);
                let f = imgdir.join(id.to_string());
                let _ = std::fs::remove_file(&f);
                let o = recover(&scen, &format!("{} file {} absent", famname, id), || plain_readout(&imgdir));
                judge(cx, &mut v, &mut tl, "PlainBlobStore", famname, &format!("file {} absent", id), o, &allowed, &show_dir);
                for l in trunc_lengths(data.len()) {
                    let _ = std::fs::write(&f, &data[..l]);
                    let desc = format!("file {} cut at {} of {}", id, l, data.len());
                    let o = recover(&scen, &format!("{} {}", famname, desc), || plain_readout(&imgdir));
                    judge(cx, &mut v, &mut tl, "PlainBlobStore", famname, &desc, o, &allowed, &show_dir);
                }
            }
            1 if !model.is_empty() => {
                // any record file of the final store cut short at any byte
                let id = *model.keys().nth(which % model.len()).unwrap();
                let data = model[&id].clone();
                let allowed: Vec<(usize, &DirState)> = states.iter().enumerate().collect();
                cx.ev(format!("images of the final store S{}: record file {} ({} bytes), family {}", states.len() - 1, id, data.len(), famname));
                write_dir_image(&imgdir, &model);
                let f = imgdir.join(id.to_string());
                for l in trunc_lengths(data.len()) {
                    let _ = std::fs::write(&f, &data[..l]);
                    let desc = format!("file {} cut at {} of {}", id, l, data.len());
                    let o = recover(&scen, &format!("{} {}", famname, desc), || plain_readout(&imgdir));
                    judge(cx, &mut v, &mut tl, "PlainBlobStore", famname, &desc, o, &allowed, &show_dir);
                }
            }
            3 if !puts.is_empty() => {
                // The put that led to S(t) is re-executed by the REAL code on a copy of S(t-1) and killed at
                // each guarded crash point inside PlainBlobStore::put; what the code had left on disk at that
                // instant is the image (files written but not yet synced may survive as any prefix, and a
                // directory entry that was never synced may be missing).  Nothing about the write discipline
                // is assumed here: if put wrote in place, the half-written record file would show up.
                let &(t, id0, _) = puts[puts.len() - 1 - which.min(puts.len() - 1)];
                let data = states[t][&id0].clone();
                cx.ev(format!("crash points inside the put of S{} -> S{} ({} bytes), family {}", t - 1, t, data.len(), famname));
                for stage in ["plain.put.crash_after_create", "plain.put.crash_after_write", "plain.put.crash_after_sync"] {
                    write_dir_image(&imgdir, &states[t - 1]);
                    let before: BTreeMap<String, Vec<u8>> = list_dir(&imgdir);
                    let fired = std::sync::Arc::new(std::sync::atomic::AtomicBool::new(false));
                    let f2 = fired.clone();
                    zsim_core::hooks::set_fault(Some(Box::new(move |site: &'static str| {
                        if site == stage {
                            f2.store(true, std::sync::atomic::Ordering::SeqCst);
                            true
                        } else {
                            false
                        }
                    })));
                    let put_result = match PlainBlobStore::new(&imgdir) {
                        Ok(mut st) => st.put(&data).map_err(|e| e.to_string()),
                        Err(e) => Err(format!("open: {}", e)),
                    };
                    zsim_core::hooks::set_fault(None);
                    let did_fire = fired.load(std::sync::atomic::Ordering::SeqCst);
                    if did_fire {
                        cx.fault("crash_point");
                    } else {
                        cx.probe("crash_point_not_reached");
                    }
                    // the state the completed put would have produced on this copy
                    let mut done = states[t - 1].clone();
                    if let Ok(id) = &put_result {
                        done.insert(*id, data.clone());
                    }
                    let mut allowed: Vec<(usize, &DirState)> = states[..t].iter().enumerate().collect();
                    if put_result.is_ok() {
                        allowed.push((t, &done));
                    }
                    let after = list_dir(&imgdir);
                    let dirty: Vec<String> = after.iter().filter(|(k, v)| before.get(*k) != Some(*v)).map(|(k, _)| k.clone()).collect();
                    let desc0 = format!("{} fired={} dirty files {:?}", stage.rsplit('.').next().unwrap_or(stage), did_fire, dirty);
                    let o = recover(&scen, &format!("{} {} as left", famname, desc0), || plain_readout(&imgdir));
                    judge(cx, &mut v, &mut tl, "PlainBlobStore", famname, &format!("{} as left", desc0), o, &allowed, &show_dir);
                    // unsynced data may be lost: every prefix of every file touched before its sync, or the file missing
                    if stage != "plain.put.crash_after_sync" || !did_fire {
                        for name in &dirty {
                            let full = after[name].clone();
                            let fpath = imgdir.join(name);
                            for l in trunc_lengths(full.len()) {
                                if l == full.len() {
                                    continue;
                                }
                                let _ = std::fs::write(&fpath, &full[..l]);
                                let desc = format!("{} file {} survives as {} of {} bytes", stage.rsplit('.').next().unwrap_or(stage), name, l, full.len());
                                let o = recover(&scen, &format!("{} {}", famname, desc), || plain_readout(&imgdir));
                                judge(cx, &mut v, &mut tl, "PlainBlobStore", famname, &desc, o, &allowed, &show_dir);
                            }
                            let _ = std::fs::remove_file(&fpath);
                            let desc = format!("{} file {} never reached the directory", stage.rsplit('.').next().unwrap_or(stage), name);
                            let o = recover(&scen, &format!("{} {}", famname, desc), || plain_readout(&imgdir));
                            judge(cx, &mut v, &mut tl, "PlainBlobStore", famname, &desc, o, &allowed, &show_dir);
                            let _ = std::fs::write(&fpath, &full);
                        }
                    }
                    // ---- continued use after the crash: restore exactly what the killed put left behind,
                    // reopen, put a SHORTER record and read everything back (a leftover temporary file must
                    // not leak into a later record)
                    let _ = std::fs::remove_dir_all(&imgdir);
                    let _ = std::fs::create_dir_all(&imgdir);
                    for (name, bytes) in &after {
                        let _ = std::fs::write(imgdir.join(name), bytes);
                    }
                    let stage_name = stage.rsplit('.').next().unwrap_or(stage);
                    let o = recover(&scen, &format!("{} {} then put again", famname, stage_name), || {
                        let base = plain_readout(&imgdir)?;
                        let mut st2 = PlainBlobStore::new(&imgdir).map_err(|e| e.to_string())?;
                        let short: Vec<u8> = (0..(data.len() / 3)).map(|i| 0x40 | (i as u8 & 0x3f)).collect();
                        let id2 = st2.put(&short).map_err(|e| format!("put after recovery: {}", e))?;
                        drop(st2);
                        let again = plain_readout(&imgdir)?;
                        let mut want = base.clone();
                        want.insert(id2, short.clone());
                        if again != want {
                            let got = again.get(&id2).map(|v| format!("{} bytes {}", v.len(), hex(v, 8))).unwrap_or_else(|| "absent".into());
                            return Ok(Some(format!("after a put killed at {} and a reopen, a put of {} bytes as id {} reads back as {} (store {}, expected {})", stage_name, short.len(), id2, got, show_dir(&again), show_dir(&want))));
                        }
                        Ok(None)
                    });
                    tl.images += 1;
                    match o {
                        Outcome::Ok(None) => {}
                        Outcome::Ok(Some(msg)) => v.add(PRIO_CLEAN, "record_after_recovery_wrong", "PlainBlobStore.put_after_crash", msg),
                        Outcome::Refused => {}
                        Outcome::Panic(loc, msg) => v.add(PRIO_PANIC, "panic", &loc, format!("PlainBlobStore put after a crash at {}: {}", stage_name, msg)),
                    }
                }
            }
            2 if !removes.is_empty() => {
                let &(t, id, _) = removes[removes.len() - 1 - which.min(removes.len() - 1)];
                let allowed: Vec<(usize, &DirState)> = states[..=t].iter().enumerate().collect();
                cx.ev(format!("images of S{} -> S{} (remove id {}), family {}", t - 1, t, id, famname));
                write_dir_image(&imgdir, &states[t - 1]);
                let desc = format!("file {} still present", id);
                let o = recover(&scen, &format!("{} {}", famname, desc), || plain_readout(&imgdir));
                judge(cx, &mut v, &mut tl, "PlainBlobStore", famname, &desc, o, &allowed, &show_dir);
            }
            _ => {}
        }
        tally_event(cx, famname, &tl);
        cx.nontrivial = tl.images > 0;
        v.report(cx);
    }
}

// =======================================================================================
// Single-file structures that are written whole (create + sequential write, or a builder that
// finishes): a history is 1-3 builds at the SAME path, each finished build is a durable point.

use zsim_core::rng::Rng;

struct FileTarget<'a, S> {
    target: &'static str,
    file: &'static str,
    fams: &'a [Fam],
    /// build number k from one operation's four numbers into `path`; returns the logical state
    build: &'a mut dyn FnMut(&mut Run, usize, [u64; 4], &Path) -> Result<S, String>,
    readout: &'a dyn Fn(&Path) -> Result<S, String>,
    show: &'a dyn Fn(&S) -> String,
}

fn run_file_target<S: PartialEq + Clone>(cx: &mut Run, scen: &str, ft: FileTarget<S>) {
    let cfg = cx.src.chan("cfg");
    let fault = cx.src.chan("fault");
    let fam = pick_family(&cfg, ft.fams);
    let planned = 1 + cfg.below(3);
    let which_t = cfg.small(3) as usize;
    let scratch = Scratch::new(cx, ft.file);
    let path = scratch.path(ft.file);
    let img = scratch.path("image.bin");
    let mut v = Verdicts::default();
    let mut snaps: Vec<Snap<S>> = vec![Snap { bytes: vec![], state: None, openable: false, how: "no file".into() }];
    let mut ops = cx.src.ops("ops", planned);
    let mut k = 0usize;
    while let Some(o) = ops.next() {
        k += 1;
        match (ft.build)(cx, k, o, &path) {
            Ok(state) => {
                let bytes = std::fs::read(&path).unwrap_or_default();
                cx.ev(format!("build {} finished -> durable S{} = {} ({} bytes on disk)", k, snaps.len(), (ft.show)(&state), bytes.len()));
                cx.probe("durable_points");
                // case zero for this durable point
                let o2 = recover(scen, &format!("clean reopen of S{}", snaps.len()), || (ft.readout)(&path));
                judge_clean(cx, &mut v, ft.target, &format!("S{}", snaps.len()), o2, &state, ft.show);
                snaps.push(Snap { bytes, state: Some(state), openable: true, how: format!("build {}", k) });
            }
            Err(e) => {
                cx.ev(format!("build {} -> Err({}); history ends here", k, e));
                break;
            }
        }
    }
    cx.steps = k as u64;
    if snaps.len() >= 2 {
        let t = snaps.len() - 1 - which_t.min(snaps.len() - 2);
        let new = snaps[t].bytes.clone();
        let old = if t >= 2 { Some(snaps[t - 1].bytes.clone()) } else { None };
        let states: Vec<(usize, &S)> = snaps[..=t].iter().enumerate().filter_map(|(i, s)| s.state.as_ref().map(|st| (i, st))).collect();
        cx.ev(format!("images of S{} -> S{}, file {} -> {} bytes, family {}", t - 1, t, old.as_ref().map(|o| o.len()).unwrap_or(0), new.len(), fam.name()));
        let mut tl = Tally::default();
        for_each_image(fam, old.as_deref(), &new, &fault, &mut |desc, bytes| {
            if std::fs::write(&img, bytes).is_err() {
                return;
            }
            let o = recover(scen, &format!("{} {}", fam.name(), desc), || (ft.readout)(&img));
            judge(cx, &mut v, &mut tl, ft.target, fam.name(), desc, o, &states, ft.show);
        });
        tally_event(cx, fam.name(), &tl);
        cx.nontrivial = tl.images > 0;
    }
    v.report(cx);
}

// ---------------------------------------------------------------------------------------
// ZReorderMap

use zipora::blob_store::{ZReorderMap, ZReorderMapBuilder};

type MapState = (usize, i64, Vec<usize>);

fn show_map(s: &MapState) -> String {
    let head: Vec<String> = s.2.iter().take(8).map(|x| x.to_string()).collect();
    format!("size()={} delivered={} [{}{}]", s.0, s.2.len(), head.join(","), if s.2.len() > 8 { ",.." } else { "" })
}

fn reorder_readout(path: &Path) -> Result<MapState, String> {
    let mut m = ZReorderMap::open(path).map_err(|e| e.to_string())?;
    let size = m.size();
    let mut vals = Vec::new();
    while let Some(x) = m.next() {
        vals.push(x);
    }
    // a second pass must deliver the same
    m.rewind().map_err(|e| e.to_string())?;
    let mut again = Vec::new();
    while let Some(x) = m.next() {
        again.push(x);
    }
    if again != vals {
        return Err("second pass after rewind() differs".into());
    }
    // sign is not exposed; it is part of the state only through the values
    Ok((size, 0, vals))
}

struct ReorderSc;

impl Scenario for ReorderSc {
    fn name(&self) -> String {
        "ZReorderMap/builds".into()
    }
    fn budget(&self, tier: Tier) -> u64 {
        match tier {
            Tier::Quick => 4000,
            Tier::Thorough => 160_000,
        }
    }
    fn run(&self, cx: &mut Run) {
        let scen = self.name();
        let mut build = |cx: &mut Run, k: usize, o: [u64; 4], path: &Path| -> Result<MapState, String> {
            let mut r = Rng::new(o[1] << 20 | o[2]);
            let n = match o[0] % 16 {
                0 => 0,
                1 => 1,
                2 => 2,
                3 | 4 => 3,
                5 | 6 => 5,
                7 | 8 => 8,
                9 | 10 => 20,
                11 | 12 => 60,
                13 => 900,
                14 => 2500,
                _ => 12,
            } as usize;
            let sign: i64 = if o[3] % 3 == 0 { -1 } else { 1 };
            let mut vals: Vec<usize> = Vec::with_capacity(n);
            // every third map is made of single values only, so that the builder's 4 KiB write
            // buffer fills up and is flushed before finish()
            let singles_only = (o[3] / 3) % 3 == 0;
            while vals.len() < n {
                let run = match if singles_only { 0 } else { r.below(8) } {
                    0 | 1 | 2 => 1,
                    3 | 4 => 2,
                    5 => 3 + r.below(6) as usize,
                    6 => 100 + r.below(200) as usize,
                    _ => 1,
                }
                .min(n - vals.len());
                let base = if r.below(20) == 0 { 0x7FFF_FFFF_FF - 400 + r.below(100) as usize } else { 400 + r.below(5000) as usize + k * 10_000 };
                for j in 0..run {
                    vals.push(if sign > 0 { base + j } else { base - j });
                }
            }
            cx.ev(format!("build {}: ZReorderMapBuilder::new(size={}, sign={}), push x{}, finish", k, n, sign, n));
            let mut b = ZReorderMapBuilder::new(path, n, sign).map_err(|e| e.to_string())?;
            for x in &vals {
                b.push(*x).map_err(|e| e.to_string())?;
            }
            b.finish().map_err(|e| e.to_string())?;
            if std::fs::metadata(path).map(|m| m.len()).unwrap_or(0) > 16 + 4096 {
                cx.probe("reorder_builder_buffer_flushed_before_finish");
            }
            Ok((n, 0, vals))
        };
        run_file_target(cx, &scen, FileTarget { target: "ZReorderMap", file: "reorder.map", fams: &ALL_FAMS, build: &mut build, readout: &reorder_readout, show: &show_map });
    }
}

// ---------------------------------------------------------------------------------------
// ZipOffsetBlobStore (save_to_file / load_from_file)

use zipora::blob_store::{ZipOffsetBlobStore, ZipOffsetBlobStoreBuilder, ZipOffsetBlobStoreConfig};

type RecState = Vec<Vec<u8>>;

fn show_recs(s: &RecState) -> String {
    let items: Vec<String> = s.iter().take(6).map(|v| hex(v, 6)).collect();
    format!("{} records [{}{}]", s.len(), items.join(" "), if s.len() > 6 { " .." } else { "" })
}

fn zipoffset_state(st: &ZipOffsetBlobStore) -> Result<RecState, String> {
    let n = st.len();
    let mut out = Vec::with_capacity(n);
    for i in 0..n {
        out.push(st.get(i as u32).map_err(|e| e.to_string())?);
    }
    Ok(out)
}

fn zipoffset_readout(path: &Path) -> Result<RecState, String> {
    let st = ZipOffsetBlobStore::load_from_file(path).map_err(|e| e.to_string())?;
    zipoffset_state(&st)
}

struct ZipOffsetSc;

impl Scenario for ZipOffsetSc {
    fn name(&self) -> String {
        "ZipOffsetBlobStore/save".into()
    }
    fn budget(&self, tier: Tier) -> u64 {
        match tier {
            Tier::Quick => 400,
            Tier::Thorough => 16_000,
        }
    }
    fn run(&self, cx: &mut Run) {
        let scen = self.name();
        let mut build = |cx: &mut Run, k: usize, o: [u64; 4], path: &Path| -> Result<RecState, String> {
            let mut r = Rng::new(o[1] << 20 | o[2]);
            let config = ZipOffsetBlobStoreConfig { compress_level: if o[3] % 2 == 0 { 0 } else { 3 }, checksum_level: if (o[3] / 2) % 2 == 0 { 0 } else { 2 }, ..ZipOffsetBlobStoreConfig::default() };
            let nrec = (o[0] % 7) as usize;
            let mut b = ZipOffsetBlobStoreBuilder::with_config(config.clone()).map_err(|e| e.to_string())?;
            let mut added = 0usize;
            for i in 0..nrec {
                let len = [0usize, 1, 3, 8, 21, 40, 700][r.below(7) as usize];
                let rec: Vec<u8> = (0..len).map(|j| 0x80 | ((k * 31 + i * 7 + j) as u8 & 0x7f)).collect();
                b.add_record(&rec).map_err(|e| e.to_string())?;
                added += 1;
            }
            let st = b.finish().map_err(|e| e.to_string())?;
            // the logical content is what the store itself presents when it is saved
            let state = zipoffset_state(&st)?;
            if state.len() != added {
                cx.probe("zipoffset_store_presents_fewer_records_than_added");
            }
            cx.ev(format!("build {}: builder(compress={}, checksum={}) + {} records, finish -> store presents {} records; save_to_file", k, config.compress_level, config.checksum_level, added, state.len()));
            st.save_to_file(path).map_err(|e| e.to_string())?;
            Ok(state)
        };
        run_file_target(cx, &scen, FileTarget { target: "ZipOffsetBlobStore", file: "store.zo", fams: &ALL_FAMS, build: &mut build, readout: &zipoffset_readout, show: &show_recs });
    }
}

// ---------------------------------------------------------------------------------------
// SuffixArrayDictionary::save_to_file / load_from_file, also through
// DictZipBlobStore::{from_dictionary_file, save_dictionary, load_dictionary}

use zipora::compression::dict_zip::{DictZipBlobStore, DictZipConfig, SuffixArrayDictionary, SuffixArrayDictionaryConfig};

#[derive(Clone, PartialEq)]
struct DictState {
    text: Vec<u8>,
    min_len: usize,
    max_len: usize,
    /// longest-match length for each probe of the run
    matches: Vec<Option<usize>>,
    /// a blob put into a DictZipBlobStore opened on the file comes back unchanged
    store_roundtrip: Option<bool>,
}

fn show_dict(s: &DictState) -> String {
    format!("text {} bytes {} min/max pattern {}/{} matches {:?} store_roundtrip {:?}", s.text.len(), hex(&s.text, 8), s.min_len, s.max_len, s.matches, s.store_roundtrip)
}

fn dict_state(d: &mut SuffixArrayDictionary, probes: &[Vec<u8>]) -> Result<DictState, String> {
    let mut matches = vec![];
    for p in probes {
        let m = d.find_longest_match(p, 0, 64).map_err(|e| e.to_string())?;
        matches.push(m.map(|m| m.length));
    }
    Ok(DictState { text: d.data().to_vec(), min_len: d.config().min_pattern_length, max_len: d.config().max_pattern_length, matches, store_roundtrip: None })
}

fn dictzip_config() -> DictZipConfig {
    DictZipConfig { cache_size_bytes: 64 * 1024, ..DictZipConfig::default() }
}

fn dict_readout(path: &Path, probes: &[Vec<u8>], through_store: bool) -> Result<DictState, String> {
    let mut d = SuffixArrayDictionary::load_from_file(path).map_err(|e| e.to_string())?;
    let mut st = dict_state(&mut d, probes)?;
    if through_store {
        let mut store = DictZipBlobStore::from_dictionary_file(path, dictzip_config()).map_err(|e| e.to_string())?;
        let blob: Vec<u8> = probes.iter().flat_map(|p| p.iter().copied()).chain((0..80).map(|i| b'a' + (i % 7) as u8)).collect();
        let id = store.put(&blob).map_err(|e| e.to_string())?;
        let got = store.get(id).map_err(|e| e.to_string())?;
        st.store_roundtrip = Some(got == blob);
        store.load_dictionary(path).map_err(|e| e.to_string())?;
    }
    Ok(st)
}

struct DictSc {
    through_store: bool,
}

impl Scenario for DictSc {
    fn name(&self) -> String {
        if self.through_store { "DictZipBlobStore/save_dictionary".into() } else { "SuffixArrayDictionary/save".into() }
    }
    fn budget(&self, tier: Tier) -> u64 {
        match (self.through_store, tier) {
            (false, Tier::Quick) => 1200,
            (false, Tier::Thorough) => 48_000,
            (true, Tier::Quick) => 600,
            (true, Tier::Thorough) => 24_000,
        }
    }
    fn run(&self, cx: &mut Run) {
        let scen = self.name();
        let through_store = self.through_store;
        // the probes are fixed for the run (every read-out answers the same questions)
        let pc = cx.src.chan("probes");
        let words: [&[u8]; 6] = [b"abcab", b"the quick ", b"brown fox ", b"0101", b"zzzzzzzz", b"lorem ipsum "];
        let mut probes: Vec<Vec<u8>> = vec![];
        for _ in 0..3 {
            let mut p = vec![];
            for _ in 0..(1 + pc.below(3)) {
                p.extend_from_slice(words[pc.below(6) as usize]);
            }
            probes.push(p);
        }
        let probes2 = probes.clone();
        let scratch2 = Scratch::new(cx, "dict-tmp");
        let tmp = scratch2.path("direct.dict");
        let mut build = |cx: &mut Run, k: usize, o: [u64; 4], path: &Path| -> Result<DictState, String> {
            let mut r = Rng::new(o[1] << 20 | o[2]);
            let nwords = [2usize, 4, 6, 12, 20, 6, 60, 2][(o[0] % 8) as usize];
            let mut text = vec![];
            for _ in 0..nwords {
                text.extend_from_slice(words[r.below(6) as usize]);
                if r.below(4) == 0 {
                    text.push(b'A' + r.below(26) as u8);
                }
            }
            let config = SuffixArrayDictionaryConfig { min_frequency: 1 + (o[3] % 4) as u32, max_bfs_depth: 2 + (o[3] / 4 % 4) as u32, min_pattern_length: 2 + (o[3] / 16 % 3) as usize, max_pattern_length: 16 + (o[3] / 64 % 3) as usize * 24, max_cache_states: 4096, use_memory_pool: o[3] / 256 % 2 == 0, ..SuffixArrayDictionaryConfig::default() };
            let mut d = SuffixArrayDictionary::new(&text, config).map_err(|e| e.to_string())?;
            let mut state = dict_state(&mut d, &probes)?;
            if through_store {
                // the store is opened on a dictionary file and writes its dictionary out again
                d.save_to_file(&tmp).map_err(|e| e.to_string())?;
                let store = DictZipBlobStore::from_dictionary_file(&tmp, dictzip_config()).map_err(|e| e.to_string())?;
                store.save_dictionary(path).map_err(|e| e.to_string())?;
                state.store_roundtrip = Some(true);
                cx.ev(format!("build {}: dictionary from {} bytes of text -> DictZipBlobStore::from_dictionary_file -> save_dictionary", k, text.len()));
            } else {
                d.save_to_file(path).map_err(|e| e.to_string())?;
                cx.ev(format!("build {}: SuffixArrayDictionary::new({} bytes of text) -> save_to_file", k, text.len()));
            }
            Ok(state)
        };
        let readout = move |p: &Path| dict_readout(p, &probes2, through_store);
        let target = if through_store { "DictZipBlobStore" } else { "SuffixArrayDictionary" };
        run_file_target(cx, &scen, FileTarget { target, file: "dictionary.bin", fams: &ALL_FAMS, build: &mut build, readout: &readout, show: &show_dict });
    }
}

// ---------------------------------------------------------------------------------------
// serialize() bytes written to a file by the harness: HuffmanTree, ContextualHuffmanEncoder,
// entropy Dictionary.  These encoders iterate a HashMap, so the byte order of the entries is
// not reproducible between processes; only the truncation family (whose outcome does not
// depend on the order: the entry count comes first) is generated, and no bytes go into events.

use zipora::entropy::dictionary::{Dictionary as EntropyDictionary, DictionaryEntry};
use zipora::entropy::huffman::{ContextualHuffmanEncoder, HuffmanOrder, HuffmanTree};

#[derive(Clone, PartialEq)]
enum SerState {
    Tree(Vec<Option<Vec<bool>>>, usize),
    Ctx(u8, usize, Vec<Option<Vec<u8>>>),
    Dict(BTreeMap<Vec<u8>, (u32, u32)>),
}

fn show_ser(s: &SerState) -> String {
    match s {
        SerState::Tree(codes, maxlen) => format!("HuffmanTree {} symbols max_code_length {}", codes.iter().filter(|c| c.is_some()).count(), maxlen),
        SerState::Ctx(order, trees, enc) => format!("ContextualHuffmanEncoder order {} trees {} probe encodings {:?}", order, trees, enc.iter().map(|e| e.as_ref().map(|v| v.len())).collect::<Vec<_>>()),
        SerState::Dict(m) => format!("Dictionary {} entries", m.len()),
    }
}

fn tree_state(t: &HuffmanTree) -> SerState {
    SerState::Tree((0..=255u8).map(|s| t.get_code(s).cloned()).collect(), t.max_code_length())
}

fn ctx_state(e: &ContextualHuffmanEncoder, probes: &[Vec<u8>]) -> SerState {
    let order = match e.order() {
        HuffmanOrder::Order0 => 0,
        HuffmanOrder::Order1 => 1,
        HuffmanOrder::Order2 => 2,
    };
    SerState::Ctx(order, e.tree_count(), probes.iter().map(|p| e.encode(p).ok()).collect())
}

struct SerialSc {
    kind: u8,
}

impl Scenario for SerialSc {
    fn name(&self) -> String {
        ["HuffmanTree/serialized", "ContextualHuffmanEncoder/serialized", "entropy::Dictionary/serialized"][self.kind as usize].into()
    }
    fn budget(&self, tier: Tier) -> u64 {
        let q = [800u64, 160, 1200][self.kind as usize];
        match tier {
            Tier::Quick => q,
            Tier::Thorough => q * 40,
        }
    }
    fn run(&self, cx: &mut Run) {
        let scen = self.name();
        let kind = self.kind;
        let alphabet: &[u8] = b"abcdefghijklmnopqrstuvwxyz0123456789 ,.;";
        let mk_data = |r: &mut Rng, o0: u64| -> Vec<u8> {
            let n = if kind == 1 { [1usize, 2, 3, 5, 8, 3][(o0 % 6) as usize] } else { [1usize, 2, 5, 17, 60, 300, 1200][(o0 % 7) as usize] };
            let span = 1 + r.below(alphabet.len() as u64) as usize;
            (0..n).map(|_| alphabet[(r.below(span as u64) * r.below(span as u64) / span as u64) as usize]).collect()
        };
        let probes: Vec<Vec<u8>> = vec![b"abcabcabc".to_vec(), b"hello, world.".to_vec(), b"a".to_vec()];
        let probes_r = probes.clone();
        let mut keys_seen: Vec<Vec<u8>> = vec![];
        let mut build = |cx: &mut Run, k: usize, o: [u64; 4], path: &Path| -> Result<SerState, String> {
            let mut r = Rng::new(o[1] << 20 | o[2]);
            let (state, bytes) = match kind {
                0 => {
                    let data = mk_data(&mut r, o[0]);
                    let t = HuffmanTree::from_data(&data).map_err(|e| e.to_string())?;
                    cx.ev(format!("build {}: HuffmanTree::from_data({} bytes) -> serialize -> file", k, data.len()));
                    (tree_state(&t), t.serialize())
                }
                1 => {
                    let data = mk_data(&mut r, o[0]);
                    let order = [HuffmanOrder::Order0, HuffmanOrder::Order1, HuffmanOrder::Order2][(o[3] % 3) as usize];
                    let e = ContextualHuffmanEncoder::new(&data, order).map_err(|e| e.to_string())?;
                    cx.ev(format!("build {}: ContextualHuffmanEncoder::new({} bytes, order {}) -> serialize -> file", k, data.len(), o[3] % 3));
                    (ctx_state(&e, &probes), e.serialize())
                }
                _ => {
                    let n = [0usize, 1, 2, 5, 12, 30, 3, 8, 1, 2, 5, 120][(o[0] % 12) as usize];
                    let mut d = EntropyDictionary::new();
                    let mut m = BTreeMap::new();
                    for i in 0..n {
                        let len = 1 + r.below(12) as usize;
                        let mut key: Vec<u8> = (0..len).map(|_| alphabet[r.below(8) as usize]).collect();
                        key.push(b'0' + (i % 10) as u8);
                        let e = (r.below(70_000) as u32, 3 + r.below(300) as u32);
                        d.insert(key.clone(), DictionaryEntry::new(e.0, e.1));
                        m.insert(key, e);
                    }
                    cx.ev(format!("build {}: entropy Dictionary with {} entries -> serialize -> file", k, m.len()));
                    (SerState::Dict(m), d.serialize())
                }
            };
            if let SerState::Dict(m) = &state {
                for key in m.keys() {
                    keys_seen.push(key.clone());
                }
            }
            // the harness plays the application here: create + sequential write + fsync
            std::fs::write(path, &bytes).map_err(|e| e.to_string())?;
            Ok(state)
        };
        let readout = move |p: &Path| -> Result<SerState, String> {
            let data = std::fs::read(p).map_err(|e| e.to_string())?;
            match kind {
                0 => HuffmanTree::deserialize(&data).map(|t| tree_state(&t)).map_err(|e| e.to_string()),
                1 => ContextualHuffmanEncoder::deserialize(&data).map(|e| ctx_state(&e, &probes_r)).map_err(|e| e.to_string()),
                _ => {
                    // the API has no iteration; the state is rebuilt from the serialised form of
                    // the loaded dictionary (serialize is the only enumeration there is)
                    let d = EntropyDictionary::deserialize(&data).map_err(|e| e.to_string())?;
                    let again = d.serialize();
                    let mut m = BTreeMap::new();
                    let n = u32::from_le_bytes([again[0], again[1], again[2], again[3]]) as usize;
                    let mut off = 4;
                    for _ in 0..n {
                        let l = u16::from_le_bytes([again[off], again[off + 1]]) as usize;
                        let key = again[off + 2..off + 2 + l].to_vec();
                        let e = d.get(&key).ok_or_else(|| "entry listed by serialize() is not found by get()".to_string())?;
                        m.insert(key, (e.offset, e.length));
                        off += 2 + l + 8;
                    }
                    if m.len() != d.len() {
                        return Err("len() disagrees with the entries".into());
                    }
                    Ok(SerState::Dict(m))
                }
            }
        };
        run_file_target(cx, &scen, FileTarget { target: ["HuffmanTree", "ContextualHuffmanEncoder", "entropy::Dictionary"][kind as usize], file: "serialized.bin", fams: &[Fam::Trunc], build: &mut build, readout: &readout, show: &show_ser });
    }
}

// ---------------------------------------------------------------------------------------
// io::MemoryMappedOutput (shared mapping, set_len on grow/truncate) read back through
// io::MemoryMappedInput.  The stream has no header, so for a damaged image the only things the
// statement promises are: no fault, and nothing beyond what the file (its length) can vouch
// for - every successful read must return exactly the image's bytes.

use zipora::io::{DataInput, DataOutput, MemoryMappedInput, MemoryMappedOutput};

fn mmio_readout(path: &Path, chunks: &[usize]) -> Result<Vec<u8>, String> {
    let mut inp = MemoryMappedInput::from_path(path).map_err(|e| e.to_string())?;
    let n = inp.len();
    let mut out = Vec::with_capacity(n);
    let mut ci = 0;
    while out.len() < n {
        let want = if ci < 48 { chunks[ci % chunks.len()].max(1) } else { 8192 }.min(n - out.len());
        ci += 1;
        let got = inp.read_slice(want).map_err(|e| e.to_string())?;
        if got.len() != want {
            return Err("read_slice returned a different length".into());
        }
        out.extend_from_slice(&got);
    }
    // reading past the end must be refused, not served
    if inp.read_slice(1).is_ok() || inp.read_u8().is_ok() {
        let mut o2 = out.clone();
        o2.push(0xEE);
        return Ok(o2);
    }
    // random access: seek back and read the second half again
    if n >= 2 {
        inp.seek(n / 2).map_err(|e| e.to_string())?;
        let tail = inp.read_slice(n - n / 2).map_err(|e| e.to_string())?;
        if tail != out[n / 2..] {
            let mut o2 = out.clone();
            o2.extend_from_slice(b"<seek+read differs>");
            return Ok(o2);
        }
    }
    Ok(out)
}

struct MmapIoSc;

impl Scenario for MmapIoSc {
    fn name(&self) -> String {
        "MemoryMappedOutput/history".into()
    }
    fn budget(&self, tier: Tier) -> u64 {
        match tier {
            Tier::Quick => 3000,
            Tier::Thorough => 120_000,
        }
    }
    fn run(&self, cx: &mut Run) {
        let scen = self.name();
        let cfg = cx.src.chan("cfg");
        let fault = cx.src.chan("fault");
        let init = *cfg.pick(&[1usize, 8, 64, 100, 4000, 4096, 6000]);
        let planned = 3 + cfg.below(10);
        let fam = pick_family(&cfg, &[Fam::Trunc, Fam::Block, Fam::OldExt, Fam::ZeroTail]);
        let chunks: Vec<usize> = (0..4).map(|_| *cfg.pick(&[1usize, 3, 7, 64, 500, 4096, 100_000])).collect();
        let which_t = cfg.small(4) as usize;
        let scratch = Scratch::new(cx, "mmio");
        let path = scratch.path("out.bin");
        let img = scratch.path("image.bin");
        let mut v = Verdicts::default();
        cx.ev(format!("MemoryMappedOutput::create(initial_size={})", init));
        let mut out = match MemoryMappedOutput::create(&path, init) {
            Ok(o) => Some(o),
            Err(e) => {
                cx.ev(format!("create failed: {}", e));
                None
            }
        };
        // model: bytes written at their positions, zeros elsewhere
        let mut model: Vec<u8> = vec![];
        let mut pos = 0usize;
        let mut snaps: Vec<Vec<u8>> = vec![std::fs::read(&path).unwrap_or_default()];
        let mut ctr = 0u8;
        let mut ops = cx.src.ops("ops", planned);
        let mut nops = 0u64;
        let put = |model: &mut Vec<u8>, pos: &mut usize, data: &[u8]| {
            if model.len() < *pos + data.len() {
                model.resize(*pos + data.len(), 0);
            }
            model[*pos..*pos + data.len()].copy_from_slice(data);
            *pos += data.len();
        };
        while let (Some(o), true) = (ops.next(), out.is_some()) {
            nops += 1;
            let h = out.as_mut().unwrap();
            let mut durable = false;
            let what: String;
            let res: Result<(), String> = match o[0] % 10 {
                0 | 1 | 2 => {
                    let n = [1usize, 2, 5, 16, 100, 5, 16, 700, 1, 2, 100, 3000][(o[1] % 12) as usize];
                    ctr = ctr.wrapping_add(1);
                    let data: Vec<u8> = (0..n).map(|j| 0x80 | (ctr.wrapping_mul(13).wrapping_add(j as u8) & 0x7f)).collect();
                    what = format!("write_slice {} bytes at {}", n, pos);
                    put(&mut model, &mut pos, &data);
                    h.write_slice(&data).map_err(|e| e.to_string())
                }
                3 => {
                    let x = 0x8181_0000u32 | (o[1] as u32 & 0x7f7f);
                    what = format!("write_u32 at {}", pos);
                    put(&mut model, &mut pos, &x.to_le_bytes());
                    h.write_u32(x).map_err(|e| e.to_string())
                }
                4 => {
                    let s = format!("str{}-{}", nops, "x".repeat((o[1] % 40) as usize));
                    what = format!("write_length_prefixed_string {} bytes at {}", s.len(), pos);
                    let mut enc = vec![];
                    let mut l = s.len() as u64;
                    loop {
                        let b = (l & 0x7f) as u8;
                        l >>= 7;
                        if l != 0 {
                            enc.push(b | 0x80);
                        } else {
                            enc.push(b);
                            break;
                        }
                    }
                    enc.extend_from_slice(s.as_bytes());
                    put(&mut model, &mut pos, &enc);
                    h.write_length_prefixed_string(&s).map_err(|e| e.to_string())
                }
                5 => {
                    let cap = h.capacity();
                    let p = (o[1] as usize) % (cap + 1);
                    what = format!("seek {}", p);
                    pos = p;
                    h.seek(p).map_err(|e| e.to_string())
                }
                6 | 7 => {
                    what = "flush".into();
                    durable = true;
                    h.flush().map_err(|e| e.to_string())
                }
                8 => {
                    what = format!("truncate (to position {})", pos);
                    durable = true;
                    model.truncate(pos);
                    h.truncate().map_err(|e| e.to_string())
                }
                _ => {
                    what = "restart (drop, MemoryMappedOutput::open)".into();
                    durable = true;
                    out = None;
                    match MemoryMappedOutput::open(&path) {
                        Ok(o2) => {
                            out = Some(o2);
                            pos = 0;
                            Ok(())
                        }
                        Err(e) => Err(e.to_string()),
                    }
                }
            };
            if let Err(e) = &res {
                cx.ev(format!("{} -> Err({}); history ends here", what, e));
                break;
            }
            if durable {
                let cap = out.as_ref().map(|h| h.capacity()).unwrap_or(0);
                let mut want = model.clone();
                want.resize(cap, 0);
                let o2 = recover(&scen, &format!("clean reopen after op {} ({})", nops, what), || mmio_readout(&path, &chunks));
                let show = |b: &Vec<u8>| format!("{} bytes {}", b.len(), hex(b, 12));
                if !judge_clean(cx, &mut v, "MemoryMappedOutput", &what, o2, &want, &show) {
                    break;
                }
                cx.ev(format!("{} -> durable S{} ({} bytes)", what, snaps.len(), cap));
                cx.probe("durable_points");
                let bytes = std::fs::read(&path).unwrap_or_default();
                if bytes != *snaps.last().unwrap() {
                    snaps.push(bytes);
                }
            } else {
                cx.ev(format!("{} (not durable)", what));
            }
        }
        drop(out);
        cx.steps = nops;
        if snaps.len() >= 2 {
            let t = snaps.len() - 1 - which_t.min(snaps.len() - 2);
            let new = snaps[t].clone();
            let old = snaps[t - 1].clone();
            cx.ev(format!("images of S{} -> S{}, file {} -> {} bytes, family {}", t - 1, t, old.len(), new.len(), fam.name()));
            let mut tl = Tally::default();
            for_each_image(fam, Some(&old), &new, &fault, &mut |desc, bytes| {
                if std::fs::write(&img, bytes).is_err() {
                    return;
                }
                let o = recover(&scen, &format!("{} {}", fam.name(), desc), || mmio_readout(&img, &chunks));
                // the only state the image can vouch for is the image itself
                let want = bytes.to_vec();
                let states = [(t, &want)];
                match o {
                    Outcome::Ok(ref got) if *got != want => {
                        tl.images += 1;
                        tl.bad += 1;
                        cx.cell(format!("MemoryMappedInput/{}/wrong_bytes", fam.name()));
                        let at = got.iter().zip(want.iter()).position(|(a, b)| a != b).unwrap_or(got.len().min(want.len()));
                        v.add(PRIO_IMAGE, "wrong_bytes", &format!("MemoryMappedInput.read/{}", fam.name()), format!("image [{}] of {} bytes was read back as {} bytes, first difference at offset {}", desc, want.len(), got.len(), at));
                    }
                    o => judge(cx, &mut v, &mut tl, "MemoryMappedInput", fam.name(), desc, o, &states, &|b: &Vec<u8>| format!("{} bytes", b.len())),
                }
            });
            tally_event(cx, fam.name(), &tl);
            cx.nontrivial = tl.images > 0;
        }
        v.report(cx);
    }
}

// =======================================================================================

fn init() {
    zsim_props::install_hooks();
    // Scratch directories live under std::env::temp_dir().  One run writes thousands of small
    // image files; on a disk-backed /tmp that is 10-50x slower than on tmpfs (measured) and the
    // wall time then depends on what else the machine is doing.  The images are constructed by
    // the harness, so no durability of the scratch medium itself is needed: when the caller has
    // not chosen a TMPDIR, point temp_dir() at /dev/shm if that is usable.
    if std::env::var_os("TMPDIR").is_none() {
        let probe = format!("/dev/shm/zsim-c19-probe-{}", std::process::id());
        if std::fs::create_dir(&probe).is_ok() {
            let _ = std::fs::remove_dir(&probe);
            std::env::set_var("TMPDIR", "/dev/shm");
        }
    }
}

fn main() {
    let mut spec = CheckSpec::new(
        "C19",
        "fault_enumeration",
        "seeded operation histories against the real file-backed structure (snapshots of file image + model state at every durable point), then per run: clean reopen + ONE image family of ONE transition, \
         with every truncation length enumerated (all lengths up to 4 KiB, then every 512-byte boundary -1/0/+1); non-trivial = at least one damaged image was recovered besides the clean reopen; \
         distinct = distinct hash of (history, durable points, per-family outcome tally)",
    );
    spec.assumptions = vec![
        "the disk is modelled at the level of the file image: prefixes, zero-filled tails, old image at the new length, single 512 B / 4 KiB block rollbacks, header/data combinations; no reordering inside a block".into(),
        "byte rot is not part of C19's statement (cut short / old-new block mixtures only); it is C15's and is not generated here".into(),
        "recovery runs in the worker process under catch_unwind; the driver re-runs every violation alone in a fresh process".into(),
        "anonymous mmap() calls made by zipora during MmapVec recoveries are fenced (guard page) and unmapped by the harness afterwards, because MmapVec never unmaps its buffer".into(),
    ];
    spec.components = vec![
        ("memory::MmapVec (+ memory::mmap::MemoryMappedAllocator)", "real"),
        ("blob_store::PlainBlobStore", "real"),
        ("blob_store::ZReorderMapBuilder / ZReorderMap", "real"),
        ("blob_store::ZipOffsetBlobStore save_to_file/load_from_file", "real (vacuous: ZipOffsetBlobStoreBuilder::finish returns an empty store, so the saved content is always empty)"),
        ("compression::dict_zip::SuffixArrayDictionary save_to_file/load_from_file", "real"),
        ("compression::dict_zip::DictZipBlobStore from_dictionary_file/save_dictionary/load_dictionary", "real"),
        ("entropy::HuffmanTree / ContextualHuffmanEncoder / Dictionary serialize+deserialize", "real; the file write is done by the harness"),
        ("io::MemoryMappedOutput / MemoryMappedInput", "real"),
        ("file system", "real (scratch directory under temp_dir, tmpfs when available); crash images are constructed by the harness"),
        ("libc mmap for anonymous private mappings during MmapVec recoveries", "real syscall behind a harness wrapper that adds a guard page and unmaps what MmapVec leaks"),
    ];
    spec.init = init;
    spec.rlimit_as_mb = 2048;
    spec.hang_secs = 20;
    // The run of MmapVec/large kills its process (known finding).  The driver's workers flush their
    // statistics every 1.5 s, so whatever a worker did since its last flush is lost when it dies:
    // the dying scenario goes FIRST, when there is nothing to lose yet.
    spec.scenarios.push(Box::new(MmapVecSc { large: true }));
    spec.scenarios.push(Box::new(MmapVecSc { large: false }));
    spec.scenarios.push(Box::new(MmapVecBytes));
    spec.scenarios.push(Box::new(PlainSc));
    spec.scenarios.push(Box::new(ReorderSc));
    spec.scenarios.push(Box::new(ZipOffsetSc));
    spec.scenarios.push(Box::new(DictSc { through_store: false }));
    spec.scenarios.push(Box::new(DictSc { through_store: true }));
    for kind in 0..3 {
        spec.scenarios.push(Box::new(SerialSc { kind }));
    }
    spec.scenarios.push(Box::new(MmapIoSc));
    if !fence::selftest() {
        // without it MmapVec recoveries leak 64 KiB each until RLIMIT_AS turns every open into Err
        eprintln!("zsim: harness error: C19: the mmap interposition (fence) is not active in this executable");
        std::process::exit(2);
    }
    zsim_core::driver::main(spec);
}
