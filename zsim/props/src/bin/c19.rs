//! C19 — file-backed structures reopen as written; damaged files are refused (engine E4 + E5).
//!
//! One run = one seeded operation history against the real structure in a scratch directory,
//! with the file image and the reference model's logical state snapshotted at every durable
//! point S0..Sn, followed by
//!   case zero: a clean reopen, which must reproduce the last durable state exactly, and
//!   one *image family* (chosen per run) built from one transition S(t-1) -> S(t):
//!     trunc      every prefix of the new image (all lengths up to 4 KiB, then every 512-byte
//!                boundary -1/0/+1)
//!     zero_tail  the new length, the new bytes up to a 512-byte boundary, zeros behind it
//!     old_ext    the old image cut / zero-extended to the new length
//!     block      the new image with ONE 512 B or 4 KiB block rolled back to its pre-write content
//!     hdr_data   header block (first 512 B / 4 KiB) from one side, data blocks from the other
//!                (both directions)
//!   Mixtures are made of whole 512 B / 4 KiB blocks only (the statement speaks of blocks);
//!   cutting short is done at every byte (the statement says so).
//! Every image is recovered in-process (open + read everything) under catch_unwind.
//! A file that is accepted is then USED where the structure can be written to or re-saved
//! (MmapVec: fill to capacity, sync, reopen, grow, sync, reopen; MemoryMappedOutput: open, overwrite,
//! append, flush; dictionaries and ZipOffset stores: load, save under another name, load again;
//! PlainBlobStore: put after every crash point), and images that only the real code can
//! produce are taken from the real code (crash points inside PlainBlobStore::put, a
//! ZReorderMapBuilder that never reached finish(), run files of ReplaceSelectSort damaged between
//! finish_run and the merge).
//!
//! Oracle (no stricter than the statement): `Err` from open/load or from any later read is
//! always fine; a complete error-free read-out must equal the logical state at SOME durable
//! point S0..St; panic / crash / allocation blow-up / hang are violations.  Byte rot is NOT
//! part of C19's statement (it is C15's) and is not generated here.

use std::collections::BTreeMap;
use std::panic::{catch_unwind, AssertUnwindSafe};
use std::path::{Path, PathBuf};
use zsim_core::{Chan, CheckSpec, Run, Scenario, Tier};

// ---------------------------------------------------------------------------------------
// An "electric fence" around zipora's own anonymous mmap() calls.
//
// `MmapVec` takes its buffer from `MemoryMappedAllocator` (memory/mmap.rs), which calls
// `libc::mmap` directly, and never gives it back (MmapAllocation has no Drop): every open
// costs 64 KiB of address space for good.  One run of this check reopens thousands of images,
// so without help the worker's RLIMIT_AS would be exhausted by the leak and `open` would start
// to answer Err for a reason that has nothing to do with the image.  The executable therefore
// defines `mmap` itself (symbols of the executable win over libc's at link time; glibc's own
// internal calls are not affected): while tracking is switched on for the current thread,
// anonymous private mappings are recorded so that the harness can unmap them once the
// structure that owned them is gone, and one PROT_NONE page is placed behind each of them, so
// that an access beyond the mapping zipora asked for faults deterministically instead of
// reading whatever happens to be mapped next.
mod fence {
    use std::cell::{Cell, RefCell};

    thread_local! {
        static ON: Cell<bool> = const { Cell::new(false) };
        static REGIONS: RefCell<Vec<(usize, usize)>> = const { RefCell::new(Vec::new()) };
    }
    const PAGE: usize = 4096;

    unsafe fn raw(addr: *mut libc::c_void, len: libc::size_t, prot: libc::c_int, flags: libc::c_int, fd: libc::c_int, off: libc::off_t) -> *mut libc::c_void {
        libc::syscall(libc::SYS_mmap, addr, len, prot, flags, fd, off) as *mut libc::c_void
    }

    #[no_mangle]
    pub unsafe extern "C" fn mmap(addr: *mut libc::c_void, len: libc::size_t, prot: libc::c_int, flags: libc::c_int, fd: libc::c_int, off: libc::off_t) -> *mut libc::c_void {
        let anon = fd == -1 && addr.is_null() && (flags & libc::MAP_ANONYMOUS) != 0 && (flags & libc::MAP_PRIVATE) != 0;
        let track = anon && len >= PAGE && ON.try_with(|c| c.get()).unwrap_or(false);
        if !track {
            return raw(addr, len, prot, flags, fd, off);
        }
        let rounded = (len + PAGE - 1) & !(PAGE - 1);
        let p = raw(std::ptr::null_mut(), rounded + PAGE, prot, flags, -1, 0);
        if p == libc::MAP_FAILED {
            return p;
        }
        libc::mprotect((p as *mut u8).add(rounded) as *mut libc::c_void, PAGE, libc::PROT_NONE);
        let _ = REGIONS.try_with(|r| r.borrow_mut().push((p as usize, rounded + PAGE)));
        p
    }

    pub fn on(v: bool) {
        ON.with(|c| c.set(v));
    }
    pub fn mark() -> usize {
        REGIONS.with(|r| r.borrow().len())
    }
    /// Unmap every tracked region created since `mark`.  Only call when the owners are gone.
    pub fn release_since(mark: usize) {
        let tail: Vec<(usize, usize)> = REGIONS.with(|r| {
            let mut r = r.borrow_mut();
            if mark >= r.len() {
                vec![]
            } else {
                r.split_off(mark)
            }
        });
        for (p, l) in tail {
            unsafe {
                libc::munmap(p as *mut libc::c_void, l);
            }
        }
    }
    /// Is the interposition live in this executable?
    pub fn selftest() -> bool {
        let was = ON.with(|c| c.replace(true));
        let m = mark();
        let p = unsafe { libc::mmap(std::ptr::null_mut(), 65536, libc::PROT_READ | libc::PROT_WRITE, libc::MAP_PRIVATE | libc::MAP_ANONYMOUS, -1, 0) };
        let ok = p != libc::MAP_FAILED && mark() == m + 1;
        if ok {
            release_since(m);
        } else if p != libc::MAP_FAILED {
            unsafe {
                libc::munmap(p, 65536);
            }
        }
        ON.with(|c| c.set(was));
        ok
    }
}

// ---------------------------------------------------------------------------------------
// scratch directory

struct Scratch(PathBuf);

/// A run that kills its process cannot remove its scratch directory; the next process to start
/// removes the directories of processes that no longer exist.
fn sweep_stale_scratch() {
    static ONCE: std::sync::Once = std::sync::Once::new();
    ONCE.call_once(|| {
        if let Ok(rd) = std::fs::read_dir(std::env::temp_dir()) {
            for e in rd.flatten() {
                let name = e.file_name().to_string_lossy().to_string();
                if let Some(rest) = name.strip_prefix("zsim-c19-") {
                    if let Some(pid) = rest.split('-').next().and_then(|p| p.parse::<u32>().ok()) {
                        if pid != std::process::id() && !Path::new(&format!("/proc/{}", pid)).exists() {
                            let _ = std::fs::remove_dir_all(e.path());
                        }
                    }
                }
            }
        }
    });
}

impl Scratch {
    fn new(cx: &Run, tag: &str) -> Scratch {
        sweep_stale_scratch();
        let d = std::env::temp_dir().join(format!("zsim-c19-{}-{:016x}-{}", std::process::id(), cx.src.seed, tag));
        let _ = std::fs::remove_dir_all(&d);
        std::fs::create_dir_all(&d).expect("scratch dir");
        Scratch(d)
    }
    fn path(&self, name: &str) -> PathBuf {
        self.0.join(name)
    }
}

impl Drop for Scratch {
    fn drop(&mut self) {
        let _ = std::fs::remove_dir_all(&self.0);
    }
}

// ---------------------------------------------------------------------------------------
// cases, outcomes, verdicts

enum Outcome<S> {
    Refused,
    Ok(S),
    Panic(String, String),
}

/// Run one recovery: descriptor to stderr first (a death is then attributable to this case),
/// then the recovery itself under catch_unwind.
fn recover<S>(scen: &str, desc: &str, f: impl FnOnce() -> Result<S, String>) -> Outcome<S> {
    eprintln!("E4 case: {} {}", scen, desc);
    match catch_unwind(AssertUnwindSafe(f)) {
        Ok(Ok(s)) => Outcome::Ok(s),
        Ok(Err(_)) => Outcome::Refused,
        Err(_) => {
            let (loc, msg) = zsim_core::e1::LAST_PANIC.with(|l| l.borrow_mut().take()).unwrap_or_else(|| ("<unknown>".into(), "<no message>".into()));
            Outcome::Panic(loc, msg)
        }
    }
}

const PRIO_PANIC: u8 = 3;
const PRIO_CLEAN: u8 = 2;
const PRIO_IMAGE: u8 = 1;

/// Violations seen in one run.  All cases of the run execute; the one reported is the most
/// severe (panic > clean reopen > damaged image), first seen among equals.
#[derive(Default)]
struct Verdicts {
    list: Vec<(u8, String, String, String)>,
}

impl Verdicts {
    fn add(&mut self, prio: u8, class: &str, site: &str, detail: String) {
        if !self.list.iter().any(|v| v.1 == class && v.2 == site) {
            self.list.push((prio, class.to_string(), site.to_string(), detail));
        }
    }
    fn report(self, cx: &mut Run) {
        let mut best: Option<&(u8, String, String, String)> = None;
        for v in &self.list {
            if best.map(|b| v.0 > b.0).unwrap_or(true) {
                best = Some(v);
            }
        }
        if let Some(v) = best {
            cx.violate(&v.1, &v.2, v.3.clone());
        }
    }
}

/// Per-family tally; one event line per family keeps the trace readable.
#[derive(Default)]
struct Tally {
    images: u64,
    refused: u64,
    ok_at: BTreeMap<usize, u64>,
    bad: u64,
    panics: u64,
}

/// Judge one recovered image against the durable states `states[0..]` (index = durable point).
fn judge<S: PartialEq>(
    cx: &mut Run,
    v: &mut Verdicts,
    t: &mut Tally,
    target: &str,
    fam: &str,
    desc: &str,
    out: Outcome<S>,
    states: &[(usize, &S)],
    show: &dyn Fn(&S) -> String,
) {
    t.images += 1;
    match out {
        Outcome::Refused => {
            t.refused += 1;
            cx.cell(format!("{}/{}/refused", target, fam));
        }
        Outcome::Ok(s) => match states.iter().rev().find(|(_, st)| **st == s) {
            Some((i, _)) => {
                *t.ok_at.entry(*i).or_insert(0) += 1;
                cx.cell(format!("{}/{}/ok_durable", target, fam));
            }
            None => {
                t.bad += 1;
                cx.cell(format!("{}/{}/never_durable", target, fam));
                if t.bad <= 3 {
                    cx.ev(format!("  {} {}: opened without error as {} - valid at no durable point", fam, desc, show(&s)));
                }
                v.add(
                    PRIO_IMAGE,
                    "state_never_durable",
                    &format!("{}.reopen/{}", target, fam),
                    format!("image [{}] reopened and read without any error as {}, which was the logical state at no durable point (S0..S{})", desc, show(&s), states.last().map(|x| x.0).unwrap_or(0)),
                );
            }
        },
        Outcome::Panic(loc, msg) => {
            t.panics += 1;
            cx.cell(format!("{}/{}/panic", target, fam));
            if t.panics <= 3 {
                cx.ev(format!("  {} {}: PANIC at {} ({})", fam, desc, loc, msg));
            }
            v.add(PRIO_PANIC, "panic", &loc, format!("{} image [{}]: {}", target, desc, msg));
        }
    }
}

fn tally_event(cx: &mut Run, fam: &str, t: &Tally) {
    let oks: Vec<String> = t.ok_at.iter().map(|(i, n)| format!("S{}x{}", i, n)).collect();
    cx.ev(format!("family {}: {} images -> refused={} ok_durable=[{}] never_durable={} panics={}", fam, t.images, t.refused, oks.join(","), t.bad, t.panics));
    *cx.faults.entry(fam.to_string()).or_insert(0) += t.images;
    cx.probe_n("images_recovered", t.images);
    cx.probe_n("images_refused", t.refused);
    cx.probe_n("images_ok_as_durable_state", t.ok_at.values().sum());
    cx.probe_n("images_ok_as_never_durable_state", t.bad);
}

/// The clean reopen (case zero): must be Ok and equal to `want`.
fn judge_clean<S: PartialEq>(cx: &mut Run, v: &mut Verdicts, target: &str, what: &str, out: Outcome<S>, want: &S, show: &dyn Fn(&S) -> String) -> bool {
    cx.probe("clean_reopens");
    match out {
        Outcome::Ok(s) if s == *want => {
            cx.cell(format!("{}/clean/ok", target));
            true
        }
        Outcome::Ok(s) => {
            cx.cell(format!("{}/clean/mismatch", target));
            cx.ev(format!("  clean reopen {}: got {} want {}", what, show(&s), show(want)));
            v.add(PRIO_CLEAN, "clean_reopen_mismatch", &format!("{}.reopen/clean", target), format!("{}: undamaged file reopened as {} but the last durable state was {}", what, show(&s), show(want)));
            false
        }
        Outcome::Refused => {
            cx.cell(format!("{}/clean/refused", target));
            cx.ev(format!("  clean reopen {}: refused, want {}", what, show(want)));
            v.add(PRIO_CLEAN, "clean_reopen_refused", &format!("{}.reopen/clean", target), format!("{}: undamaged file was refused; the last durable state was {}", what, show(want)));
            false
        }
        Outcome::Panic(loc, msg) => {
            cx.cell(format!("{}/clean/panic", target));
            cx.ev(format!("  clean reopen {}: PANIC at {} ({})", what, loc, msg));
            v.add(PRIO_PANIC, "panic", &loc, format!("{} clean reopen {}: {}", target, what, msg));
            false
        }
    }
}

// ---------------------------------------------------------------------------------------
// image families for single-file structures

#[derive(Clone, Copy, PartialEq, Debug)]
enum Fam {
    Trunc,
    ZeroTail,
    OldExt,
    Block,
    HdrData,
}

impl Fam {
    fn name(self) -> &'static str {
        match self {
            Fam::Trunc => "trunc",
            Fam::ZeroTail => "zero_tail",
            Fam::OldExt => "old_ext",
            Fam::Block => "block",
            Fam::HdrData => "hdr_data",
        }
    }
}

/// Every truncation length of an n-byte file: all of them up to 4 KiB, then every 512-byte
/// boundary -1/0/+1, and n-1.  (n itself is the undamaged file.)
fn trunc_lengths(n: usize) -> Vec<usize> {
    let mut v: Vec<usize> = (0..n.min(4097)).collect();
    // (a file far larger than anything the histories here are meant to produce - a defect in a
    // writer can do that - is sampled at a coarser stride instead of stalling the run)
    let stride = if n <= 256 * 1024 { 512 } else { (n / 512 / 512 + 1) * 512 };
    let mut b = 4608;
    while b <= n + 1 {
        for l in [b - 1, b, b + 1] {
            if l < n {
                v.push(l);
            }
        }
        b += stride;
    }
    if n > 0 {
        v.push(n - 1);
    }
    v.sort_unstable();
    v.dedup();
    v
}

fn old_byte(old: Option<&[u8]>, i: usize) -> u8 {
    old.and_then(|o| o.get(i).copied()).unwrap_or(0)
}

/// Enumerate the images of one family for the transition old -> new.
fn for_each_image(fam: Fam, old: Option<&[u8]>, new: &[u8], fault: &Chan, f: &mut dyn FnMut(&str, &[u8])) {
    let n = new.len();
    match fam {
        Fam::Trunc => {
            for l in trunc_lengths(n) {
                f(&format!("cut at {} of {}", l, n), &new[..l]);
            }
        }
        Fam::ZeroTail => {
            // blocks reach the disk whole: the written prefix ends on a 512-byte boundary
            let _ = fault;
            let mut img = vec![0u8; n];
            for k in (0..n).step_by(512 * (n / 512 / 512 + 1)) {
                img.iter_mut().for_each(|b| *b = 0);
                img[..k].copy_from_slice(&new[..k]);
                f(&format!("new bytes 0..{} then zeros to {}", k, n), &img);
            }
        }
        Fam::OldExt => {
            let o = old.unwrap_or(&[]);
            let mut img = vec![0u8; n];
            let k = o.len().min(n);
            img[..k].copy_from_slice(&o[..k]);
            f(&format!("old image ({} bytes) at the new length {}", o.len(), n), &img);
            // and the old length with the new bytes (set_len not yet done / done first)
            let m = o.len();
            let mut img2 = vec![0u8; m];
            let k2 = m.min(n);
            img2[..k2].copy_from_slice(&new[..k2]);
            f(&format!("new bytes at the old length {}", m), &img2);
        }
        Fam::Block => {
            for bs in [512usize, 4096] {
                let mut b = 0;
                let step = n / bs / 512 + 1;
                while b * bs < n {
                    let lo = b * bs;
                    let hi = (lo + bs).min(n);
                    let differs = (lo..hi).any(|i| new[i] != old_byte(old, i));
                    if differs {
                        let mut img = new.to_vec();
                        for i in lo..hi {
                            img[i] = old_byte(old, i);
                        }
                        f(&format!("{}-byte block {} rolled back to its pre-write content", bs, b), &img);
                    }
                    b += step;
                }
            }
        }
        Fam::HdrData => {
            for bs in [512usize, 4096] {
                if n <= bs {
                    continue;
                }
                let mut a = new.to_vec();
                for i in bs..n {
                    a[i] = old_byte(old, i);
                }
                f(&format!("first {} bytes new, the rest pre-write content", bs), &a);
                let mut b = new.to_vec();
                for i in 0..bs {
                    b[i] = old_byte(old, i);
                }
                f(&format!("first {} bytes pre-write content, the rest new", bs), &b);
            }
        }
    }
}

fn pick_family(cfg: &Chan, fams: &[Fam]) -> Fam {
    // index 0 (trunc) is what the shrinker converges to, and the family the statement spells out
    let w: Vec<u32> = (0..fams.len()).map(|i| if i == 0 { 3 } else { 1 }).collect();
    fams[cfg.weighted(&w)]
}

const ALL_FAMS: [Fam; 5] = [Fam::Trunc, Fam::ZeroTail, Fam::OldExt, Fam::Block, Fam::HdrData];

fn hex(v: &[u8], max: usize) -> String {
    let mut s = String::new();
    for b in v.iter().take(max) {
        s.push_str(&format!("{:02x}", b));
    }
    if v.len() > max {
        s.push_str(&format!("..({} bytes)", v.len()));
    }
    s
}

/// Values whose every byte is non-zero and which are unique per counter.
fn uval(c: u64) -> u64 {
    let mut v = 0u64;
    for i in 0..8 {
        v |= (0x80 | ((c >> (7 * i)) & 0x7f)) << (8 * i);
    }
    v
}

// =======================================================================================
// MmapVec

use zipora::memory::{MmapVec, MmapVecConfig};

struct MmapVecSc {
    large: bool,
}

type VecState = Vec<u64>;

fn show_vec(v: &VecState) -> String {
    let head: Vec<String> = v.iter().take(6).map(|x| format!("{:x}", x)).collect();
    format!("len {} [{}{}]", v.len(), head.join(","), if v.len() > 6 { ",.." } else { "" })
}

/// The configuration presets the library offers for opening (drawn once per run).
fn preset_config(p: u8) -> MmapVecConfig {
    match p {
        0 => MmapVecConfig::default(),
        1 => MmapVecConfig::read_only(),
        2 => MmapVecConfig::large_dataset(),
        3 => MmapVecConfig::persistent_cache(),
        4 => MmapVecConfig::performance_optimized(),
        5 => MmapVecConfig::memory_optimized(),
        6 => MmapVecConfig::realtime(),
        _ => MmapVecConfig::builder().with_initial_capacity(3).with_growth_factor(1.25).with_populate_pages(true).build(),
    }
}

fn mmapvec_readout(path: &Path, preset: u8) -> Result<VecState, String> {
    let v = MmapVec::<u64>::open(path, preset_config(preset)).map_err(|e| e.to_string())?;
    let n = v.len();
    let s = v.as_slice().to_vec();
    if s.len() != n {
        return Err("as_slice length differs from len()".into());
    }
    // the other observers of the same content
    if v.is_empty() != (n == 0) || v.stats().len != n || v.stats().capacity != v.capacity() || v.capacity() < n {
        return Err("is_empty()/stats()/capacity() disagree with len()".into());
    }
    if n <= 512 {
        let it: Vec<u64> = (&v).into_iter().copied().collect();
        if it != s || (&v).into_iter().len() != n {
            return Err("iteration differs from as_slice()".into());
        }
    }
    for i in [0usize, n / 2, n.saturating_sub(1)] {
        if i < n && v.get(i).copied() != Some(s[i]) {
            return Err("get() differs from as_slice()".into());
        }
    }
    if v.get(n).is_some() {
        return Err("get(len) is Some".into());
    }
    Ok(s)
}

/// A recovery of an MmapVec image, with the mapping it leaks given back afterwards.
fn mmapvec_recover(scen: &str, desc: &str, path: &Path, preset: u8) -> Outcome<VecState> {
    let m = fence::mark();
    let o = recover(scen, desc, || mmapvec_readout(path, preset));
    fence::release_since(m);
    o
}

/// Continued use of a reopened image: fill the vector up to the capacity it reports (no growth
/// is needed for that), sync, reopen.  Ok((pushed, final content)); Err = some call reported an error.
fn mmapvec_continue(path: &Path, limit: usize, preset: u8) -> Result<(Vec<u64>, VecState, Vec<u64>, VecState), String> {
    // (a preset that forbids writing or syncs on every push is opened writable / without that)
    let config = || MmapVecConfig { read_only: false, sync_on_write: false, ..preset_config(preset) };
    let mut v = MmapVec::<u64>::open(path, config()).map_err(|e| e.to_string())?;
    let room = v.capacity().saturating_sub(v.len()).min(limit);
    let mut pushed = vec![];
    for i in 0..room {
        let x = uval(0x7000_0000 + i as u64);
        v.push(x).map_err(|e| e.to_string())?;
        pushed.push(x);
    }
    v.sync().map_err(|e| e.to_string())?;
    drop(v);
    let mut w = MmapVec::<u64>::open(path, config()).map_err(|e| e.to_string())?;
    let fin = w.as_slice().to_vec();
    // ... and beyond: three more elements (the vector has to grow: sync, set_len, reload), one
    // element changed in place, sync, reopen
    let mut more = vec![];
    for i in 0..3u64 {
        let x = uval(0x7800_0000 + i);
        w.push(x).map_err(|e| e.to_string())?;
        more.push(x);
    }
    w.sync().map_err(|e| e.to_string())?;
    drop(w);
    let z = MmapVec::<u64>::open(path, config()).map_err(|e| e.to_string())?;
    Ok((pushed, fin, more, z.as_slice().to_vec()))
}

struct Snap<S> {
    bytes: Vec<u8>,
    /// logical state at this durable point (None: no file / nothing there yet)
    state: Option<S>,
    /// false: the structure's own open is not expected to accept this file (created, never synced)
    openable: bool,
    how: String,
}

impl Scenario for MmapVecSc {
    fn name(&self) -> String {
        if self.large { "MmapVec/large".into() } else { "MmapVec/history".into() }
    }
    fn budget(&self, tier: Tier) -> u64 {
        match (self.large, tier) {
            (false, Tier::Quick) => 4000,
            (false, Tier::Thorough) => 160_000,
            (true, Tier::Quick) => 32,
            (true, Tier::Thorough) => 480,
        }
    }
    fn run(&self, cx: &mut Run) {
        let scen = self.name();
        let cfg = cx.src.chan("cfg");
        let fault = cx.src.chan("fault");
        let fam = if self.large { Fam::Trunc } else { pick_family(&cfg, &ALL_FAMS) };
        let cap0 = if self.large { 8200 + cfg.below(400) as usize } else { *cfg.pick(&[1usize, 2, 3, 4, 8, 70, 130]) };
        let gf = *cfg.pick(&[1.5f64, 2.0, 1.618]);
        let sow = !self.large && cfg.chance(1, 5);
        let planned = if self.large { 2 } else { 4 + cfg.below(12) };
        let which_t = if self.large { 0 } else { cfg.small(8) };
        // (new knobs are drawn from their own channel: the meaning of the cfg tape stays as it was)
        let knobs = cx.src.chan("knobs");
        let preset = if knobs.chance(1, 2) { 1 + knobs.below(7) as u8 } else { 0 };
        let scratch = Scratch::new(cx, "mmapvec");
        let path = scratch.path("v.mmv");
        let img = scratch.path("img.mmv");
        let mut v = Verdicts::default();
        fence::on(true);
        let mark0 = fence::mark();
        let config = || MmapVecConfig { initial_capacity: cap0, growth_factor: gf, sync_on_write: sow, ..MmapVecConfig::default() };
        cx.ev(format!("create MmapVec<u64> initial_capacity={} growth_factor={} sync_on_write={}; reopen with configuration preset {}", cap0, gf, sow, preset));
        let mut vec = match MmapVec::<u64>::create(&path, config()) {
            Ok(x) => Some(x),
            Err(e) => {
                cx.ev(format!("create failed: {}", e));
                None
            }
        };
        let mut mem: VecState = vec![];
        let mut snaps: Vec<Snap<VecState>> = vec![];
        // S0: `create` writes and fsyncs a zero-filled file; the vector is empty then.  The file is
        // not openable yet (no header), but "empty" is what the structure held at that point, so
        // a damaged image that reads back as the empty vector is not held against it.
        snaps.push(Snap { bytes: std::fs::read(&path).unwrap_or_default(), state: Some(vec![]), openable: false, how: "create".into() });
        let mut ctr = 0u64;
        let mut fresh = |k: usize| -> Vec<u64> {
            (0..k)
                .map(|_| {
                    ctr += 1;
                    uval(ctr)
                })
                .collect()
        };
        let mut ops = cx.src.ops("ops", planned);
        let mut nops = 0u64;
        let mut first = true;
        while let (Some(o), true) = (ops.next(), vec.is_some()) {
            nops += 1;
            let h = vec.as_mut().unwrap();
            // states that existed while the operation ran: an implicit sync (growth,
            // sync_on_write) may have made any of them durable
            let mut cands: Vec<VecState> = vec![mem.clone()];
            let mut explicit = false;
            let k = if self.large { if first { 4 } else { 10 } } else { o[0] % 17 };
            first = false;
            let what: String;
            let res: Result<(), String> = match k {
                0 | 1 | 2 => {
                    let x = fresh(1)[0];
                    what = format!("push {:x}", x);
                    let r = h.push(x).map_err(|e| e.to_string());
                    if r.is_ok() {
                        mem.push(x);
                    }
                    r
                }
                3 => {
                    let got = h.pop();
                    what = format!("pop -> {:?}", got.map(|x| format!("{:x}", x)));
                    mem.pop();
                    Ok(())
                }
                4 => {
                    let n = if self.large { if o[2] % 2 == 0 { 8183 + (o[1] as usize) % (cap0 - 8183 + 1) } else { 1 + (o[1] as usize) % cap0 } } else if o[2] % 4 == 0 { 60 + (o[1] % 90) as usize } else { 1 + (o[1] % 5) as usize };
                    let xs = fresh(n);
                    what = format!("extend {} values", n);
                    for x in &xs {
                        mem.push(*x);
                        // growth in the middle of an extend syncs the elements pushed so far
                        // (large: the extend stays within the initial capacity, no growth)
                        if !self.large {
                            cands.push(mem.clone());
                        }
                    }
                    h.extend(xs.iter().copied()).map_err(|e| e.to_string())
                }
                5 => {
                    let n = (o[1] as usize) % (mem.len() + 2);
                    what = format!("truncate {}", n);
                    mem.truncate(n);
                    h.truncate(n).map_err(|e| e.to_string())
                }
                6 => {
                    let n = (o[1] as usize) % (mem.len() + 4);
                    let x = fresh(1)[0];
                    what = format!("resize {} fill {:x}", n, x);
                    if n < mem.len() {
                        mem.truncate(n);
                    } else {
                        while mem.len() < n {
                            mem.push(x);
                        }
                    }
                    h.resize(n, x).map_err(|e| e.to_string())
                }
                7 => {
                    let n = [0usize, 1, 2, 3, 4, 5, 70, 130][(o[1] % 8) as usize];
                    what = format!("reserve {}", n);
                    h.reserve(n).map_err(|e| e.to_string())
                }
                15 => {
                    // the whole content replaced by that of a second file-backed vector
                    let n = [0usize, 1, 3, 7, 8, 12, 70][(o[1] % 7) as usize];
                    let xs = fresh(n);
                    what = format!("copy_from_simd(a second vector of {} values)", n);
                    let src_path = scratch.path("src.mmv");
                    let r = (|| -> Result<(), String> {
                        let mut src = MmapVec::<u64>::create(&src_path, MmapVecConfig { initial_capacity: 2, ..MmapVecConfig::default() }).map_err(|e| e.to_string())?;
                        src.extend(xs.iter().copied()).map_err(|e| e.to_string())?;
                        h.copy_from_simd(&src).map_err(|e| e.to_string())
                    })();
                    if r.is_ok() {
                        mem = xs.clone();
                    }
                    r
                }
                16 => {
                    // elements changed in place, the length stays
                    if mem.is_empty() {
                        what = "in-place change skipped (empty)".into();
                        Ok(())
                    } else {
                        let x = fresh(1)[0];
                        let a = (o[1] as usize) % mem.len();
                        let b = (a + 1 + (o[3] as usize) % 9).min(mem.len());
                        match o[2] % 3 {
                            0 => {
                                what = format!("*get_mut({}) = {:x}", a, x);
                                mem[a] = x;
                                match h.get_mut(a) {
                                    Some(r) => {
                                        *r = x;
                                        Ok(())
                                    }
                                    None => Err("get_mut in range returned None".into()),
                                }
                            }
                            1 => {
                                what = format!("as_mut_slice()[{}..{}].fill({:x})", a, b, x);
                                mem[a..b].fill(x);
                                h.as_mut_slice()[a..b].fill(x);
                                Ok(())
                            }
                            _ => {
                                what = format!("fill_range_simd({}..{}, {:x})", a, b, x);
                                mem[a..b].fill(x);
                                h.fill_range_simd(a..b, x).map_err(|e| e.to_string())
                            }
                        }
                    }
                }
                8 => {
                    what = "clear".into();
                    mem.clear();
                    h.clear().map_err(|e| e.to_string())
                }
                9 => {
                    what = "shrink_to_fit".into();
                    h.shrink_to_fit().map_err(|e| e.to_string())
                }
                10 | 11 => {
                    what = "sync".into();
                    explicit = true;
                    h.sync().map_err(|e| e.to_string())
                }
                12 => {
                    // process restart: the handle goes away without a sync, the file is reopened
                    let dur = if snaps.last().unwrap().openable { snaps.last().unwrap().state.clone() } else { None };
                    match dur {
                        None => {
                            what = "sync (restart skipped: nothing durable yet)".into();
                            explicit = true;
                            h.sync().map_err(|e| e.to_string())
                        }
                        Some(d) => {
                            what = "restart (drop without sync, open)".into();
                            vec = None;
                            match MmapVec::<u64>::open(&path, config()) {
                                Ok(nv) => {
                                    let got = nv.as_slice().to_vec();
                                    if got != d {
                                        v.add(PRIO_CLEAN, "clean_reopen_mismatch", "MmapVec.reopen/clean", format!("restart: reopened as {} but the last durable state was {}", show_vec(&got), show_vec(&d)));
                                    }
                                    mem = d;
                                    vec = Some(nv);
                                    cx.probe("restarts");
                                    Ok(())
                                }
                                Err(e) => {
                                    v.add(PRIO_CLEAN, "clean_reopen_refused", "MmapVec.reopen/clean", format!("restart: undamaged file refused ({}); last durable state {}", e, show_vec(&d)));
                                    Err(e.to_string())
                                }
                            }
                        }
                    }
                }
                13 => {
                    let n = 1 + (o[1] % 12) as usize;
                    let xs = fresh(n);
                    what = format!("push_bulk_simd {} values", n);
                    let r = h.push_bulk_simd(&xs).map_err(|e| e.to_string());
                    if r.is_ok() {
                        mem.extend_from_slice(&xs);
                    }
                    r
                }
                _ => {
                    let n = (o[1] as usize) % (mem.len() + 1);
                    what = format!("pop_bulk_simd {}", n);
                    let r = h.pop_bulk_simd(n).map(|_| ()).map_err(|e| e.to_string());
                    if r.is_ok() {
                        let l = mem.len() - n;
                        mem.truncate(l);
                    }
                    r
                }
            };
            cands.push(mem.clone());
            if let Err(e) = &res {
                cx.ev(format!("{} -> Err({}); history ends here", what, e));
                break;
            }
            // did the file change?  then a durable point was passed inside this operation
            let bytes = std::fs::read(&path).unwrap_or_default();
            let changed = bytes != snaps.last().unwrap().bytes;
            if changed || explicit {
                let want: Vec<VecState> = if explicit { vec![mem.clone()] } else { cands.clone() };
                match mmapvec_recover(&scen, &format!("clean reopen after op {} ({})", nops, what), &path, preset) {
                    Outcome::Ok(s) => {
                        if want.iter().any(|w| *w == s) {
                            cx.ev(format!("{} -> durable S{} = {}", what, snaps.len(), show_vec(&s)));
                            if changed {
                                snaps.push(Snap { bytes, state: Some(s), openable: true, how: what.clone() });
                            }
                            cx.probe("durable_points");
                        } else {
                            cx.ev(format!("{} -> file reopens as {} but the model says {}", what, show_vec(&s), show_vec(&mem)));
                            v.add(PRIO_CLEAN, "clean_reopen_mismatch", "MmapVec.reopen/clean", format!("after [{}] the undamaged file reopens as {} but the vector held {} when it was synced", what, show_vec(&s), show_vec(&mem)));
                            break;
                        }
                    }
                    Outcome::Refused => {
                        cx.ev(format!("{} -> undamaged file refused", what));
                        v.add(PRIO_CLEAN, "clean_reopen_refused", "MmapVec.reopen/clean", format!("after [{}] the undamaged file is refused; the vector held {}", what, show_vec(&mem)));
                        break;
                    }
                    Outcome::Panic(loc, msg) => {
                        v.add(PRIO_PANIC, "panic", &loc, format!("MmapVec clean reopen after [{}]: {}", what, msg));
                        break;
                    }
                }
            } else {
                cx.ev(format!("{} (not durable)", what));
            }
        }
        drop(vec);
        cx.steps = nops;
        // ---- images of one transition
        if snaps.len() >= 2 {
            let t = snaps.len() - 1 - (which_t as usize).min(snaps.len() - 2);
            let new = snaps[t].bytes.clone();
            let old = snaps[t - 1].bytes.clone();
            let states: Vec<(usize, &VecState)> = snaps[..=t].iter().enumerate().filter_map(|(i, s)| s.state.as_ref().map(|st| (i, st))).collect();
            cx.ev(format!("images of S{} -> S{} [{}], file {} -> {} bytes, family {}", t - 1, t, snaps[t].how, old.len(), new.len(), fam.name()));
            let mut tl = Tally::default();
            for_each_image(fam, Some(&old), &new, &fault, &mut |desc, bytes| {
                if std::fs::write(&img, bytes).is_err() {
                    return;
                }
                let o = mmapvec_recover(&scen, &format!("{} {}", fam.name(), desc), &img, preset);
                let accepted: Option<VecState> = match &o {
                    Outcome::Ok(s) if states.iter().any(|(_, st)| **st == *s) => Some(s.clone()),
                    _ => None,
                };
                judge(cx, &mut v, &mut tl, "MmapVec", fam.name(), desc, o, &states, &show_vec);
                // an image that was accepted is then used: what the header vouches for (its
                // capacity) must really be there
                if let Some(s0) = accepted {
                    let m = fence::mark();
                    let o2 = recover(&scen, &format!("{} {} + continued use", fam.name(), desc), || mmapvec_continue(&img, 20_000, preset));
                    fence::release_since(m);
                    cx.probe("accepted_images_used_further");
                    match o2 {
                        Outcome::Ok((pushed, fin, more, fin2)) => {
                            let mut want = s0.clone();
                            want.extend_from_slice(&pushed);
                            if fin != want {
                                v.add(PRIO_IMAGE, "continued_use_mismatch", &format!("MmapVec.reopen+use/{}", fam.name()), format!("image [{}] reopened as {}; after {} pushes (within the reported capacity) and a sync it reopens as {}", desc, show_vec(&s0), pushed.len(), show_vec(&fin)));
                            } else {
                                want.extend_from_slice(&more);
                                cx.probe("accepted_images_grown");
                                if fin2 != want {
                                    v.add(PRIO_IMAGE, "continued_use_mismatch", &format!("MmapVec.reopen+grow/{}", fam.name()), format!("image [{}] reopened as {}; filled to its capacity ({} pushes), synced, reopened, {} more pushes (growth), synced: it reopens as {} instead of {}", desc, show_vec(&s0), pushed.len(), more.len(), show_vec(&fin2), show_vec(&want)));
                                }
                            }
                        }
                        Outcome::Refused => cx.probe("continued_use_reported_error"),
                        Outcome::Panic(loc, msg) => v.add(PRIO_PANIC, "panic", &loc, format!("MmapVec image [{}] continued use: {}", desc, msg)),
                    }
                }
            });
            tally_event(cx, fam.name(), &tl);
            cx.nontrivial = tl.images > 0;
        }
        fence::release_since(mark0);
        fence::on(false);
        v.report(cx);
    }
}


// =======================================================================================
// MmapVec<u8>: every mutator, including the ones that change elements in place without
// changing the length (get_mut, as_mut_slice, fill_range_simd with and without the >= 64-byte
// fast path), followed by sync and a reopen: "presents exactly the logical content it had
// when it was last synced".  No damaged images here - this scenario is about which
// mutations a sync makes durable.

struct MmapVecBytes;

fn show_bytes(v: &Vec<u8>) -> String {
    format!("len {} #{}", v.len(), hex(v, 10))
}

impl Scenario for MmapVecBytes {
    fn name(&self) -> String {
        "MmapVec/u8-inplace".into()
    }
    fn budget(&self, tier: Tier) -> u64 {
        match tier {
            Tier::Quick => 3000,
            Tier::Thorough => 120_000,
        }
    }
    fn run(&self, cx: &mut Run) {
        let cfg = cx.src.chan("cfg");
        let cap0 = *cfg.pick(&[1usize, 8, 64, 200, 1024]);
        let sow = cfg.chance(1, 6);
        let planned = 6 + cfg.below(18);
        let scratch = Scratch::new(cx, "mmapvec8");
        let path = scratch.path("b.mmv");
        let mut v = Verdicts::default();
        fence::on(true);
        let mark0 = fence::mark();
        let config = || MmapVecConfig { initial_capacity: cap0, growth_factor: 2.0, sync_on_write: sow, ..MmapVecConfig::default() };
        cx.ev(format!("create MmapVec<u8> initial_capacity={} sync_on_write={}", cap0, sow));
        let mut vec = MmapVec::<u8>::create(&path, config()).ok();
        let mut mem: Vec<u8> = vec![];
        let mut durable: Option<Vec<u8>> = None;
        let mut ctr = 0u8;
        let mut ops = cx.src.ops("ops", planned);
        let mut nops = 0u64;
        let mut since_sync: Vec<&'static str> = vec![];
        // every state the vector went through since the last explicit sync: growth and sync_on_write
        // sync implicitly, so any of them may legitimately be what a restart finds
        let mut since_states: Vec<Vec<u8>> = vec![];
        while let (Some(o), true) = (ops.next(), vec.is_some()) {
            nops += 1;
            let h = vec.as_mut().unwrap();
            ctr = ctr.wrapping_add(1).max(1);
            let what: String;
            let mut explicit = false;
            // (16 and 17 are further syncs: two operations in eighteen are explicit durable points)
            let res: Result<(), String> = match if o[0] % 18 >= 16 { 7 } else { o[0] % 18 } {
                9 => {
                    // (what pop returns is not C19's business; the length change is)
                    let got = h.pop();
                    mem.pop();
                    what = format!("pop -> {:?}", got);
                    since_sync.push("pop");
                    Ok(())
                }
                10 => {
                    let n = [0usize, 1, 63, 64, 65, 200, 1025][(o[1] % 7) as usize];
                    what = format!("resize({}, {:#x})", n, ctr);
                    since_sync.push("resize");
                    mem.resize(n, ctr);
                    h.resize(n, ctr).map_err(|e| e.to_string())
                }
                11 => {
                    if o[1] % 2 == 0 {
                        what = "clear".into();
                        since_sync.push("clear");
                        mem.clear();
                        h.clear().map_err(|e| e.to_string())
                    } else {
                        what = "shrink_to_fit".into();
                        since_sync.push("shrink_to_fit");
                        h.shrink_to_fit().map_err(|e| e.to_string())
                    }
                }
                12 => {
                    let n = [0usize, 1, 64, 300, 1100][(o[1] % 5) as usize];
                    what = format!("reserve {}", n);
                    since_sync.push("reserve");
                    h.reserve(n).map_err(|e| e.to_string())
                }
                13 => {
                    let n = [1usize, 8, 63, 64, 65, 128, 300][(o[1] % 7) as usize];
                    let xs: Vec<u8> = (0..n).map(|i| ctr.wrapping_mul(17).wrapping_add(i as u8)).collect();
                    what = format!("push_bulk_simd {} bytes", n);
                    since_sync.push(if n >= 64 { "push_bulk_simd(>=64B)" } else { "push_bulk_simd(<64B)" });
                    mem.extend_from_slice(&xs);
                    h.push_bulk_simd(&xs).map_err(|e| e.to_string())
                }
                14 => {
                    let n = [0usize, 1, 63, 64, 100][(o[1] % 5) as usize].min(mem.len());
                    what = format!("pop_bulk_simd {}", n);
                    since_sync.push("pop_bulk_simd");
                    let keep = mem.len() - n;
                    mem.truncate(keep);
                    h.pop_bulk_simd(n).map(|_| ()).map_err(|e| e.to_string())
                }
                15 => {
                    // the content of a second vector (file-backed, or the library's temporary one)
                    let n = [0usize, 1, 40, 63, 64, 100, 300][(o[1] % 7) as usize];
                    let xs: Vec<u8> = (0..n).map(|i| ctr.wrapping_mul(29).wrapping_add(i as u8)).collect();
                    let temp = o[2] % 2 == 1;
                    what = format!("copy_from_simd({} vector of {} bytes)", if temp { "with_capacity_simd" } else { "a second file-backed" }, n);
                    since_sync.push("copy_from_simd");
                    let src_path = scratch.path("src.mmv");
                    let r = (|| -> Result<(), String> {
                        let mut src = if temp { MmapVec::<u8>::with_capacity_simd(n).map_err(|e| e.to_string())? } else { MmapVec::<u8>::create(&src_path, MmapVecConfig { initial_capacity: 4, ..MmapVecConfig::default() }).map_err(|e| e.to_string())? };
                        src.extend(xs.iter().copied()).map_err(|e| e.to_string())?;
                        h.copy_from_simd(&src).map_err(|e| e.to_string())
                    })();
                    mem = xs;
                    r
                }
                0 | 1 => {
                    let n = [1usize, 3, 40, 70, 130, 200][(o[1] % 6) as usize];
                    let xs: Vec<u8> = (0..n).map(|i| ctr.wrapping_mul(31).wrapping_add(i as u8)).collect();
                    what = format!("extend {} bytes", n);
                    since_sync.push("extend");
                    for x in &xs {
                        mem.push(*x);
                        since_states.push(mem.clone());
                    }
                    h.extend(xs.iter().copied()).map_err(|e| e.to_string())
                }
                2 | 3 => {
                    if mem.is_empty() {
                        continue;
                    }
                    let len = [1usize, 7, 63, 64, 65, 100, 128][(o[1] % 7) as usize].min(mem.len());
                    let start = (o[2] as usize) % (mem.len() - len + 1);
                    what = format!("fill_range_simd({}..{}, {:#x})", start, start + len, ctr);
                    since_sync.push(if len >= 64 { "fill_range_simd(>=64B)" } else { "fill_range_simd(<64B)" });
                    if len >= 64 {
                        cx.probe("fill_range_fast_path");
                    }
                    for b in &mut mem[start..start + len] {
                        *b = ctr;
                    }
                    h.fill_range_simd(start..start + len, ctr).map_err(|e| e.to_string())
                }
                4 => {
                    if mem.is_empty() {
                        continue;
                    }
                    let i = (o[1] as usize) % mem.len();
                    what = format!("*get_mut({}) = {:#x}", i, ctr);
                    since_sync.push("get_mut");
                    mem[i] = ctr;
                    match h.get_mut(i) {
                        Some(r) => {
                            *r = ctr;
                            Ok(())
                        }
                        None => Err("get_mut in range returned None".into()),
                    }
                }
                5 => {
                    if mem.is_empty() {
                        continue;
                    }
                    let a = (o[1] as usize) % mem.len();
                    let b = (a + 1 + (o[2] as usize) % 80).min(mem.len());
                    what = format!("as_mut_slice()[{}..{}].fill({:#x})", a, b, ctr);
                    since_sync.push("as_mut_slice");
                    for x in &mut mem[a..b] {
                        *x = ctr;
                    }
                    h.as_mut_slice()[a..b].fill(ctr);
                    Ok(())
                }
                6 => {
                    let n = (o[1] as usize) % (mem.len() + 1);
                    what = format!("truncate {}", n);
                    since_sync.push("truncate");
                    mem.truncate(n);
                    h.truncate(n).map_err(|e| e.to_string())
                }
                7 => {
                    what = "sync".into();
                    explicit = true;
                    h.sync().map_err(|e| e.to_string())
                }
                _ => {
                    // restart without a sync: the file must still hold the last synced content
                    match durable.clone() {
                        None => {
                            what = "sync (restart skipped: nothing synced yet)".into();
                            explicit = true;
                            h.sync().map_err(|e| e.to_string())
                        }
                        Some(d) => {
                            what = "restart (drop without sync, open)".into();
                            vec = None;
                            match MmapVec::<u8>::open(&path, config()) {
                                Ok(nv) => {
                                    let got = nv.as_slice().to_vec();
                                    // growth and sync_on_write sync implicitly: any state since the last explicit sync is acceptable only if it equals the model now or the recorded durable state
                                    if got != d && got != mem && !since_states.contains(&got) {
                                        v.add(PRIO_CLEAN, "clean_reopen_mismatch", "MmapVec<u8>.reopen/restart", format!("restart: reopened as {} but the last synced state was {} (in memory: {})", show_bytes(&got), show_bytes(&d), show_bytes(&mem)));
                                    }
                                    mem = got;
                                    durable = Some(mem.clone());
                                    since_sync.clear();
                                    since_states.clear();
                                    vec = Some(nv);
                                    cx.probe("restarts");
                                    Ok(())
                                }
                                Err(e) => {
                                    v.add(PRIO_CLEAN, "clean_reopen_refused", "MmapVec<u8>.reopen/restart", format!("restart: undamaged file refused ({})", e));
                                    Err(e.to_string())
                                }
                            }
                        }
                    }
                }
            };
            if let Err(e) = &res {
                cx.ev(format!("{} -> Err({}); history ends here", what, e));
                break;
            }
            if explicit {
                match mmapvec8_recover(&path) {
                    Outcome::Ok(s) => {
                        if s == mem {
                            cx.ev(format!("{} -> durable {}", what, show_bytes(&s)));
                            cx.probe("durable_points");
                            durable = Some(s);
                            since_sync.clear();
                            since_states.clear();
                        } else {
                            cx.ev(format!("{} -> file reopens as {} but the vector holds {}", what, show_bytes(&s), show_bytes(&mem)));
                            let first_diff = s.iter().zip(mem.iter()).position(|(a, b)| a != b).unwrap_or(s.len().min(mem.len()));
                            v.add(PRIO_CLEAN, "clean_reopen_mismatch", "MmapVec<u8>.reopen/clean", format!("sync returned Ok but the file reopens as {} while the vector held {} (first difference at byte {}); mutations since the previous sync: {:?}", show_bytes(&s), show_bytes(&mem), first_diff, since_sync));
                            break;
                        }
                    }
                    Outcome::Refused => {
                        v.add(PRIO_CLEAN, "clean_reopen_refused", "MmapVec<u8>.reopen/clean", format!("after sync the undamaged file is refused; the vector held {}", show_bytes(&mem)));
                        break;
                    }
                    Outcome::Panic(loc, msg) => {
                        v.add(PRIO_PANIC, "panic", &loc, format!("MmapVec<u8> clean reopen after sync: {}", msg));
                        break;
                    }
                }
            } else {
                cx.ev(format!("{}", what));
                since_states.push(mem.clone());
            }
        }
        drop(vec);
        cx.steps = nops;
        cx.nontrivial = durable.is_some();
        fence::release_since(mark0);
        fence::on(false);
        v.report(cx);
    }
}

fn mmapvec8_recover(path: &Path) -> Outcome<Vec<u8>> {
    let m = fence::mark();
    let o = recover("MmapVec/u8-inplace", "clean reopen after sync", || {
        let v = MmapVec::<u8>::open(path, MmapVecConfig::default()).map_err(|e| e.to_string())?;
        Ok(v.as_slice().to_vec())
    });
    fence::release_since(m);
    o
}

// =======================================================================================
// PlainBlobStore (a directory of record files)

use zipora::blob_store::{BatchBlobStore, BlobStore, IterableBlobStore, PlainBlobStore};

type DirState = BTreeMap<u32, Vec<u8>>;

fn show_dir(s: &DirState) -> String {
    let items: Vec<String> = s.iter().take(8).map(|(k, v)| format!("{}:{}", k, hex(v, 6))).collect();
    format!("{{{}{}}}", items.join(" "), if s.len() > 8 { " .." } else { "" })
}

fn plain_readout(dir: &Path) -> Result<DirState, String> {
    let st = PlainBlobStore::new(dir).map_err(|e| e.to_string())?;
    let ids: Vec<u32> = st.iter_ids().collect();
    let mut m = DirState::new();
    for id in &ids {
        let d = st.get(*id).map_err(|e| e.to_string())?;
        match st.size(*id) {
            Ok(Some(n)) if n == d.len() => {}
            Ok(_) => return Err("size() disagrees with get()".into()),
            Err(e) => return Err(e.to_string()),
        }
        m.insert(*id, d);
    }
    if st.len() != ids.len() {
        return Err("len() disagrees with iter_ids()".into());
    }
    // the other observers: contains() and the batch front end
    let beyond = ids.iter().max().map(|x| x + 1).unwrap_or(1);
    if ids.iter().any(|id| !st.contains(*id)) || st.contains(beyond) {
        return Err("contains() disagrees with iter_ids()".into());
    }
    let batch = st.get_batch(ids.iter().copied().chain(std::iter::once(beyond))).map_err(|e| e.to_string())?;
    if batch.len() != ids.len() + 1 || batch.last() != Some(&None) || ids.iter().zip(batch.iter()).any(|(id, b)| b.as_ref() != m.get(id)) {
        return Err("get_batch() disagrees with get()".into());
    }
    Ok(m)
}

fn list_dir(dir: &Path) -> BTreeMap<String, Vec<u8>> {
    let mut m = BTreeMap::new();
    if let Ok(rd) = std::fs::read_dir(dir) {
        for e in rd.flatten() {
            if let Ok(b) = std::fs::read(e.path()) {
                m.insert(e.file_name().to_string_lossy().to_string(), b);
            }
        }
    }
    m
}

fn write_dir_image(dir: &Path, s: &DirState) {
    let _ = std::fs::remove_dir_all(dir);
    let _ = std::fs::create_dir_all(dir);
    for (k, v) in s {
        let _ = std::fs::write(dir.join(k.to_string()), v);
    }
}

struct PlainSc;

impl Scenario for PlainSc {
    fn name(&self) -> String {
        "PlainBlobStore/history".into()
    }
    fn budget(&self, tier: Tier) -> u64 {
        match tier {
            Tier::Quick => 3000,
            Tier::Thorough => 120_000,
        }
    }
    fn run(&self, cx: &mut Run) {
        let scen = self.name();
        let cfg = cx.src.chan("cfg");
        let planned = 3 + cfg.below(10);
        // family 0 used to ASSUME an in-place write of the record file; it is replaced by family 3
        // (crash points inside the real put), which observes what the code leaves behind
        let fam = match cfg.below(4) {
            0 => 3,
            f => f,
        };
        let which = cfg.small(6) as usize;
        let scratch = Scratch::new(cx, "plain");
        let dir = scratch.path("store");
        let imgdir = scratch.path("img");
        let mut v = Verdicts::default();
        let mut store = match PlainBlobStore::create_new(&dir) {
            Ok(s) => Some(s),
            Err(e) => {
                cx.ev(format!("create_new failed: {}", e));
                None
            }
        };
        cx.ev("create_new (S0 = empty store)");
        let mut model = DirState::new();
        let mut states: Vec<DirState> = vec![model.clone()];
        // (state index after the op, id, put?)
        let mut trans: Vec<(usize, u32, bool)> = vec![];
        let mut ctr = 0u64;
        let mut ops = cx.src.ops("ops", planned);
        let mut nops = 0;
        while let (Some(o), true) = (ops.next(), store.is_some()) {
            nops += 1;
            let st = store.as_mut().unwrap();
            match o[0] % 11 {
                8 => {
                    // several records through the batch front end (each one is a put of its own)
                    let n = 2 + (o[1] % 2) as usize;
                    let blobs: Vec<Vec<u8>> = (0..n)
                        .map(|j| {
                            ctr += 1;
                            let len = [0usize, 1, 9, 33, 600][((o[2] as usize) + j) % 5];
                            let mut data = format!("b{}:", ctr).into_bytes();
                            while data.len() < len {
                                data.push(0x80 | ((ctr as u8).wrapping_mul(11).wrapping_add(data.len() as u8) & 0x7f));
                            }
                            data.truncate(len);
                            data
                        })
                        .collect();
                    match st.put_batch(blobs.clone()) {
                        Ok(ids) if ids.len() == n => {
                            if let Some(id) = ids.iter().find(|id| model.contains_key(id)) {
                                cx.ev(format!("put_batch -> ids {:?}: id {} names a LIVE record; history ends here", ids, id));
                                v.add(PRIO_CLEAN, "live_record_overwritten", "PlainBlobStore.put_batch", format!("put_batch handed out id {} which still names a live record ({} bytes): that record is lost", id, model[id].len()));
                                break;
                            }
                            for (id, data) in ids.iter().zip(blobs.iter()) {
                                model.insert(*id, data.clone());
                                states.push(model.clone());
                                trans.push((states.len() - 1, *id, true));
                            }
                            cx.ev(format!("put_batch of {} records -> ids {:?} (S{})", n, ids, states.len() - 1));
                        }
                        Ok(ids) => {
                            cx.ev(format!("put_batch of {} records -> {} ids; history ends here", n, ids.len()));
                            break;
                        }
                        Err(e) => {
                            cx.ev(format!("put_batch -> Err({}); history ends here", e));
                            break;
                        }
                    }
                }
                9 => {
                    if model.is_empty() {
                        continue;
                    }
                    let a = *model.keys().nth((o[1] as usize) % model.len()).unwrap();
                    let b = *model.keys().nth((o[2] as usize) % model.len()).unwrap();
                    let r = st.remove_batch(vec![a, 2000 + (o[3] % 3) as u32, b]);
                    for id in [a, b] {
                        if model.remove(&id).is_some() {
                            states.push(model.clone());
                            trans.push((states.len() - 1, id, false));
                        }
                    }
                    cx.ev(format!("remove_batch [{}, absent, {}] -> {:?} (S{})", a, b, r.ok(), states.len() - 1));
                }
                10 => {
                    // a second handle on the same directory while the first one is alive
                    let o2 = recover(&scen, &format!("second handle after op {}", nops), || plain_readout(&dir));
                    let ok = judge_clean(cx, &mut v, "PlainBlobStore", "second handle", o2, &model, &show_dir);
                    cx.ev(format!("second handle -> {}", if ok { "same content" } else { "DIFFERENT" }));
                    cx.probe("second_handles");
                }
                0 | 1 | 2 | 3 => {
                    ctr += 1;
                    let len = match o[1] % 64 {
                        0..=3 => 0,
                        4..=7 => 1,
                        8..=11 => 2,
                        12..=15 => 3,
                        16..=23 => 5,
                        24..=31 => 8,
                        32..=39 => 13,
                        40..=47 => 40,
                        48..=50 => 600,
                        51 => 5000,
                        _ => 21,
                    };
                    let mut data = format!("r{}:", ctr).into_bytes();
                    while data.len() < len {
                        data.push(0x80 | ((ctr as u8).wrapping_mul(7).wrapping_add(data.len() as u8) & 0x7f));
                    }
                    data.truncate(len);
                    match st.put(&data) {
                        Ok(id) => {
                            // an id that still names a live record: that record has just been replaced
                            if let Some(old) = model.get(&id) {
                                cx.ev(format!("put {} bytes -> id {} which names a LIVE record of {} bytes; history ends here", data.len(), id, old.len()));
                                v.add(PRIO_CLEAN, "live_record_overwritten", "PlainBlobStore.put", format!("put handed out id {} which still names a live record ({} bytes): that record is lost", id, old.len()));
                                break;
                            }
                            model.insert(id, data.clone());
                            states.push(model.clone());
                            trans.push((states.len() - 1, id, true));
                            cx.ev(format!("put {} bytes {} -> id {} (S{})", data.len(), hex(&data, 8), id, states.len() - 1));
                        }
                        Err(e) => {
                            cx.ev(format!("put -> Err({}); history ends here", e));
                            break;
                        }
                    }
                }
                4 | 5 => {
                    if model.is_empty() {
                        continue;
                    }
                    let id = *model.keys().nth((o[1] as usize) % model.len()).unwrap();
                    match st.remove(id) {
                        Ok(()) => {
                            model.remove(&id);
                            states.push(model.clone());
                            trans.push((states.len() - 1, id, false));
                            cx.ev(format!("remove {} (S{})", id, states.len() - 1));
                        }
                        Err(e) => {
                            cx.ev(format!("remove {} -> Err({}); history ends here", id, e));
                            break;
                        }
                    }
                }
                6 => {
                    let id = 1000 + (o[1] % 5) as u32;
                    let r = st.remove(id);
                    cx.ev(format!("remove absent {} -> {}", id, if r.is_ok() { "Ok" } else { "Err" }));
                }
                _ => {
                    store = None;
                    let o2 = recover(&scen, &format!("restart after op {}", nops), || plain_readout(&dir));
                    let ok = judge_clean(cx, &mut v, "PlainBlobStore", "restart", o2, &model, &show_dir);
                    cx.ev(format!("restart -> {}", if ok { "same content" } else { "DIFFERENT" }));
                    cx.probe("restarts");
                    store = PlainBlobStore::new(&dir).ok();
                }
            }
        }
        drop(store);
        cx.steps = nops;
        // case zero
        let o = recover(&scen, "clean reopen", || plain_readout(&dir));
        judge_clean(cx, &mut v, "PlainBlobStore", "final", o, &model, &show_dir);
        // one image family
        let mut tl = Tally::default();
        let puts: Vec<&(usize, u32, bool)> = trans.iter().filter(|t| t.2).collect();
        let removes: Vec<&(usize, u32, bool)> = trans.iter().filter(|t| !t.2).collect();
        let famname = ["new_record_prefix", "record_cut", "removed_present", "crash_point"][fam as usize];
        match fam {
            0 if !puts.is_empty() => {
                // the put that led to S(t) was interrupted: its file is absent or any prefix
                let &(t, id, _) = puts[puts.len() - 1 - which.min(puts.len() - 1)];
                let data = states[t][&id].clone();
                let allowed: Vec<(usize, &DirState)> = states[..=t].iter().enumerate().collect();
                cx.ev(format!("images of S{} -> S{} (put id {} of {} bytes), family {}", t - 1, t, id, data.len(), famname));
                write_dir_image(&imgdir, &states[t]);
                let f = imgdir.join(id.to_string());
                let _ = std::fs::remove_file(&f);
                let o = recover(&scen, &format!("{} file {} absent", famname, id), || plain_readout(&imgdir));
                judge(cx, &mut v, &mut tl, "PlainBlobStore", famname, &format!("file {} absent", id), o, &allowed, &show_dir);
                for l in trunc_lengths(data.len()) {
                    let _ = std::fs::write(&f, &data[..l]);
                    let desc = format!("file {} cut at {} of {}", id, l, data.len());
                    let o = recover(&scen, &format!("{} {}", famname, desc), || plain_readout(&imgdir));
                    judge(cx, &mut v, &mut tl, "PlainBlobStore", famname, &desc, o, &allowed, &show_dir);
                }
            }
            1 if !model.is_empty() => {
                // any record file of the final store cut short at any byte
                let id = *model.keys().nth(which % model.len()).unwrap();
                let data = model[&id].clone();
                let allowed: Vec<(usize, &DirState)> = states.iter().enumerate().collect();
                cx.ev(format!("images of the final store S{}: record file {} ({} bytes), family {}", states.len() - 1, id, data.len(), famname));
                write_dir_image(&imgdir, &model);
                let f = imgdir.join(id.to_string());
                for l in trunc_lengths(data.len()) {
                    let _ = std::fs::write(&f, &data[..l]);
                    let desc = format!("file {} cut at {} of {}", id, l, data.len());
                    let o = recover(&scen, &format!("{} {}", famname, desc), || plain_readout(&imgdir));
                    judge(cx, &mut v, &mut tl, "PlainBlobStore", famname, &desc, o, &allowed, &show_dir);
                }
            }
            3 if !puts.is_empty() => {
                // The put that led to S(t) is re-executed by the REAL code on a copy of S(t-1) and killed at
                // each guarded crash point inside PlainBlobStore::put; what the code had left on disk at that
                // instant is the image (files written but not yet synced may survive as any prefix, and a
                // directory entry that was never synced may be missing).  Nothing about the write discipline
                // is assumed here: if put wrote in place, the half-written record file would show up.
                let &(t, id0, _) = puts[puts.len() - 1 - which.min(puts.len() - 1)];
                let data = states[t][&id0].clone();
                cx.ev(format!("crash points inside the put of S{} -> S{} ({} bytes), family {}", t - 1, t, data.len(), famname));
                for stage in ["plain.put.crash_after_create", "plain.put.crash_after_write", "plain.put.crash_after_sync"] {
                    write_dir_image(&imgdir, &states[t - 1]);
                    let before: BTreeMap<String, Vec<u8>> = list_dir(&imgdir);
                    let fired = std::sync::Arc::new(std::sync::atomic::AtomicBool::new(false));
                    let f2 = fired.clone();
                    zsim_core::hooks::set_fault(Some(Box::new(move |site: &'static str| {
                        if site == stage {
                            f2.store(true, std::sync::atomic::Ordering::SeqCst);
                            true
                        } else {
                            false
                        }
                    })));
                    let put_result = match PlainBlobStore::new(&imgdir) {
                        Ok(mut st) => st.put(&data).map_err(|e| e.to_string()),
                        Err(e) => Err(format!("open: {}", e)),
                    };
                    zsim_core::hooks::set_fault(None);
                    let did_fire = fired.load(std::sync::atomic::Ordering::SeqCst);
                    if did_fire {
                        cx.fault("crash_point");
                    } else {
                        cx.probe("crash_point_not_reached");
                    }
                    // the state the completed put would have produced on this copy
                    let mut done = states[t - 1].clone();
                    if let Ok(id) = &put_result {
                        done.insert(*id, data.clone());
                    }
                    let mut allowed: Vec<(usize, &DirState)> = states[..t].iter().enumerate().collect();
                    if put_result.is_ok() {
                        allowed.push((t, &done));
                    }
                    let after = list_dir(&imgdir);
                    let dirty: Vec<String> = after.iter().filter(|(k, v)| before.get(*k) != Some(*v)).map(|(k, _)| k.clone()).collect();
                    let desc0 = format!("{} fired={} dirty files {:?}", stage.rsplit('.').next().unwrap_or(stage), did_fire, dirty);
                    let o = recover(&scen, &format!("{} {} as left", famname, desc0), || plain_readout(&imgdir));
                    judge(cx, &mut v, &mut tl, "PlainBlobStore", famname, &format!("{} as left", desc0), o, &allowed, &show_dir);
                    // unsynced data may be lost: every prefix of every file touched before its sync, or the file missing
                    if stage != "plain.put.crash_after_sync" || !did_fire {
                        for name in &dirty {
                            let full = after[name].clone();
                            let fpath = imgdir.join(name);
                            for l in trunc_lengths(full.len()) {
                                if l == full.len() {
                                    continue;
                                }
                                let _ = std::fs::write(&fpath, &full[..l]);
                                let desc = format!("{} file {} survives as {} of {} bytes", stage.rsplit('.').next().unwrap_or(stage), name, l, full.len());
                                let o = recover(&scen, &format!("{} {}", famname, desc), || plain_readout(&imgdir));
                                judge(cx, &mut v, &mut tl, "PlainBlobStore", famname, &desc, o, &allowed, &show_dir);
                            }
                            let _ = std::fs::remove_file(&fpath);
                            let desc = format!("{} file {} never reached the directory", stage.rsplit('.').next().unwrap_or(stage), name);
                            let o = recover(&scen, &format!("{} {}", famname, desc), || plain_readout(&imgdir));
                            judge(cx, &mut v, &mut tl, "PlainBlobStore", famname, &desc, o, &allowed, &show_dir);
                            let _ = std::fs::write(&fpath, &full);
                        }
                    }
                    // ---- continued use after the crash: restore exactly what the killed put left behind,
                    // reopen, put a SHORTER record and read everything back (a leftover temporary file must
                    // not leak into a later record)
                    let _ = std::fs::remove_dir_all(&imgdir);
                    let _ = std::fs::create_dir_all(&imgdir);
                    for (name, bytes) in &after {
                        let _ = std::fs::write(imgdir.join(name), bytes);
                    }
                    let stage_name = stage.rsplit('.').next().unwrap_or(stage);
                    let o = recover(&scen, &format!("{} {} then put again", famname, stage_name), || {
                        let base = plain_readout(&imgdir)?;
                        let mut st2 = PlainBlobStore::new(&imgdir).map_err(|e| e.to_string())?;
                        let short: Vec<u8> = (0..(data.len() / 3)).map(|i| 0x40 | (i as u8 & 0x3f)).collect();
                        let id2 = st2.put(&short).map_err(|e| format!("put after recovery: {}", e))?;
                        drop(st2);
                        let again = plain_readout(&imgdir)?;
                        let mut want = base.clone();
                        want.insert(id2, short.clone());
                        if again != want {
                            let got = again.get(&id2).map(|v| format!("{} bytes {}", v.len(), hex(v, 8))).unwrap_or_else(|| "absent".into());
                            return Ok(Some(format!("after a put killed at {} and a reopen, a put of {} bytes as id {} reads back as {} (store {}, expected {})", stage_name, short.len(), id2, got, show_dir(&again), show_dir(&want))));
                        }
                        Ok(None)
                    });
                    tl.images += 1;
                    match o {
                        Outcome::Ok(None) => {}
                        Outcome::Ok(Some(msg)) => v.add(PRIO_CLEAN, "record_after_recovery_wrong", "PlainBlobStore.put_after_crash", msg),
                        Outcome::Refused => {}
                        Outcome::Panic(loc, msg) => v.add(PRIO_PANIC, "panic", &loc, format!("PlainBlobStore put after a crash at {}: {}", stage_name, msg)),
                    }
                }
            }
            2 if !removes.is_empty() => {
                let &(t, id, _) = removes[removes.len() - 1 - which.min(removes.len() - 1)];
                let allowed: Vec<(usize, &DirState)> = states[..=t].iter().enumerate().collect();
                cx.ev(format!("images of S{} -> S{} (remove id {}), family {}", t - 1, t, id, famname));
                write_dir_image(&imgdir, &states[t - 1]);
                let desc = format!("file {} still present", id);
                let o = recover(&scen, &format!("{} {}", famname, desc), || plain_readout(&imgdir));
                judge(cx, &mut v, &mut tl, "PlainBlobStore", famname, &desc, o, &allowed, &show_dir);
            }
            _ => {}
        }
        tally_event(cx, famname, &tl);
        cx.nontrivial = tl.images > 0;
        v.report(cx);
    }
}

// =======================================================================================
// Single-file structures that are written whole (create + sequential write, or a builder that
// finishes): a history is 1-3 builds at the SAME path, each finished build is a durable point.

use zsim_core::rng::Rng;

struct FileTarget<'a, S> {
    target: &'static str,
    file: &'static str,
    fams: &'a [Fam],
    /// build number k from one operation's four numbers into `path`; returns the logical state
    build: &'a mut dyn FnMut(&mut Run, usize, [u64; 4], &Path) -> Result<S, String>,
    readout: &'a dyn Fn(&Path) -> Result<S, String>,
    show: &'a dyn Fn(&S) -> String,
    /// continued use of a file that was accepted as the durable state `S` (first path), with a
    /// second scratch path to write to: Ok(None) = consistent, Ok(Some(text)) = not, Err = some call
    /// reported an error
    reuse: Option<&'a dyn Fn(&Path, &Path, &S) -> Result<Option<String>, String>>,
    /// use every file that loads without error further, not only the ones whose content was durable
    reuse_any_ok: bool,
    /// further images that only the real code can produce (an abandoned builder ...): called with
    /// the image path after the family; each call of the inner function judges one image it left there
    extra_images: Option<&'a mut dyn FnMut(&mut Run, &Path, &mut dyn FnMut(&mut Run, &str, &str))>,
}

fn run_file_target<S: PartialEq + Clone>(cx: &mut Run, scen: &str, ft: FileTarget<S>) {
    let cfg = cx.src.chan("cfg");
    let fault = cx.src.chan("fault");
    let fam = pick_family(&cfg, ft.fams);
    let planned = 1 + cfg.below(3);
    let which_t = cfg.small(3) as usize;
    let scratch = Scratch::new(cx, ft.file);
    let path = scratch.path(ft.file);
    let img = scratch.path("image.bin");
    let mut v = Verdicts::default();
    let mut snaps: Vec<Snap<S>> = vec![Snap { bytes: vec![], state: None, openable: false, how: "no file".into() }];
    let mut ops = cx.src.ops("ops", planned);
    let mut k = 0usize;
    while let Some(o) = ops.next() {
        k += 1;
        match (ft.build)(cx, k, o, &path) {
            Ok(state) => {
                let bytes = std::fs::read(&path).unwrap_or_default();
                cx.ev(format!("build {} finished -> durable S{} = {} ({} bytes on disk)", k, snaps.len(), (ft.show)(&state), bytes.len()));
                cx.probe("durable_points");
                // case zero for this durable point
                let o2 = recover(scen, &format!("clean reopen of S{}", snaps.len()), || (ft.readout)(&path));
                judge_clean(cx, &mut v, ft.target, &format!("S{}", snaps.len()), o2, &state, ft.show);
                snaps.push(Snap { bytes, state: Some(state), openable: true, how: format!("build {}", k) });
            }
            Err(e) => {
                cx.ev(format!("build {} -> Err({}); history ends here", k, e));
                break;
            }
        }
    }
    cx.steps = k as u64;
    if snaps.len() >= 2 {
        let t = snaps.len() - 1 - which_t.min(snaps.len() - 2);
        let new = snaps[t].bytes.clone();
        let old = if t >= 2 { Some(snaps[t - 1].bytes.clone()) } else { None };
        let states: Vec<(usize, &S)> = snaps[..=t].iter().enumerate().filter_map(|(i, s)| s.state.as_ref().map(|st| (i, st))).collect();
        cx.ev(format!("images of S{} -> S{}, file {} -> {} bytes, family {}", t - 1, t, old.as_ref().map(|o| o.len()).unwrap_or(0), new.len(), fam.name()));
        let mut tl = Tally::default();
        let img2 = scratch.path("image2.bin");
        // an accepted file is then USED (re-saved, reloaded, written through ...), not only read
        let use_further = |cx: &mut Run, v: &mut Verdicts, fam: &str, desc: &str, o: &Outcome<S>| {
            if let (Some(reuse), Outcome::Ok(st)) = (ft.reuse, o) {
                if ft.reuse_any_ok || states.iter().any(|(_, d)| **d == *st) {
                    let _ = std::fs::remove_file(&img2);
                    cx.probe("accepted_images_used_further");
                    match recover(scen, &format!("{} {} + continued use", fam, desc), || reuse(&img, &img2, st)) {
                        Outcome::Ok(None) => {}
                        Outcome::Ok(Some(msg)) => v.add(PRIO_IMAGE, "continued_use_mismatch", &format!("{}.reopen+use/{}", ft.target, fam), format!("image [{}] was accepted as {}; then: {}", desc, (ft.show)(st), msg)),
                        Outcome::Refused => cx.probe("continued_use_reported_error"),
                        Outcome::Panic(loc, msg) => v.add(PRIO_PANIC, "panic", &loc, format!("{} image [{}] continued use: {}", ft.target, desc, msg)),
                    }
                }
            }
        };
        // (the undamaged file first)
        if std::fs::write(&img, &new).is_ok() {
            let o = recover(scen, "undamaged copy", || (ft.readout)(&img));
            use_further(cx, &mut v, "clean", "undamaged copy", &o);
        }
        for_each_image(fam, old.as_deref(), &new, &fault, &mut |desc, bytes| {
            if std::fs::write(&img, bytes).is_err() {
                return;
            }
            let o = recover(scen, &format!("{} {}", fam.name(), desc), || (ft.readout)(&img));
            use_further(cx, &mut v, fam.name(), desc, &o);
            judge(cx, &mut v, &mut tl, ft.target, fam.name(), desc, o, &states, ft.show);
        });
        tally_event(cx, fam.name(), &tl);
        if let Some(extra) = ft.extra_images {
            let mut tl2 = Tally::default();
            let mut n_extra = 0u64;
            extra(cx, &img, &mut |cx: &mut Run, famx: &str, desc: &str| {
                let o = recover(scen, &format!("{} {}", famx, desc), || (ft.readout)(&img));
                judge(cx, &mut v, &mut tl2, ft.target, famx, desc, o, &states, ft.show);
                n_extra += 1;
            });
            if n_extra > 0 {
                tally_event(cx, "real_code_images", &tl2);
            }
        }
        cx.nontrivial = tl.images > 0;
    }
    v.report(cx);
}

// ---------------------------------------------------------------------------------------
// ZReorderMap

use zipora::blob_store::{ZReorderMap, ZReorderMapBuilder};

type MapState = (usize, i64, Vec<usize>);

fn show_map(s: &MapState) -> String {
    let head: Vec<String> = s.2.iter().take(8).map(|x| x.to_string()).collect();
    let note = match s.1 {
        0 => "",
        -1 => " (eof() true before size() values, or len() != 0 at eof)",
        -2 => " (index()/current()/len()/size_hint() disagree with next())",
        _ => " (next() returned None while eof() was false)",
    };
    format!("size()={} delivered={} [{}{}]{}", s.0, s.2.len(), head.join(","), if s.2.len() > 8 { ",.." } else { "" }, note)
}

fn reorder_readout(path: &Path) -> Result<MapState, String> {
    let mut m = ZReorderMap::open(path).map_err(|e| e.to_string())?;
    let size = m.size();
    let mut vals = Vec::new();
    // the other observers of the same position: eof(), index(), current(), len()/size_hint()
    loop {
        let i = vals.len();
        if m.eof() {
            if m.len() != 0 || i != size {
                return Ok((size, -1, vals));
            }
            break;
        }
        let (idx, cur, left) = (m.index(), m.current(), m.len());
        match m.next() {
            Some(x) => {
                if idx != i || cur != x || left != size - i || m.size_hint() != (size - i - 1, Some(size - i - 1)) {
                    // (reported as a state that was never durable: the -2 marks which observer)
                    vals.push(x);
                    return Ok((size, -2, vals));
                }
                vals.push(x);
            }
            None => return Ok((size, -3, vals)),
        }
    }
    // a second handle on the same file while this one is open, read in full
    {
        let other: Vec<usize> = ZReorderMap::open(path).map_err(|e| e.to_string())?.collect();
        if other != vals {
            return Err("a second handle delivers other values".into());
        }
    }
    // half a pass, then rewind
    if size >= 2 {
        m.rewind().map_err(|e| e.to_string())?;
        for _ in 0..size / 2 {
            m.next();
        }
    }
    // a second pass must deliver the same
    m.rewind().map_err(|e| e.to_string())?;
    let mut again = Vec::new();
    while let Some(x) = m.next() {
        again.push(x);
    }
    if again != vals {
        return Err("second pass after rewind() differs".into());
    }
    // sign is not exposed; it is part of the state only through the values
    Ok((size, 0, vals))
}

struct ReorderSc;

impl Scenario for ReorderSc {
    fn name(&self) -> String {
        "ZReorderMap/builds".into()
    }
    fn budget(&self, tier: Tier) -> u64 {
        match tier {
            Tier::Quick => 4000,
            Tier::Thorough => 160_000,
        }
    }
    fn run(&self, cx: &mut Run) {
        let scen = self.name();
        let mut prev_vals: Vec<usize> = vec![];
        let last_build: std::cell::RefCell<(Vec<usize>, i64)> = std::cell::RefCell::new((vec![], 1));
        let mut build = |cx: &mut Run, k: usize, o: [u64; 4], path: &Path| -> Result<MapState, String> {
            let mut r = Rng::new(o[1] << 20 | o[2]);
            let n = match o[0] % 18 {
                16 => 16_384 + (o[1] % 3000) as usize,
                17 => prev_vals.len(),
                0 => 0,
                1 => 1,
                2 => 2,
                3 | 4 => 3,
                5 | 6 => 5,
                7 | 8 => 8,
                9 | 10 => 20,
                11 | 12 => 60,
                13 => 900,
                14 => 2500,
                _ => 12,
            } as usize;
            let sign: i64 = if o[3] % 3 == 0 { -1 } else { 1 };
            let mut vals: Vec<usize> = Vec::with_capacity(n);
            // every third map is made of single values only, so that the builder's 4 KiB write
            // buffer fills up and is flushed before finish()
            let singles_only = (o[3] / 3) % 3 == 0 && o[0] % 18 != 16;
            if o[0] % 18 == 16 {
                // one run long enough for a three-byte length; descending runs may end at 0
                let base = if sign > 0 { 7 + r.below(50) as usize } else if r.below(2) == 0 { n - 1 } else { n + r.below(50) as usize };
                for j in 0..n {
                    vals.push(if sign > 0 { base + j } else { base - j });
                }
                cx.probe("reorder_run_with_three_byte_length");
            }
            if o[0] % 18 == 17 && !prev_vals.is_empty() {
                // the previous map again (same path, same size) with one value changed
                vals = prev_vals.clone();
                let i = (o[2] as usize) % vals.len();
                vals[i] = 400 + r.below(5000) as usize;
                cx.probe("reorder_previous_map_one_value_changed");
            }
            while vals.len() < n {
                let run = match if singles_only { 0 } else { r.below(8) } {
                    0 | 1 | 2 => 1,
                    3 | 4 => 2,
                    5 => 3 + r.below(6) as usize,
                    6 => 100 + r.below(200) as usize,
                    _ => 1,
                }
                .min(n - vals.len());
                let base = if r.below(20) == 0 {
                    0x7FFF_FFFF_FF - 400 + r.below(100) as usize
                } else if sign < 0 && r.below(12) == 0 {
                    run - 1 // a descending run that ends at exactly 0
                } else {
                    400 + r.below(5000) as usize + k * 10_000
                };
                for j in 0..run {
                    vals.push(if sign > 0 { base + j } else { base - j });
                }
            }
            cx.ev(format!("build {}: ZReorderMapBuilder::new(size={}, sign={}), push x{}, finish", k, n, sign, n));
            let mut b = ZReorderMapBuilder::new(path, n, sign).map_err(|e| e.to_string())?;
            // one build in four also makes the two mistakes the builder documents as errors (a value
            // beyond 40 bits half-way, one push too many at the end) and carries on: the refused
            // pushes must leave no trace in the file
            let mistakes = (o[3] / 9) % 4 == 0;
            for (i, x) in vals.iter().enumerate() {
                if mistakes && i == n / 2 {
                    if b.push(0x80_0000_0000).is_ok() {
                        return Err("the builder accepted a 41-bit value".into());
                    }
                    cx.probe("reorder_builder_used_after_refused_push");
                }
                b.push(*x).map_err(|e| e.to_string())?;
            }
            if mistakes && b.push(7).is_ok() {
                return Err("the builder accepted more values than announced".into());
            }
            b.finish().map_err(|e| e.to_string())?;
            if std::fs::metadata(path).map(|m| m.len()).unwrap_or(0) > 16 + 4096 {
                cx.probe("reorder_builder_buffer_flushed_before_finish");
            }
            prev_vals = vals.clone();
            *last_build.borrow_mut() = (vals.clone(), sign);
            Ok((n, 0, vals))
        };
        // What a builder that never reached finish() leaves behind (the process died, or finish()
        // refused because elements were missing): the declared size in the header, the entries
        // flushed so far.  Produced by the real builder, not assumed.
        let mut aborted = |cx: &mut Run, img: &Path, judge_one: &mut dyn FnMut(&mut Run, &str, &str)| {
            let (vals, sign) = last_build.borrow().clone();
            let n = vals.len();
            if n == 0 {
                return;
            }
            let mut ks: Vec<usize> = vec![0, 1, n / 2, n - 1];
            // around the 4 KiB flushes of the write buffer (single values take 5 bytes each)
            for f in [820usize, 1640] {
                if f < n {
                    ks.push(f);
                }
            }
            ks.sort_unstable();
            ks.dedup();
            for k in ks {
                if k >= n {
                    continue;
                }
                let how = (k + n) % 2;
                let r = (|| -> Result<(), String> {
                    let mut b = ZReorderMapBuilder::new(img, n, sign).map_err(|e| e.to_string())?;
                    for x in &vals[..k] {
                        b.push(*x).map_err(|e| e.to_string())?;
                    }
                    if how == 0 {
                        drop(b);
                    } else if b.finish().is_ok() {
                        return Err("finish() accepted a builder with elements missing".into());
                    }
                    Ok(())
                })();
                if r.is_err() {
                    cx.probe("reorder_aborted_builder_setup_failed");
                    continue;
                }
                cx.fault("builder_abandoned");
                judge_one(cx, "builder_abandoned", &format!("builder for {} values {} after {} pushes", n, if how == 0 { "dropped" } else { "refused by finish()" }, k));
            }
        };
        run_file_target(cx, &scen, FileTarget { target: "ZReorderMap", file: "reorder.map", fams: &ALL_FAMS, build: &mut build, readout: &reorder_readout, show: &show_map, reuse: None, reuse_any_ok: false, extra_images: Some(&mut aborted) });
    }
}

// ---------------------------------------------------------------------------------------
// ZipOffsetBlobStore (save_to_file / load_from_file)

use zipora::blob_store::{ZipOffsetBlobStore, ZipOffsetBlobStoreBuilder, ZipOffsetBlobStoreConfig};

type RecState = Vec<Vec<u8>>;

fn show_recs(s: &RecState) -> String {
    let items: Vec<String> = s.iter().take(6).map(|v| hex(v, 6)).collect();
    format!("{} records [{}{}]", s.len(), items.join(" "), if s.len() > 6 { " .." } else { "" })
}

fn zipoffset_state(st: &ZipOffsetBlobStore) -> Result<RecState, String> {
    let n = st.len();
    let mut out = Vec::with_capacity(n);
    for i in 0..n {
        out.push(st.get(i as u32).map_err(|e| e.to_string())?);
    }
    Ok(out)
}

fn zipoffset_readout(path: &Path) -> Result<RecState, String> {
    let st = ZipOffsetBlobStore::load_from_file(path).map_err(|e| e.to_string())?;
    zipoffset_state(&st)
}

/// Continued use of a loaded store: every accessor once more (out-of-range ids included), then
/// saved again under another name and loaded from there.
fn zipoffset_reuse(img: &Path, img2: &Path, st0: &RecState) -> Result<Option<String>, String> {
    let st = ZipOffsetBlobStore::load_from_file(img).map_err(|e| e.to_string())?;
    let n = st.len();
    if st.get(n as u32).is_ok() || st.contains(n as u32) || matches!(st.size(n as u32), Ok(Some(_))) {
        return Ok(Some(format!("record id {} (= len()) is served", n)));
    }
    for i in 0..n {
        if !st.contains(i as u32) {
            return Ok(Some(format!("contains({}) is false with len() {}", i, n)));
        }
        if let (Ok(d), Ok(Some(sz))) = (st.get(i as u32), st.size(i as u32)) {
            if d.len() != sz {
                return Ok(Some(format!("size({}) = {} but get returns {} bytes", i, sz, d.len())));
            }
        }
    }
    st.save_to_file(img2).map_err(|e| e.to_string())?;
    let again = zipoffset_readout(img2)?;
    if again != *st0 {
        return Ok(Some(format!("saved again and loaded: {}", show_recs(&again))));
    }
    // through the reader/writer front end as well
    let mut buf: Vec<u8> = vec![];
    st.save_to_writer(&mut buf).map_err(|e| e.to_string())?;
    let st3 = ZipOffsetBlobStore::load_from_reader(&mut &buf[..]).map_err(|e| e.to_string())?;
    let third = zipoffset_state(&st3)?;
    if third != *st0 {
        return Ok(Some(format!("save_to_writer + load_from_reader: {}", show_recs(&third))));
    }
    Ok(None)
}

struct ZipOffsetSc;

impl Scenario for ZipOffsetSc {
    fn name(&self) -> String {
        "ZipOffsetBlobStore/save".into()
    }
    fn budget(&self, tier: Tier) -> u64 {
        match tier {
            Tier::Quick => 400,
            Tier::Thorough => 16_000,
        }
    }
    fn run(&self, cx: &mut Run) {
        let scen = self.name();
        let mut build = |cx: &mut Run, k: usize, o: [u64; 4], path: &Path| -> Result<RecState, String> {
            let mut r = Rng::new(o[1] << 20 | o[2]);
            let config = ZipOffsetBlobStoreConfig { compress_level: if o[3] % 2 == 0 { 0 } else { 3 }, checksum_level: if (o[3] / 2) % 2 == 0 { 0 } else { 2 }, ..ZipOffsetBlobStoreConfig::default() };
            let nrec = (o[0] % 7) as usize;
            let mut b = ZipOffsetBlobStoreBuilder::with_config(config.clone()).map_err(|e| e.to_string())?;
            let mut added = 0usize;
            for i in 0..nrec {
                let len = [0usize, 1, 3, 8, 21, 40, 700][r.below(7) as usize];
                let rec: Vec<u8> = (0..len).map(|j| 0x80 | ((k * 31 + i * 7 + j) as u8 & 0x7f)).collect();
                b.add_record(&rec).map_err(|e| e.to_string())?;
                added += 1;
            }
            let st = b.finish().map_err(|e| e.to_string())?;
            // the logical content is what the store itself presents when it is saved
            let state = zipoffset_state(&st)?;
            if state.len() != added {
                cx.probe("zipoffset_store_presents_fewer_records_than_added");
            }
            cx.ev(format!("build {}: builder(compress={}, checksum={}) + {} records, finish -> store presents {} records; save_to_file", k, config.compress_level, config.checksum_level, added, state.len()));
            st.save_to_file(path).map_err(|e| e.to_string())?;
            Ok(state)
        };
        run_file_target(cx, &scen, FileTarget { target: "ZipOffsetBlobStore", file: "store.zo", fams: &ALL_FAMS, build: &mut build, readout: &zipoffset_readout, show: &show_recs, reuse: Some(&zipoffset_reuse), reuse_any_ok: true, extra_images: None });
    }
}

// ---------------------------------------------------------------------------------------
// SuffixArrayDictionary::save_to_file / load_from_file, also through
// DictZipBlobStore::{from_dictionary_file, save_dictionary, load_dictionary}

use zipora::compression::dict_zip::{DictZipBlobStore, DictZipBlobStoreBuilder, DictZipConfig, SuffixArrayDictionary, SuffixArrayDictionaryConfig};

#[derive(Clone, PartialEq)]
struct DictState {
    text: Vec<u8>,
    min_len: usize,
    max_len: usize,
    /// longest match (length, position in the dictionary text) for each probe of the run
    matches: Vec<Option<(usize, usize)>>,
    /// a blob put into a DictZipBlobStore opened on the file comes back unchanged
    store_roundtrip: Option<bool>,
}

fn show_dict(s: &DictState) -> String {
    format!("text {} bytes {} min/max pattern {}/{} matches {:?} store_roundtrip {:?}", s.text.len(), hex(&s.text, 8), s.min_len, s.max_len, s.matches, s.store_roundtrip)
}

fn dict_state(d: &mut SuffixArrayDictionary, probes: &[Vec<u8>]) -> Result<DictState, String> {
    let mut matches = vec![];
    for p in probes {
        let m = d.find_longest_match(p, 0, 64).map_err(|e| e.to_string())?;
        matches.push(m.map(|m| (m.length, m.dict_position)));
    }
    Ok(DictState { text: d.data().to_vec(), min_len: d.config().min_pattern_length, max_len: d.config().max_pattern_length, matches, store_roundtrip: None })
}

fn dictzip_config() -> DictZipConfig {
    DictZipConfig { cache_size_bytes: 64 * 1024, ..DictZipConfig::default() }
}

fn dict_readout(path: &Path, probes: &[Vec<u8>], through_store: bool) -> Result<DictState, String> {
    let mut d = SuffixArrayDictionary::load_from_file(path).map_err(|e| e.to_string())?;
    let mut st = dict_state(&mut d, probes)?;
    if through_store {
        let mut store = DictZipBlobStore::from_dictionary_file(path, dictzip_config()).map_err(|e| e.to_string())?;
        let blob: Vec<u8> = probes.iter().flat_map(|p| p.iter().copied()).chain((0..80).map(|i| b'a' + (i % 7) as u8)).collect();
        let id = store.put(&blob).map_err(|e| e.to_string())?;
        let got = store.get(id).map_err(|e| e.to_string())?;
        st.store_roundtrip = Some(got == blob);
        store.load_dictionary(path).map_err(|e| e.to_string())?;
        // ... and the store is used after the dictionary was loaded into it: a shorter and a longer blob
        for cut in [blob.len() / 3, blob.len()] {
            let mut b2 = blob[..cut].to_vec();
            b2.extend_from_slice(&blob);
            let id2 = store.put(&b2).map_err(|e| e.to_string())?;
            let got2 = store.get(id2).map_err(|e| e.to_string())?;
            if got2 != b2 {
                st.store_roundtrip = Some(false);
            }
        }
    }
    Ok(st)
}

/// Continued use of a dictionary file that was accepted: loaded, saved under another name,
/// loaded from there, asked the same questions.
fn dict_reuse(img: &Path, img2: &Path, st0: &DictState, probes: &[Vec<u8>], through_store: bool) -> Result<Option<String>, String> {
    if through_store {
        let store = DictZipBlobStore::from_dictionary_file(img, dictzip_config()).map_err(|e| e.to_string())?;
        store.save_dictionary(img2).map_err(|e| e.to_string())?;
    } else {
        let d = SuffixArrayDictionary::load_from_file(img).map_err(|e| e.to_string())?;
        d.save_to_file(img2).map_err(|e| e.to_string())?;
    }
    let again = dict_readout(img2, probes, through_store)?;
    if again != *st0 {
        return Ok(Some(format!("loaded, saved again and loaded from there: {}", show_dict(&again))));
    }
    Ok(None)
}

struct DictSc {
    through_store: bool,
}

impl Scenario for DictSc {
    fn name(&self) -> String {
        if self.through_store { "DictZipBlobStore/save_dictionary".into() } else { "SuffixArrayDictionary/save".into() }
    }
    fn budget(&self, tier: Tier) -> u64 {
        match (self.through_store, tier) {
            (false, Tier::Quick) => 1200,
            (false, Tier::Thorough) => 48_000,
            (true, Tier::Quick) => 600,
            (true, Tier::Thorough) => 24_000,
        }
    }
    fn run(&self, cx: &mut Run) {
        let scen = self.name();
        let through_store = self.through_store;
        // the probes are fixed for the run (every read-out answers the same questions)
        let pc = cx.src.chan("probes");
        let words: [&[u8]; 6] = [b"abcab", b"the quick ", b"brown fox ", b"0101", b"zzzzzzzz", b"lorem ipsum "];
        let mut probes: Vec<Vec<u8>> = vec![];
        for _ in 0..3 {
            let mut p = vec![];
            for _ in 0..(1 + pc.below(3)) {
                p.extend_from_slice(words[pc.below(6) as usize]);
            }
            probes.push(p);
        }
        let probes2 = probes.clone();
        let scratch2 = Scratch::new(cx, "dict-tmp");
        let tmp = scratch2.path("direct.dict");
        let ext = scratch2.path("external.dict");
        let ext2 = scratch2.path("external-saved.dict");
        let side: std::cell::RefCell<Option<String>> = std::cell::RefCell::new(None);
        let mut prev_text: Vec<u8> = vec![];
        let mut build = |cx: &mut Run, k: usize, o: [u64; 4], path: &Path| -> Result<DictState, String> {
            let mut r = Rng::new(o[1] << 20 | o[2]);
            let nwords = [2usize, 4, 6, 12, 20, 6, 60, 2][(o[0] % 8) as usize];
            let mut text = vec![];
            for _ in 0..nwords {
                text.extend_from_slice(words[r.below(6) as usize]);
                if r.below(4) == 0 {
                    text.push(b'A' + r.below(26) as u8);
                }
            }
            // every third later build is related to the one before it at the same path: the same
            // text again, one byte changed (same length), or the old text with more behind it
            if !prev_text.is_empty() && o[2] % 3 == 0 {
                match o[2] / 3 % 3 {
                    0 => text = prev_text.clone(),
                    1 => {
                        text = prev_text.clone();
                        let i = (o[1] as usize) % text.len();
                        text[i] = b'A' + ((text[i] as u64 + 1 + o[3] % 20) % 26) as u8;
                    }
                    _ => {
                        let mut t2 = prev_text.clone();
                        t2.extend_from_slice(&text);
                        text = t2;
                    }
                }
                cx.probe("dictionary_text_derived_from_previous_build");
            }
            prev_text = text.clone();
            let config = SuffixArrayDictionaryConfig { min_frequency: 1 + (o[3] % 4) as u32, max_bfs_depth: 2 + (o[3] / 4 % 4) as u32, min_pattern_length: 2 + (o[3] / 16 % 3) as usize, max_pattern_length: 16 + (o[3] / 64 % 3) as usize * 24, max_cache_states: 4096, use_memory_pool: o[3] / 256 % 2 == 0, ..SuffixArrayDictionaryConfig::default() };
            let mut d = SuffixArrayDictionary::new(&text, config).map_err(|e| e.to_string())?;
            let mut state = dict_state(&mut d, &probes)?;
            if through_store && o[3] / 512 % 3 == 0 {
                // The builder of the store can write its dictionary to an external file by itself
                // (DictZipConfig::with_external_dictionary).  Which patterns that dictionary holds
                // depends on HashMap iteration order inside DictionaryBuilder, so its bytes differ
                // from process to process: it gets no images and nothing of it goes into events; the
                // one thing checked is that the file the builder wrote reads back as the same
                // dictionary the finished store writes through save_dictionary.
                let r = (|| -> Result<bool, String> {
                    let mut b = DictZipBlobStoreBuilder::with_config(dictzip_config().with_external_dictionary(&ext)).map_err(|e| e.to_string())?;
                    b.add_training_sample(&text).map_err(|e| e.to_string())?;
                    let store = b.finish().map_err(|e| e.to_string())?;
                    store.save_dictionary(&ext2).map_err(|e| e.to_string())?;
                    let a = dict_readout(&ext, &probes, true).map_err(|e| format!("the file written by the builder does not load: {}", e))?;
                    let b2 = dict_readout(&ext2, &probes, true)?;
                    Ok(a == b2)
                })();
                cx.probe("dictionary_written_by_store_builder");
                match r {
                    Ok(true) => {}
                    Ok(false) => *side.borrow_mut() = Some("the dictionary file written by DictZipBlobStoreBuilder::finish (with_external_dictionary) reads back as a different dictionary than the one the finished store saves".to_string()),
                    Err(e) if e.starts_with("the file written") => *side.borrow_mut() = Some(e),
                    Err(_) => cx.probe("store_builder_reported_error"),
                }
            }
            if through_store {
                // the store is opened on a dictionary file and writes its dictionary out again
                d.save_to_file(&tmp).map_err(|e| e.to_string())?;
                let store = DictZipBlobStore::from_dictionary_file(&tmp, dictzip_config()).map_err(|e| e.to_string())?;
                store.save_dictionary(path).map_err(|e| e.to_string())?;
                state.store_roundtrip = Some(true);
                cx.ev(format!("build {}: dictionary from {} bytes of text -> DictZipBlobStore::from_dictionary_file -> save_dictionary", k, text.len()));
            } else {
                d.save_to_file(path).map_err(|e| e.to_string())?;
                cx.ev(format!("build {}: SuffixArrayDictionary::new({} bytes of text) -> save_to_file", k, text.len()));
            }
            Ok(state)
        };
        let probes3 = probes.clone();
        let reuse = move |a: &Path, b: &Path, st: &DictState| dict_reuse(a, b, st, &probes3, through_store);
        let readout = move |p: &Path| dict_readout(p, &probes2, through_store);
        let target = if through_store { "DictZipBlobStore" } else { "SuffixArrayDictionary" };
        run_file_target(cx, &scen, FileTarget { target, file: "dictionary.bin", fams: &ALL_FAMS, build: &mut build, readout: &readout, show: &show_dict, reuse: Some(&reuse), reuse_any_ok: false, extra_images: None });
        let side_msg = side.borrow_mut().take();
        if let Some(msg) = side_msg {
            cx.violate("clean_reopen_mismatch", "DictZipBlobStoreBuilder.external_dictionary/clean", msg);
        }
    }
}

// ---------------------------------------------------------------------------------------
// serialize() bytes written to a file by the harness: HuffmanTree, ContextualHuffmanEncoder,
// entropy Dictionary.  These encoders iterate a HashMap, so the byte order of the entries is
// not reproducible between processes; only the truncation family (whose outcome does not
// depend on the order: the entry count comes first) is generated, and no bytes go into events.

use zipora::entropy::dictionary::{Dictionary as EntropyDictionary, DictionaryEntry};
use zipora::entropy::huffman::{ContextualHuffmanEncoder, HuffmanOrder, HuffmanTree};

#[derive(Clone, PartialEq)]
enum SerState {
    Tree(Vec<Option<Vec<bool>>>, usize),
    Ctx(u8, usize, Vec<Option<Vec<u8>>>),
    Dict(BTreeMap<Vec<u8>, (u32, u32)>),
}

fn show_ser(s: &SerState) -> String {
    match s {
        SerState::Tree(codes, maxlen) => format!("HuffmanTree {} symbols max_code_length {}", codes.iter().filter(|c| c.is_some()).count(), maxlen),
        SerState::Ctx(order, trees, enc) => format!("ContextualHuffmanEncoder order {} trees {} probe encodings {:?}", order, trees, enc.iter().map(|e| e.as_ref().map(|v| v.len())).collect::<Vec<_>>()),
        SerState::Dict(m) => format!("Dictionary {} entries", m.len()),
    }
}

fn tree_state(t: &HuffmanTree) -> SerState {
    SerState::Tree((0..=255u8).map(|s| t.get_code(s).cloned()).collect(), t.max_code_length())
}

fn ctx_state(e: &ContextualHuffmanEncoder, probes: &[Vec<u8>]) -> SerState {
    let order = match e.order() {
        HuffmanOrder::Order0 => 0,
        HuffmanOrder::Order1 => 1,
        HuffmanOrder::Order2 => 2,
    };
    SerState::Ctx(order, e.tree_count(), probes.iter().map(|p| e.encode(p).ok()).collect())
}

struct SerialSc {
    kind: u8,
}

impl Scenario for SerialSc {
    fn name(&self) -> String {
        ["HuffmanTree/serialized", "ContextualHuffmanEncoder/serialized", "entropy::Dictionary/serialized"][self.kind as usize].into()
    }
    fn budget(&self, tier: Tier) -> u64 {
        let q = [800u64, 160, 1200][self.kind as usize];
        match tier {
            Tier::Quick => q,
            Tier::Thorough => q * 40,
        }
    }
    fn run(&self, cx: &mut Run) {
        let scen = self.name();
        let kind = self.kind;
        let alphabet: &[u8] = b"abcdefghijklmnopqrstuvwxyz0123456789 ,.;";
        let mk_data = |r: &mut Rng, o0: u64| -> Vec<u8> {
            let n = if kind == 1 { [1usize, 2, 3, 5, 8, 3][(o0 % 6) as usize] } else { [1usize, 2, 5, 17, 60, 300, 1200][(o0 % 7) as usize] };
            let span = 1 + r.below(alphabet.len() as u64) as usize;
            (0..n).map(|_| alphabet[(r.below(span as u64) * r.below(span as u64) / span as u64) as usize]).collect()
        };
        let probes: Vec<Vec<u8>> = vec![b"abcabcabc".to_vec(), b"hello, world.".to_vec(), b"a".to_vec()];
        let probes_r = probes.clone();
        let mut keys_seen: Vec<Vec<u8>> = vec![];
        let mut build = |cx: &mut Run, k: usize, o: [u64; 4], path: &Path| -> Result<SerState, String> {
            let mut r = Rng::new(o[1] << 20 | o[2]);
            let (state, bytes) = match kind {
                0 => {
                    let data = mk_data(&mut r, o[0]);
                    let t = HuffmanTree::from_data(&data).map_err(|e| e.to_string())?;
                    cx.ev(format!("build {}: HuffmanTree::from_data({} bytes) -> serialize -> file", k, data.len()));
                    (tree_state(&t), t.serialize())
                }
                1 => {
                    let data = mk_data(&mut r, o[0]);
                    let order = [HuffmanOrder::Order0, HuffmanOrder::Order1, HuffmanOrder::Order2][(o[3] % 3) as usize];
                    let e = ContextualHuffmanEncoder::new(&data, order).map_err(|e| e.to_string())?;
                    cx.ev(format!("build {}: ContextualHuffmanEncoder::new({} bytes, order {}) -> serialize -> file", k, data.len(), o[3] % 3));
                    (ctx_state(&e, &probes), e.serialize())
                }
                _ => {
                    let n = [0usize, 1, 2, 5, 12, 30, 3, 8, 1, 2, 5, 120][(o[0] % 12) as usize];
                    let mut d = EntropyDictionary::new();
                    let mut m = BTreeMap::new();
                    for i in 0..n {
                        let len = 1 + r.below(12) as usize;
                        let mut key: Vec<u8> = (0..len).map(|_| alphabet[r.below(8) as usize]).collect();
                        key.push(b'0' + (i % 10) as u8);
                        let e = (r.below(70_000) as u32, 3 + r.below(300) as u32);
                        d.insert(key.clone(), DictionaryEntry::new(e.0, e.1));
                        m.insert(key, e);
                    }
                    cx.ev(format!("build {}: entropy Dictionary with {} entries -> serialize -> file", k, m.len()));
                    (SerState::Dict(m), d.serialize())
                }
            };
            if let SerState::Dict(m) = &state {
                for key in m.keys() {
                    keys_seen.push(key.clone());
                }
            }
            // the harness plays the application here: create + sequential write + fsync
            std::fs::write(path, &bytes).map_err(|e| e.to_string())?;
            Ok(state)
        };
        let readout = move |p: &Path| -> Result<SerState, String> {
            let data = std::fs::read(p).map_err(|e| e.to_string())?;
            match kind {
                0 => HuffmanTree::deserialize(&data).map(|t| tree_state(&t)).map_err(|e| e.to_string()),
                1 => ContextualHuffmanEncoder::deserialize(&data).map(|e| ctx_state(&e, &probes_r)).map_err(|e| e.to_string()),
                _ => {
                    // the API has no iteration; the state is rebuilt from the serialised form of
                    // the loaded dictionary (serialize is the only enumeration there is)
                    let d = EntropyDictionary::deserialize(&data).map_err(|e| e.to_string())?;
                    let again = d.serialize();
                    let mut m = BTreeMap::new();
                    let n = u32::from_le_bytes([again[0], again[1], again[2], again[3]]) as usize;
                    let mut off = 4;
                    for _ in 0..n {
                        let l = u16::from_le_bytes([again[off], again[off + 1]]) as usize;
                        let key = again[off + 2..off + 2 + l].to_vec();
                        let e = d.get(&key).ok_or_else(|| "entry listed by serialize() is not found by get()".to_string())?;
                        m.insert(key, (e.offset, e.length));
                        off += 2 + l + 8;
                    }
                    if m.len() != d.len() {
                        return Err("len() disagrees with the entries".into());
                    }
                    Ok(SerState::Dict(m))
                }
            }
        };
        run_file_target(cx, &scen, FileTarget { target: ["HuffmanTree", "ContextualHuffmanEncoder", "entropy::Dictionary"][kind as usize], file: "serialized.bin", fams: &[Fam::Trunc], build: &mut build, readout: &readout, show: &show_ser, reuse: None, reuse_any_ok: false, extra_images: None });
    }
}

// ---------------------------------------------------------------------------------------
// io::MemoryMappedOutput (shared mapping, set_len on grow/truncate) read back through
// io::MemoryMappedInput.  The stream has no header, so for a damaged image the only things the
// statement promises are: no fault, and nothing beyond what the file (its length) can vouch
// for - every successful read must return exactly the image's bytes.

use zipora::io::{AccessPattern, DataInput, DataOutput, MemoryMappedInput, MemoryMappedOutput};

/// LEB128 as the writer encodes it: (value, bytes used), None when cut short or longer than 9 bytes
/// (the tenth byte's upper bits have no agreed meaning; such positions are not judged).
fn leb128(b: &[u8]) -> Option<(u64, usize)> {
    let mut v = 0u64;
    for (i, x) in b.iter().take(9).enumerate() {
        v |= ((x & 0x7f) as u64) << (7 * i);
        if x & 0x80 == 0 {
            return Some((v, i + 1));
        }
    }
    None
}

/// Second pass over an input whose content `all` is known (from the first pass): typed reads,
/// peeks, zero-copy reads and skips chosen by `plan`.  Ok(None) = everything agreed or was
/// refused; Ok(Some(text)) = something was served that the file does not hold.
fn mmio_typed_pass(inp: &mut MemoryMappedInput, all: &[u8], plan: &[u8]) -> Result<Option<String>, String> {
    let n = all.len();
    inp.seek(0).map_err(|e| e.to_string())?;
    let mut pos = 0usize;
    for step in 0..18 {
        if pos >= n {
            break;
        }
        let kind = plan[step % plan.len()];
        let left = n - pos;
        // (what was served, how far the position must have moved)
        let (served, adv, want_len): (Option<Vec<u8>>, usize, usize) = match kind {
            0 => (inp.read_u8().ok().map(|x| vec![x]), 1, 1),
            1 => (inp.read_u16().ok().map(|x| x.to_le_bytes().to_vec()), 2, 2),
            2 => (inp.read_u32().ok().map(|x| x.to_le_bytes().to_vec()), 4, 4),
            3 => (inp.read_u64().ok().map(|x| x.to_le_bytes().to_vec()), 8, 8),
            4 => {
                let mut buf = [0u8; 5];
                (inp.read_bytes(&mut buf).ok().map(|_| buf.to_vec()), 5, 5)
            }
            5 => (inp.skip(3).ok().map(|_| all[pos..(pos + 3).min(n)].to_vec()), 3, 3),
            6 => (inp.peek_slice(4).ok(), 0, 4),
            7 => (inp.read_slice_zero_copy(6).ok().map(|x| x.to_vec()), 6, 6),
            8 => (inp.peek_slice_zero_copy(70).ok().map(|x| x.to_vec()), 0, 70),
            9 => {
                // a var_int is judged where the bytes hold one of at most 9 bytes
                match leb128(&all[pos..]) {
                    Some((val, used)) => match inp.read_var_int() {
                        Ok(got) if got == val => (Some(all[pos..pos + used].to_vec()), used, used),
                        Ok(got) => return Ok(Some(format!("read_var_int at {} returned {} but the bytes there encode {}", pos, got, val))),
                        Err(_) => (None, 0, used),
                    },
                    None => (None, 0, usize::MAX),
                }
            }
            _ => {
                // a length-prefixed string is read only where the bytes hold a sane length
                match leb128(&all[pos..]) {
                    Some((len, used)) if len <= 1 << 20 => match inp.read_length_prefixed_string() {
                        Ok(st) => {
                            let l = len as usize;
                            if used + l > left || st.as_bytes() != &all[pos + used..pos + used + l] {
                                return Ok(Some(format!("read_length_prefixed_string at {} returned {} bytes that are not in the file there ({} bytes left)", pos, st.len(), left)));
                            }
                            (Some(all[pos..pos + used + l].to_vec()), used + l, used + l)
                        }
                        Err(_) => (None, 0, used),
                    },
                    _ => (None, 0, usize::MAX),
                }
            }
        };
        match served {
            Some(bytes) => {
                if want_len > left {
                    return Ok(Some(format!("typed read kind {} of {} bytes at {} succeeded with only {} bytes left", kind, want_len, pos, left)));
                }
                if bytes != all[pos..pos + want_len] {
                    return Ok(Some(format!("typed read kind {} at {} returned {} but the file holds {}", kind, pos, hex(&bytes, 8), hex(&all[pos..pos + want_len], 8))));
                }
                pos += adv;
                if inp.position() != pos || inp.remaining() != n - pos {
                    return Ok(Some(format!("after typed read kind {}: position() {} remaining() {}, expected {} and {}", kind, inp.position(), inp.remaining(), pos, n - pos)));
                }
            }
            None => {
                // refused (end of data, strategy without peek/zero-copy, no var_int here): go on one
                // byte further from a known position
                pos += 1;
                if inp.seek(pos).is_err() {
                    break;
                }
            }
        }
    }
    Ok(None)
}

/// The remark a read-out appended to the bytes when an observer disagreed (`<...>` at the end).
fn mmio_note(b: &[u8]) -> String {
    match (b.last(), b.iter().rposition(|x| *x == b'<')) {
        (Some(b'>'), Some(i)) => format!(" {}", String::from_utf8_lossy(&b[i..])),
        _ => String::new(),
    }
}

fn mmio_readout(path: &Path, chunks: &[usize], plan: &[u8], typed: bool) -> Result<Vec<u8>, String> {
    // plan[0] also chooses the access-pattern hint the file is opened with (11 = none given)
    let mut inp = match plan[0] % 6 {
        // a handle that was used before it is handed over (the caller looked at the first bytes
        // through it, e.g. a magic number): its OS cursor is not at 0, the input's position is
        5 => std::fs::File::open(path)
            .and_then(|mut f| {
                use std::io::Read;
                let mut magic = [0u8; 4];
                let _ = f.read(&mut magic)?;
                Ok(f)
            })
            .map_err(|e| zipora::ZiporaError::io_error(e.to_string()))
            .and_then(MemoryMappedInput::new),
        0 => MemoryMappedInput::from_path(path),
        1 => MemoryMappedInput::from_path_with_pattern(path, AccessPattern::Sequential),
        2 => MemoryMappedInput::from_path_with_pattern(path, AccessPattern::Random),
        3 => MemoryMappedInput::from_path_with_pattern(path, AccessPattern::Mixed),
        _ => std::fs::File::open(path).map_err(|e| zipora::ZiporaError::io_error(e.to_string())).and_then(|f| MemoryMappedInput::new_with_pattern(f, AccessPattern::Unknown)),
    }
    .map_err(|e| e.to_string())?;
    let n = inp.len();
    let mut out = Vec::with_capacity(n);
    let mut ci = 0;
    while out.len() < n {
        let want = if ci < 48 { chunks[ci % chunks.len()].max(1) } else { 8192 }.min(n - out.len());
        ci += 1;
        let got = inp.read_slice(want).map_err(|e| e.to_string())?;
        if got.len() != want {
            return Err("read_slice returned a different length".into());
        }
        out.extend_from_slice(&got);
    }
    // reading past the end must be refused, not served
    if inp.read_slice(1).is_ok() || inp.read_u8().is_ok() {
        let mut o2 = out.clone();
        o2.push(0xEE);
        return Ok(o2);
    }
    // random access: seek back and read the second half again
    if n >= 2 {
        inp.seek(n / 2).map_err(|e| e.to_string())?;
        let tail = inp.read_slice(n - n / 2).map_err(|e| e.to_string())?;
        if tail != out[n / 2..] {
            let mut o2 = out.clone();
            o2.extend_from_slice(b"<seek+read differs>");
            return Ok(o2);
        }
    }
    if !typed {
        return Ok(out);
    }
    if let Some(msg) = mmio_typed_pass(&mut inp, &out, plan)? {
        let mut o2 = out.clone();
        o2.extend_from_slice(format!("<{}>", msg).as_bytes());
        return Ok(o2);
    }
    Ok(out)
}

/// Continued use of an image: open it for writing, overwrite three bytes in the middle, append
/// behind the end (the file grows), flush, and read everything back.
fn mmio_continue(img: &Path, base: &[u8], chunks: &[usize], plan: &[u8]) -> Result<Option<String>, String> {
    let mut h = MemoryMappedOutput::open(img).map_err(|e| e.to_string())?;
    let cap = h.capacity();
    if cap != base.len() {
        return Ok(Some(format!("open reports capacity {} for a file of {} bytes", cap, base.len())));
    }
    let mut model = base.to_vec();
    let mid = cap / 2;
    h.seek(mid).map_err(|e| e.to_string())?;
    h.write_slice(&[0xC1, 0xC2, 0xC3]).map_err(|e| e.to_string())?;
    if model.len() < mid + 3 {
        model.resize(mid + 3, 0);
    }
    model[mid..mid + 3].copy_from_slice(&[0xC1, 0xC2, 0xC3]);
    let end = h.capacity();
    if end < model.len() {
        return Ok(Some(format!("capacity {} after writing up to {}", end, model.len())));
    }
    model.resize(end, 0);
    let tail: Vec<u8> = (0..40u8).map(|i| 0xD0 | (i & 0x0f)).collect();
    h.seek(end).map_err(|e| e.to_string())?;
    h.write_slice(&tail).map_err(|e| e.to_string())?;
    model.extend_from_slice(&tail);
    h.flush().map_err(|e| e.to_string())?;
    let cap2 = h.capacity();
    drop(h);
    if cap2 < model.len() {
        return Ok(Some(format!("capacity {} after writing up to {}", cap2, model.len())));
    }
    model.resize(cap2, 0);
    let got = mmio_readout(img, chunks, plan, true)?;
    if got != model {
        let at = got.iter().zip(model.iter()).position(|(a, b)| a != b).unwrap_or(got.len().min(model.len()));
        return Ok(Some(format!("after overwrite at {} + append at {} + flush the file reads back as {} bytes, expected {} bytes, first difference at offset {}", mid, end, got.len(), model.len(), at)));
    }
    Ok(None)
}

struct MmapIoSc;

impl Scenario for MmapIoSc {
    fn name(&self) -> String {
        "MemoryMappedOutput/history".into()
    }
    fn budget(&self, tier: Tier) -> u64 {
        match tier {
            Tier::Quick => 3000,
            Tier::Thorough => 120_000,
        }
    }
    fn run(&self, cx: &mut Run) {
        let scen = self.name();
        let cfg = cx.src.chan("cfg");
        let fault = cx.src.chan("fault");
        let init = *cfg.pick(&[1usize, 8, 64, 100, 4000, 4096, 6000]);
        let planned = 3 + cfg.below(10);
        let fam = pick_family(&cfg, &[Fam::Trunc, Fam::Block, Fam::OldExt, Fam::ZeroTail]);
        let chunks: Vec<usize> = (0..4).map(|_| *cfg.pick(&[1usize, 3, 7, 64, 500, 4096, 100_000])).collect();
        let which_t = cfg.small(4) as usize;
        // (new knobs are drawn from their own channel: the meaning of the cfg tape stays as it was)
        let knobs = cx.src.chan("knobs");
        let plan: Vec<u8> = (0..6).map(|_| knobs.below(11) as u8).collect();
        // (an empty file to start with; rarely one beyond the 64 KiB where the sequential hint prefetches)
        let init = if knobs.chance(1, 12) { 0 } else { init };
        let init = if knobs.chance(1, 25) { 70_000 } else { init };
        // (thousands of truncations of a file that size cost more than they tell: the families with few images)
        let fam = if init == 70_000 && fam == Fam::Trunc { Fam::ZeroTail } else { fam };
        let scratch = Scratch::new(cx, "mmio");
        let path = scratch.path("out.bin");
        let img = scratch.path("image.bin");
        let mut v = Verdicts::default();
        cx.ev(format!("MemoryMappedOutput::create(initial_size={})", init));
        let mut out = match MemoryMappedOutput::create(&path, init) {
            Ok(o) => Some(o),
            Err(e) => {
                cx.ev(format!("create failed: {}", e));
                None
            }
        };
        // model: bytes written at their positions, zeros elsewhere
        let mut model: Vec<u8> = vec![];
        let mut pos = 0usize;
        let mut snaps: Vec<Vec<u8>> = vec![std::fs::read(&path).unwrap_or_default()];
        let mut ctr = 0u8;
        let mut ops = cx.src.ops("ops", planned);
        let mut nops = 0u64;
        let put = |model: &mut Vec<u8>, pos: &mut usize, data: &[u8]| {
            if model.len() < *pos + data.len() {
                model.resize(*pos + data.len(), 0);
            }
            model[*pos..*pos + data.len()].copy_from_slice(data);
            *pos += data.len();
        };
        while let (Some(o), true) = (ops.next(), out.is_some()) {
            nops += 1;
            let h = out.as_mut().unwrap();
            let mut durable = false;
            let what: String;
            let res: Result<(), String> = match o[0] % 11 {
                10 => {
                    // the typed writers of DataOutput
                    let x = 0x8182_8384_8586_8788u64 ^ (o[1] & 0x7f7f);
                    match o[2] % 5 {
                        0 => {
                            what = format!("write_u8 at {}", pos);
                            put(&mut model, &mut pos, &[x as u8]);
                            h.write_u8(x as u8).map_err(|e| e.to_string())
                        }
                        1 => {
                            what = format!("write_u16 at {}", pos);
                            put(&mut model, &mut pos, &(x as u16).to_le_bytes());
                            h.write_u16(x as u16).map_err(|e| e.to_string())
                        }
                        2 => {
                            what = format!("write_u64 at {}", pos);
                            put(&mut model, &mut pos, &x.to_le_bytes());
                            h.write_u64(x).map_err(|e| e.to_string())
                        }
                        3 => {
                            let val = [0u64, 1, 127, 128, 300, 16383, 16384, 1 << 40][(o[1] % 8) as usize];
                            what = format!("write_var_int {} at {}", val, pos);
                            let mut enc = vec![];
                            let mut l = val;
                            loop {
                                let b = (l & 0x7f) as u8;
                                l >>= 7;
                                if l != 0 {
                                    enc.push(b | 0x80);
                                } else {
                                    enc.push(b);
                                    break;
                                }
                            }
                            put(&mut model, &mut pos, &enc);
                            h.write_var_int(val).map_err(|e| e.to_string())
                        }
                        _ => {
                            let data: Vec<u8> = (0..(1 + o[1] % 9) as u8).map(|j| 0xA0 | j).collect();
                            what = format!("write_bytes {} bytes at {}", data.len(), pos);
                            put(&mut model, &mut pos, &data);
                            h.write_bytes(&data).map_err(|e| e.to_string())
                        }
                    }
                }
                0 | 1 | 2 => {
                    let n = [1usize, 2, 5, 16, 100, 5, 16, 700, 1, 2, 100, 3000][(o[1] % 12) as usize];
                    ctr = ctr.wrapping_add(1);
                    let data: Vec<u8> = (0..n).map(|j| 0x80 | (ctr.wrapping_mul(13).wrapping_add(j as u8) & 0x7f)).collect();
                    what = format!("write_slice {} bytes at {}", n, pos);
                    put(&mut model, &mut pos, &data);
                    h.write_slice(&data).map_err(|e| e.to_string())
                }
                3 => {
                    let x = 0x8181_0000u32 | (o[1] as u32 & 0x7f7f);
                    what = format!("write_u32 at {}", pos);
                    put(&mut model, &mut pos, &x.to_le_bytes());
                    h.write_u32(x).map_err(|e| e.to_string())
                }
                4 => {
                    let s = format!("str{}-{}", nops, "x".repeat((o[1] % 40) as usize));
                    what = format!("write_length_prefixed_string {} bytes at {}", s.len(), pos);
                    let mut enc = vec![];
                    let mut l = s.len() as u64;
                    loop {
                        let b = (l & 0x7f) as u8;
                        l >>= 7;
                        if l != 0 {
                            enc.push(b | 0x80);
                        } else {
                            enc.push(b);
                            break;
                        }
                    }
                    enc.extend_from_slice(s.as_bytes());
                    put(&mut model, &mut pos, &enc);
                    h.write_length_prefixed_string(&s).map_err(|e| e.to_string())
                }
                5 => {
                    let cap = h.capacity();
                    let p = (o[1] as usize) % (cap + 1);
                    what = format!("seek {}", p);
                    pos = p;
                    h.seek(p).map_err(|e| e.to_string())
                }
                6 | 7 => {
                    what = "flush".into();
                    durable = true;
                    h.flush().map_err(|e| e.to_string())
                }
                8 => {
                    what = format!("truncate (to position {})", pos);
                    durable = true;
                    model.truncate(pos);
                    h.truncate().map_err(|e| e.to_string())
                }
                _ => {
                    what = "restart (drop, MemoryMappedOutput::open)".into();
                    durable = true;
                    out = None;
                    match MemoryMappedOutput::open(&path) {
                        Ok(o2) => {
                            out = Some(o2);
                            pos = 0;
                            Ok(())
                        }
                        Err(e) => Err(e.to_string()),
                    }
                }
            };
            if let Err(e) = &res {
                cx.ev(format!("{} -> Err({}); history ends here", what, e));
                break;
            }
            if durable {
                let cap = out.as_ref().map(|h| h.capacity()).unwrap_or(0);
                let mut want = model.clone();
                want.resize(cap, 0);
                let o2 = recover(&scen, &format!("clean reopen after op {} ({})", nops, what), || mmio_readout(&path, &chunks, &plan, true));
                let show = |b: &Vec<u8>| format!("{} bytes {}{}", b.len(), hex(b, 12), mmio_note(b));
                if !judge_clean(cx, &mut v, "MemoryMappedOutput", &what, o2, &want, &show) {
                    break;
                }
                cx.ev(format!("{} -> durable S{} ({} bytes)", what, snaps.len(), cap));
                cx.probe("durable_points");
                let bytes = std::fs::read(&path).unwrap_or_default();
                if bytes != *snaps.last().unwrap() {
                    snaps.push(bytes);
                }
            } else {
                cx.ev(format!("{} (not durable)", what));
            }
        }
        drop(out);
        cx.steps = nops;
        if snaps.len() >= 2 {
            let t = snaps.len() - 1 - which_t.min(snaps.len() - 2);
            let new = snaps[t].clone();
            let old = snaps[t - 1].clone();
            cx.ev(format!("images of S{} -> S{}, file {} -> {} bytes, family {}", t - 1, t, old.len(), new.len(), fam.name()));
            let mut tl = Tally::default();
            let mut nimg = 0u64;
            for_each_image(fam, Some(&old), &new, &fault, &mut |desc, bytes| {
                if std::fs::write(&img, bytes).is_err() {
                    return;
                }
                // (the second, typed pass over every 8th image and the ones around the boundaries)
                nimg += 1;
                let l = bytes.len();
                let special = l <= 10 || (4090..=4100).contains(&l) || l + 1 == new.len();
                let o = recover(&scen, &format!("{} {}", fam.name(), desc), || mmio_readout(&img, &chunks, &plan, special || nimg % 8 == 1));
                // the only state the image can vouch for is the image itself
                let want = bytes.to_vec();
                let states = [(t, &want)];
                // every 32nd image and the ones around the strategy / page boundaries are then
                // USED: opened for writing, overwritten, appended to, flushed, read back
                if matches!(&o, Outcome::Ok(got) if *got == want) && (nimg % 32 == 1 || special) {
                    let o3 = recover(&scen, &format!("{} {} + continued use", fam.name(), desc), || mmio_continue(&img, &want, &chunks, &plan));
                    cx.probe("accepted_images_used_further");
                    match o3 {
                        Outcome::Ok(None) => {}
                        Outcome::Ok(Some(msg)) => v.add(PRIO_IMAGE, "continued_use_mismatch", &format!("MemoryMappedOutput.open+use/{}", fam.name()), format!("image [{}] of {} bytes: {}", desc, l, msg)),
                        Outcome::Refused => cx.probe("continued_use_reported_error"),
                        Outcome::Panic(loc, msg) => v.add(PRIO_PANIC, "panic", &loc, format!("MemoryMappedOutput image [{}] continued use: {}", desc, msg)),
                    }
                }
                match o {
                    Outcome::Ok(ref got) if *got != want => {
                        tl.images += 1;
                        tl.bad += 1;
                        cx.cell(format!("MemoryMappedInput/{}/wrong_bytes", fam.name()));
                        let at = got.iter().zip(want.iter()).position(|(a, b)| a != b).unwrap_or(got.len().min(want.len()));
                        v.add(PRIO_IMAGE, "wrong_bytes", &format!("MemoryMappedInput.read/{}", fam.name()), format!("image [{}] of {} bytes was read back as {} bytes, first difference at offset {}{}", desc, want.len(), got.len(), at, mmio_note(got)));
                    }
                    o => judge(cx, &mut v, &mut tl, "MemoryMappedInput", fam.name(), desc, o, &states, &|b: &Vec<u8>| format!("{} bytes", b.len())),
                }
            });
            tally_event(cx, fam.name(), &tl);
            cx.nontrivial = tl.images > 0;
        }
        v.report(cx);
    }
}

// =======================================================================================
// algorithms::external_sort::ReplaceSelectSort - sorted run files written (flushed + fsynced
// in finish_run) and reopened by the merge phase of the same `sort` call.
//
// Clean case: with a memory buffer of 1-8 elements the input goes through 1..n run files and
// must come back complete and sorted.  Damage case: the statement's quantifier ("for the
// resulting file(s): every truncation length ... then reopen and read everything") is applied to
// a run file between its finish_run and its reopening by the merge.  The library offers no seam
// between the two phases, but the input iterator is the caller's: when it is asked for the
// element behind the last one, every run except possibly the one still being written is finished
// and synced, and one of THOSE files (one with a higher-numbered sibling) is cut short / zero
// filled / removed there.  Oracle: `Err` is fine; `Ok(v)` must be the complete sorted input;
// a panic is a violation.

use zipora::algorithms::{ExternalSort, ReplaceSelectSort, ReplaceSelectSortConfig};

#[derive(Clone, Debug, PartialEq)]
enum RunDamage {
    Cut(usize),
    ZeroFrom(usize),
    Remove,
}

#[derive(Default)]
struct RunDamageReport {
    /// (run index, file length) of every run file that had a higher-numbered sibling at end of input
    finished: Vec<(usize, usize)>,
    applied: bool,
}

fn list_run_files(dir: &Path) -> Vec<(usize, PathBuf, usize)> {
    let mut v = vec![];
    if let Ok(rd) = std::fs::read_dir(dir) {
        for e in rd.flatten() {
            let name = e.file_name().to_string_lossy().to_string();
            if let Some(stem) = name.strip_suffix(".tmp") {
                if let Some(idx) = stem.rsplit('_').next().and_then(|s| s.parse::<usize>().ok()) {
                    let len = e.metadata().map(|m| m.len() as usize).unwrap_or(0);
                    v.push((idx, e.path(), len));
                }
            }
        }
    }
    v.sort();
    v
}

/// The caller's input iterator: hands out the elements and, when asked for more after the last
/// one (once), looks at the run files and applies the damage.
struct DamagingInput<T> {
    inner: std::vec::IntoIter<T>,
    dir: PathBuf,
    damage: Option<(usize, RunDamage)>,
    report: std::rc::Rc<std::cell::RefCell<RunDamageReport>>,
    done: bool,
}

impl<T> Iterator for DamagingInput<T> {
    type Item = T;
    fn next(&mut self) -> Option<T> {
        let x = self.inner.next();
        if x.is_none() && !self.done {
            self.done = true;
            let files = list_run_files(&self.dir);
            let top = files.iter().map(|f| f.0).max();
            let mut rep = self.report.borrow_mut();
            for (idx, _, len) in &files {
                if Some(*idx) < top {
                    rep.finished.push((*idx, *len));
                }
            }
            if let Some((run, dmg)) = &self.damage {
                if let Some((_, p, len)) = files.iter().find(|f| f.0 == *run && Some(f.0) < top) {
                    match dmg {
                        RunDamage::Cut(l) => {
                            if let Ok(b) = std::fs::read(p) {
                                rep.applied = std::fs::write(p, &b[..(*l).min(*len)]).is_ok();
                            }
                        }
                        RunDamage::ZeroFrom(k) => {
                            if let Ok(mut b) = std::fs::read(p) {
                                for x in b.iter_mut().skip(*k) {
                                    *x = 0;
                                }
                                rep.applied = std::fs::write(p, &b).is_ok();
                            }
                        }
                        RunDamage::Remove => {
                            rep.applied = std::fs::remove_file(p).is_ok();
                        }
                    }
                }
            }
        }
        x
    }
}

struct ExtSortKnobs {
    mem_items: usize,
    secure: bool,
    auto_cleanup: bool,
}

// one instantiation per element type (the serde bounds of ReplaceSelectSort cannot be named here:
// serde is not a dependency of this crate)
macro_rules! extsort_impl {
    ($run:ident, $t:ty) => {
        /// One `sort` over `input` in `dir`; returns the outcome, the report of the input iterator
        /// and the number of runs the sorter says it generated.
        fn $run(
            dir: &Path,
            k: &ExtSortKnobs,
            sorter: &mut Option<ReplaceSelectSort<$t>>,
            input: &[$t],
            damage: Option<(usize, RunDamage)>,
        ) -> (Outcome<Vec<$t>>, RunDamageReport, usize) {
            let report = std::rc::Rc::new(std::cell::RefCell::new(RunDamageReport::default()));
            let it = DamagingInput { inner: input.to_vec().into_iter(), dir: dir.to_path_buf(), damage, report: report.clone(), done: false };
            if sorter.is_none() {
                let config = ReplaceSelectSortConfig {
                    memory_buffer_size: k.mem_items * std::mem::size_of::<$t>(),
                    temp_dir: dir.to_path_buf(),
                    use_secure_memory: k.secure,
                    cleanup_temp_files: k.auto_cleanup,
                    ..ReplaceSelectSortConfig::default()
                };
                *sorter = Some(ReplaceSelectSort::<$t>::new(config));
            }
            let s = sorter.as_mut().unwrap();
            let before = s.stats().runs_generated;
            let out = match catch_unwind(AssertUnwindSafe(|| s.sort(it).map_err(|e| e.to_string()))) {
                Ok(Ok(v)) => Outcome::Ok(v),
                Ok(Err(_)) => Outcome::Refused,
                Err(_) => {
                    let (loc, msg) = zsim_core::e1::LAST_PANIC.with(|l| l.borrow_mut().take()).unwrap_or_else(|| ("<unknown>".into(), "<no message>".into()));
                    Outcome::Panic(loc, msg)
                }
            };
            let runs = s.stats().runs_generated - before;
            // whatever the outcome, the caller cleans up before the sorter is used again
            let _ = s.cleanup();
            let rep = std::mem::take(&mut *report.borrow_mut());
            (out, rep, runs)
        }
    };
}
extsort_impl!(extsort_u32, u32);
extsort_impl!(extsort_u64, u64);
extsort_impl!(extsort_string, String);

fn extsort_values(r: &mut Rng, o: [u64; 4], prev: &[u64]) -> (Vec<u64>, &'static str) {
    let n = [0usize, 1, 2, 3, 5, 8, 13, 21, 40, 60, 4, 16][(o[0] % 12) as usize];
    let span = [2u64, 8, 1000][(o[1] % 3) as usize];
    let mut v: Vec<u64> = (0..n).map(|_| r.below(span)).collect();
    let shape = match o[2] % 8 {
        0 => {
            v.sort_unstable();
            "ascending"
        }
        1 => {
            v.sort_unstable();
            v.reverse();
            "descending"
        }
        2 => {
            // one long finished run followed by a short one
            v.sort_unstable();
            if let Some(l) = v.last_mut() {
                *l = 0;
            }
            "ascending then one low value"
        }
        3 => {
            for x in v.iter_mut() {
                *x = span / 2;
            }
            "all equal"
        }
        4 if !prev.is_empty() => {
            // the previous input again with one element changed
            v = prev.to_vec();
            let i = (o[3] as usize) % v.len();
            v[i] = r.below(span);
            "previous input, one element changed"
        }
        5 if !prev.is_empty() => {
            v = prev.to_vec();
            v.reverse();
            "previous input reversed"
        }
        _ => "random",
    };
    (v, shape)
}

struct ExtSortSc;

impl Scenario for ExtSortSc {
    fn name(&self) -> String {
        "ReplaceSelectSort/run-files".into()
    }
    fn budget(&self, tier: Tier) -> u64 {
        match tier {
            Tier::Quick => 1500,
            Tier::Thorough => 60_000,
        }
    }
    fn run(&self, cx: &mut Run) {
        let scen = self.name();
        let cfg = cx.src.chan("cfg");
        let kind = cfg.below(3);
        let knobs = ExtSortKnobs { mem_items: *cfg.pick(&[1usize, 2, 3, 4, 8]), secure: cfg.chance(1, 3), auto_cleanup: !cfg.chance(1, 3) };
        let planned = 1 + cfg.below(3);
        let which_sort = cfg.small(3) as usize;
        let which_run = cfg.small(4) as usize;
        let through_trait = cfg.chance(1, 6);
        let dfam = cfg.weighted(&[4, 2, 1]);
        let scratch = Scratch::new(cx, "extsort");
        let dir = scratch.path("runs");
        let _ = std::fs::create_dir_all(&dir);
        let mut v = Verdicts::default();
        cx.ev(format!("ReplaceSelectSort<{}> memory buffer of {} elements, secure_memory={}, cleanup_temp_files={}", ["u32", "u64", "String"][kind as usize], knobs.mem_items, knobs.secure, knobs.auto_cleanup));
        // the element of value x (Strings of varying length, the empty string included)
        let as_string = |x: u64| -> String {
            if x == 0 {
                String::new()
            } else {
                format!("{}{}", "k".repeat((x % 5) as usize), x)
            }
        };
        let show_vals = |xs: &[u64]| -> String {
            let head: Vec<String> = xs.iter().take(10).map(|x| x.to_string()).collect();
            format!("{} values [{}{}]", xs.len(), head.join(","), if xs.len() > 10 { ",.." } else { "" })
        };
        // one sort of `vals` as the run's element type; Ok(result mapped back to u64 ranks is
        // not possible for strings, so the comparison is done per type and reported as a bool)
        let mut s32: Option<ReplaceSelectSort<u32>> = None;
        let mut s64: Option<ReplaceSelectSort<u64>> = None;
        let mut sst: Option<ReplaceSelectSort<String>> = None;
        // returns (outcome: Ok(complete and sorted?) , report, runs)
        let mut sort_once = |vals: &[u64], damage: Option<(usize, RunDamage)>| -> (Outcome<Result<(), String>>, RunDamageReport, usize) {
            fn verdict<T: Ord + Clone + std::fmt::Debug>(input: &[T], o: Outcome<Vec<T>>) -> Outcome<Result<(), String>> {
                match o {
                    Outcome::Ok(got) => {
                        let mut want = input.to_vec();
                        want.sort();
                        if got == want {
                            Outcome::Ok(Ok(()))
                        } else {
                            let head: Vec<String> = got.iter().take(10).map(|x| format!("{:?}", x)).collect();
                            let shown = format!("[{}{}]", head.join(","), if got.len() > 10 { ",.." } else { "" });
                            // three different kinds of wrong, worded differently (known findings match on the wording)
                            let sorted = got.windows(2).all(|w| w[0] <= w[1]);
                            let mut rest = want.clone();
                            let subset = got.iter().all(|x| match rest.iter().position(|y| y == x) {
                                Some(i) => {
                                    rest.remove(i);
                                    true
                                }
                                None => false,
                            });
                            Outcome::Ok(Err(if !sorted {
                                format!("the result is not sorted: {} elements {}", got.len(), shown)
                            } else if subset && got.len() < want.len() {
                                format!("only {} of {} elements came back, in order: {}", got.len(), want.len(), shown)
                            } else {
                                format!("{} elements came back for {} put in, some of them never put in or more often than put in: {}", got.len(), want.len(), shown)
                            }))
                        }
                    }
                    Outcome::Refused => Outcome::Refused,
                    Outcome::Panic(a, b) => Outcome::Panic(a, b),
                }
            }
            match kind {
                0 => {
                    let input: Vec<u32> = vals.iter().map(|x| *x as u32).collect();
                    let (o, rep, runs) = extsort_u32(&dir, &knobs, &mut s32, &input, damage);
                    (verdict(&input, o), rep, runs)
                }
                1 => {
                    let input: Vec<u64> = vals.iter().map(|x| x << 33 | *x).collect();
                    let (o, rep, runs) = extsort_u64(&dir, &knobs, &mut s64, &input, damage);
                    (verdict(&input, o), rep, runs)
                }
                _ => {
                    let input: Vec<String> = vals.iter().map(|x| as_string(*x)).collect();
                    let (o, rep, runs) = extsort_string(&dir, &knobs, &mut sst, &input, damage);
                    (verdict(&input, o), rep, runs)
                }
            }
        };
        let mut ops = cx.src.ops("ops", planned);
        let mut inputs: Vec<(Vec<u64>, Vec<(usize, usize)>)> = vec![];
        let mut prev: Vec<u64> = vec![];
        let mut nops = 0u64;
        let mut several = false;
        while let Some(o) = ops.next() {
            nops += 1;
            let mut r = Rng::new(o[1] << 20 | o[3]);
            let (vals, shape) = extsort_values(&mut r, o, &prev);
            eprintln!("E4 case: {} clean sort {}", scen, nops);
            let (out, rep, runs) = sort_once(&vals, None);
            cx.probe("clean_reopens");
            if runs >= 2 {
                cx.probe("sorts_through_several_run_files");
                several = true;
            }
            if inputs.len() >= 1 {
                cx.probe("sorter_reused_after_cleanup");
            }
            match out {
                Outcome::Ok(Ok(())) => {
                    cx.ev(format!("sort {}: {} ({}) -> {} run files, complete and sorted", nops, show_vals(&vals), shape, runs));
                    cx.cell("ReplaceSelectSort/clean/ok");
                }
                Outcome::Ok(Err(msg)) => {
                    cx.ev(format!("sort {}: {} ({}) -> {} run files, WRONG: {}", nops, show_vals(&vals), shape, runs, msg));
                    v.add(PRIO_CLEAN, "clean_reopen_mismatch", "ReplaceSelectSort.sort/clean", format!("sort number {} of this sorter, input {} ({}), memory buffer of {} elements, {} undamaged run files: {}", nops, show_vals(&vals), shape, knobs.mem_items, runs, msg));
                    break;
                }
                Outcome::Refused => {
                    cx.ev(format!("sort {}: {} ({}) -> Err", nops, show_vals(&vals), shape));
                    v.add(PRIO_CLEAN, "clean_reopen_refused", "ReplaceSelectSort.sort/clean", format!("sort number {} of this sorter, input {} ({}), memory buffer of {} elements: undamaged run files, but sort returned an error", nops, show_vals(&vals), shape, knobs.mem_items));
                    break;
                }
                Outcome::Panic(loc, msg) => {
                    cx.ev(format!("sort {}: {} ({}) -> PANIC at {}", nops, show_vals(&vals), shape, loc));
                    v.add(PRIO_PANIC, "panic", &loc, format!("ReplaceSelectSort clean sort of {}: {}", show_vals(&vals), msg));
                    break;
                }
            }
            prev = vals.clone();
            inputs.push((vals, rep.finished));
        }
        cx.steps = nops;
        // the same through the Vec<T>::external_sort_with_config front end (its own sorter)
        if through_trait && !prev.is_empty() && v.list.is_empty() {
            let mut data: Vec<u64> = prev.clone();
            let config = ReplaceSelectSortConfig { memory_buffer_size: knobs.mem_items * 8, temp_dir: dir.clone(), use_secure_memory: knobs.secure, ..ReplaceSelectSortConfig::default() };
            let o = recover(&scen, "Vec::external_sort_with_config", || data.external_sort_with_config(config).map_err(|e| e.to_string()));
            let mut want = prev.clone();
            want.sort_unstable();
            match o {
                Outcome::Ok(()) if data == want => cx.ev("Vec<u64>::external_sort_with_config -> complete and sorted"),
                Outcome::Ok(()) => v.add(PRIO_CLEAN, "clean_reopen_mismatch", "Vec.external_sort_with_config/clean", format!("input {}: {} elements came back", show_vals(&prev), data.len())),
                Outcome::Refused => v.add(PRIO_CLEAN, "clean_reopen_refused", "Vec.external_sort_with_config/clean", format!("input {}: error with undamaged run files", show_vals(&prev))),
                Outcome::Panic(loc, msg) => v.add(PRIO_PANIC, "panic", &loc, format!("Vec::external_sort_with_config of {}: {}", show_vals(&prev), msg)),
            }
        }
        // ---- one finished run file of one sort, damaged in every way, the sort repeated each time
        let cands: Vec<usize> = (0..inputs.len()).filter(|i| !inputs[*i].1.is_empty()).collect();
        let mut tl = Tally::default();
        if !cands.is_empty() && v.list.is_empty() {
            let si = cands[cands.len() - 1 - which_sort.min(cands.len() - 1)];
            let (vals, finished) = inputs[si].clone();
            let (run, len) = finished[which_run.min(finished.len() - 1)];
            cx.ev(format!("damage to run file {} ({} bytes, finished and synced) of sort {} between its finish and the merge", run, len, si + 1));
            // one family per run, so that a finding in one does not hide another
            let mut damages: Vec<RunDamage> = vec![];
            match dfam {
                0 => damages.extend(trunc_lengths(len).into_iter().map(RunDamage::Cut)),
                1 => {
                    // blocks reach the disk whole: zeros from a 512-byte boundary on (0 included)
                    let mut k = 0;
                    while k < len {
                        damages.push(RunDamage::ZeroFrom(k));
                        k += 512;
                    }
                }
                _ => damages.push(RunDamage::Remove),
            }
            let mut shown = 0;
            for d in damages {
                let desc = match &d {
                    RunDamage::Cut(l) => format!("run file {} cut at {} of {}", run, l, len),
                    RunDamage::ZeroFrom(k) => format!("run file {}: bytes {}..{} zero", run, k, len),
                    RunDamage::Remove => format!("run file {} removed", run),
                };
                let fam = match &d {
                    RunDamage::Cut(_) => "run_cut",
                    RunDamage::ZeroFrom(_) => "run_zero_tail",
                    RunDamage::Remove => "run_removed",
                };
                eprintln!("E4 case: {} {}", scen, desc);
                let (out, rep, _) = sort_once(&vals, Some((run, d.clone())));
                if !rep.applied {
                    cx.probe("run_damage_not_applied");
                    continue;
                }
                cx.fault(fam);
                tl.images += 1;
                match out {
                    Outcome::Refused => {
                        tl.refused += 1;
                        cx.cell(format!("ReplaceSelectSort/{}/refused", fam));
                    }
                    Outcome::Ok(Ok(())) => {
                        *tl.ok_at.entry(si + 1).or_insert(0) += 1;
                        cx.cell(format!("ReplaceSelectSort/{}/complete", fam));
                    }
                    Outcome::Ok(Err(msg)) => {
                        tl.bad += 1;
                        cx.cell(format!("ReplaceSelectSort/{}/wrong_result", fam));
                        if shown < 3 {
                            shown += 1;
                            cx.ev(format!("  {}: sort returned Ok, {}", desc, msg));
                        }
                        v.add(PRIO_IMAGE, "damaged_run_file_accepted", &format!("ReplaceSelectSort.sort/{}", fam), format!("input {}, memory buffer of {} elements; [{}] before the merge: sort returned Ok, but {}", show_vals(&vals), knobs.mem_items, desc, msg));
                    }
                    Outcome::Panic(loc, msg) => {
                        tl.panics += 1;
                        cx.cell(format!("ReplaceSelectSort/{}/panic", fam));
                        v.add(PRIO_PANIC, "panic", &loc, format!("ReplaceSelectSort [{}]: {}", desc, msg));
                    }
                }
            }
            let oks: u64 = tl.ok_at.values().sum();
            cx.ev(format!("damaged run file: {} sorts -> refused={} complete={} wrong_result={} panics={}", tl.images, tl.refused, oks, tl.bad, tl.panics));
            cx.probe_n("images_recovered", tl.images);
            cx.probe_n("images_refused", tl.refused);
        }
        cx.nontrivial = tl.images > 0 || several;
        v.report(cx);
    }
}

// =======================================================================================

fn init() {
    zsim_props::install_hooks();
    // Scratch directories live under std::env::temp_dir().  One run writes thousands of small
    // image files; on a disk-backed /tmp that is 10-50x slower than on tmpfs (measured) and the
    // wall time then depends on what else the machine is doing.  The images are constructed by
    // the harness, so no durability of the scratch medium itself is needed: when the caller has
    // not chosen a TMPDIR, point temp_dir() at /dev/shm if that is usable.
    if std::env::var_os("TMPDIR").is_none() {
        let probe = format!("/dev/shm/zsim-c19-probe-{}", std::process::id());
        if std::fs::create_dir(&probe).is_ok() {
            let _ = std::fs::remove_dir(&probe);
            std::env::set_var("TMPDIR", "/dev/shm");
        }
    }
}

fn main() {
    let mut spec = CheckSpec::new(
        "C19",
        "fault_enumeration",
        "seeded operation histories against the real file-backed structure (snapshots of file image + model state at every durable point), then per run: clean reopen + ONE image family of ONE transition, \
         with every truncation length enumerated (all lengths up to 4 KiB, then every 512-byte boundary -1/0/+1); non-trivial = at least one damaged image was recovered besides the clean reopen; \
         distinct = distinct hash of (history, durable points, per-family outcome tally)",
    );
    spec.assumptions = vec![
        "the disk is modelled at the level of the file image: prefixes, zero-filled tails, old image at the new length, single 512 B / 4 KiB block rollbacks, header/data combinations; no reordering inside a block".into(),
        "byte rot is not part of C19's statement (cut short / old-new block mixtures only); it is C15's and is not generated here".into(),
        "recovery runs in the worker process under catch_unwind; the driver re-runs every violation alone in a fresh process".into(),
        "anonymous mmap() calls made by zipora during MmapVec recoveries are fenced (guard page) and unmapped by the harness afterwards, because MmapVec never unmaps its buffer".into(),
    ];
    spec.components = vec![
        ("memory::MmapVec (+ memory::mmap::MemoryMappedAllocator)", "real"),
        ("blob_store::PlainBlobStore", "real"),
        ("blob_store::ZReorderMapBuilder / ZReorderMap", "real"),
        ("blob_store::ZipOffsetBlobStore save_to_file/load_from_file, save_to_writer/load_from_reader", "real (the saved file carries no offset index - known finding -, so every loaded store presents 0 records)"),
        ("compression::dict_zip::SuffixArrayDictionary save_to_file/load_from_file", "real"),
        ("compression::dict_zip::DictZipBlobStore from_dictionary_file/save_dictionary/load_dictionary", "real"),
        ("entropy::HuffmanTree / ContextualHuffmanEncoder / Dictionary serialize+deserialize", "real; the file write is done by the harness"),
        ("io::MemoryMappedOutput / MemoryMappedInput", "real"),
        ("algorithms::external_sort::ReplaceSelectSort (run files written by generate_runs, reopened by merge_runs)", "real; run files are damaged from the caller's input iterator between finish_run and the merge"),
        ("file system", "real (scratch directory under temp_dir, tmpfs when available); crash images are constructed by the harness"),
        ("libc mmap for anonymous private mappings during MmapVec recoveries", "real syscall behind a harness wrapper that adds a guard page and unmaps what MmapVec leaks"),
    ];
    spec.init = init;
    spec.rlimit_as_mb = 2048;
    spec.hang_secs = 20;
    // The run of MmapVec/large kills its process (known finding).  The driver's workers flush their
    // statistics every 1.5 s, so whatever a worker did since its last flush is lost when it dies:
    // the dying scenario goes FIRST, when there is nothing to lose yet.
    spec.scenarios.push(Box::new(MmapVecSc { large: true }));
    spec.scenarios.push(Box::new(MmapVecSc { large: false }));
    spec.scenarios.push(Box::new(MmapVecBytes));
    spec.scenarios.push(Box::new(PlainSc));
    spec.scenarios.push(Box::new(ReorderSc));
    spec.scenarios.push(Box::new(ZipOffsetSc));
    spec.scenarios.push(Box::new(DictSc { through_store: false }));
    spec.scenarios.push(Box::new(DictSc { through_store: true }));
    for kind in 0..3 {
        spec.scenarios.push(Box::new(SerialSc { kind }));
    }
    spec.scenarios.push(Box::new(MmapIoSc));
    spec.scenarios.push(Box::new(ExtSortSc));
    if !fence::selftest() {
        // without it MmapVec recoveries leak 64 KiB each until RLIMIT_AS turns every open into Err
        eprintln!("zsim: harness error: C19: the mmap interposition (fence) is not active in this executable");
        std::process::exit(2);
    }
    zsim_core::driver::main(spec);
}
