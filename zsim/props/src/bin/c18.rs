//! C18 — every submitted task runs exactly once; ordered pipelines keep their order.
//!
//! E2: the real executor / fiber pool / pipeline run on a tokio current_thread runtime with
//! a paused clock.  Submission instants, task body delays, failures, hangs, cooperative
//! yields inside the worker loop (guarded `async_point`s) and clock skew all come from the
//! run's tapes; virtual time only moves when every task is idle.

use std::collections::BTreeMap;
use std::future::Future;
use std::pin::Pin;
use std::sync::{Arc, Mutex};
use std::time::Duration;
use tokio::sync::mpsc;
use zipora::concurrency::fiber_pool::{FiberPool, FiberPoolConfig};
use zipora::concurrency::pipeline::{BatchCollector, Pipeline, PipelineConfig, PipelineStage};
use zipora::concurrency::work_stealing::{ClosureTask, WorkStealingExecutor};
use zipora::error::{Result as ZResult, ZiporaError};
use zsim_core::{Chan, CheckSpec, Run, Scenario, Tier};

fn runtime() -> tokio::runtime::Runtime {
    tokio::runtime::Builder::new_current_thread().enable_all().start_paused(true).build().expect("runtime")
}

fn install_yields(ch: Chan) {
    // seeded number of extra cooperative yields at each guarded async point of the worker loop
    zsim_core::hooks::set_yields(Some(Box::new(move |_site| ch.biased_zero(4, 1, 4) as u32)));
}

fn now_ms(t0: tokio::time::Instant) -> u64 {
    tokio::time::Instant::now().duration_since(t0).as_millis() as u64
}

// ------------------------------------------------------------------------------------------
// work-stealing executor

struct Exec;

impl Scenario for Exec {
    fn name(&self) -> String {
        "WorkStealingExecutor/submit".into()
    }
    fn budget(&self, tier: Tier) -> u64 {
        match tier {
            Tier::Quick => 20000,
            Tier::Thorough => 1_000_000,
        }
    }
    fn run(&self, cx: &mut Run) {
        zsim_core::hooks::reset();
        let cfg = cx.src.chan("cfg");
        let workers = 1 + cfg.below(4) as usize;
        let capacity = 1 + cfg.below(8) as usize;
        let big = cfg.chance(1, 12);
        let planned = if big { 100 + cfg.below(200) } else { cfg.below(3 * (capacity * workers) as u64 + 2) };
        let mut ops = cx.src.ops("ops", planned);
        let mut tasks: Vec<[u64; 4]> = vec![];
        while let Some(o) = ops.next() {
            tasks.push(o);
        }
        install_yields(cx.src.chan("sched"));
        cx.ev(format!("executor workers={} capacity={} tasks={}", workers, capacity, tasks.len()));
        let log: Arc<Mutex<Vec<(u64, u64)>>> = Arc::new(Mutex::new(vec![]));
        let events: Arc<Mutex<Vec<String>>> = Arc::new(Mutex::new(vec![]));
        let rt = runtime();
        let (accepted, sum_delay_ms, idle, executed, elapsed_ms, crossed_100) = rt.block_on(async {
            let t0 = tokio::time::Instant::now();
            let ex = WorkStealingExecutor::new(workers, capacity).expect("executor");
            let mut accepted: Vec<u64> = vec![];
            let mut sum_delay = 0u64;
            for (i, o) in tasks.iter().enumerate() {
                let id = i as u64;
                let prio = (o[0] % 4) as u8;
                let stealable = o[1] % 4 != 0;
                let delay = [0u64, 0, 1, 3, 20][(o[2] % 5) as usize];
                let gap = [0u64, 0, 0, 1, 7][(o[3] % 5) as usize];
                let yields = (o[3] / 5) % 3;
                for _ in 0..yields {
                    tokio::task::yield_now().await;
                }
                if gap > 0 {
                    tokio::time::sleep(Duration::from_millis(gap)).await;
                }
                let log2 = log.clone();
                let task = ClosureTask::new(move || {
                    Box::pin(async move {
                        if delay > 0 {
                            tokio::time::sleep(Duration::from_millis(delay)).await;
                        }
                        log2.lock().unwrap().push((id, now_ms(t0)));
                        Ok(())
                    }) as Pin<Box<dyn Future<Output = ZResult<()>> + Send>>
                })
                .with_priority(prio)
                .with_stealable(stealable);
                let r = ex.submit(Box::new(task));
                let ok = r.is_ok();
                if events.lock().unwrap().len() < 80 {
                    events.lock().unwrap().push(format!("t={}ms submit task{} prio={} stealable={} body={}ms -> {}", now_ms(t0), id, prio, stealable, delay, if ok { "accepted" } else { "refused" }));
                }
                if ok {
                    accepted.push(id);
                    sum_delay += delay;
                }
            }
            // submissions and faults have stopped; every accepted task must have run within
            // the sum of all body delays + 2 virtual seconds (2000 idle polls of every worker)
            let deadline = tokio::time::Instant::now() + Duration::from_millis(sum_delay + 2000);
            loop {
                let done = log.lock().unwrap().len() >= accepted.len() && ex.is_idle();
                if done || tokio::time::Instant::now() >= deadline {
                    break;
                }
                tokio::time::sleep(Duration::from_millis(5)).await;
            }
            let idle = ex.is_idle();
            let executed = ex.stats().total_executed;
            let _ = ex.shutdown().await;
            (accepted, sum_delay, idle, executed, now_ms(t0), tasks.len() >= 100)
        });
        drop(rt);
        zsim_core::hooks::reset();
        for e in events.lock().unwrap().iter() {
            cx.ev(e);
        }
        let log = log.lock().unwrap();
        let mut seen: BTreeMap<u64, u64> = BTreeMap::new();
        for (id, at) in log.iter() {
            *seen.entry(*id).or_insert(0) += 1;
            if seen.len() <= 60 {
                cx.ev(format!("t={}ms task{} ran", at, id));
            }
        }
        cx.sim_ms = elapsed_ms;
        cx.steps = tasks.len() as u64;
        cx.nontrivial = accepted.len() >= 2;
        cx.probe_n("tasks_accepted", accepted.len() as u64);
        cx.probe_n("tasks_refused", (tasks.len() - accepted.len()) as u64);
        if crossed_100 {
            cx.probe("run_crossed_100_executions");
        }
        if workers == 1 {
            cx.probe("single_worker_run");
        }
        cx.cell(format!("w{}/c{}/{}", workers, capacity.min(4), if big { "big" } else { "small" }));
        let _ = sum_delay_ms;
        if let Some((id, n)) = seen.iter().find(|(_, n)| **n > 1) {
            cx.violate("task_ran_twice", "WorkStealingExecutor.exactly_once", format!("task{} ran {} times", id, n));
            return;
        }
        if let Some((id, _)) = seen.iter().find(|(id, _)| !accepted.contains(id)) {
            cx.violate("refused_task_ran", "WorkStealingExecutor.exactly_once", format!("task{} was refused by submit but ran", id));
            return;
        }
        let missing: Vec<u64> = accepted.iter().filter(|id| !seen.contains_key(id)).cloned().collect();
        if !missing.is_empty() {
            cx.violate("task_never_ran", "WorkStealingExecutor.liveness", format!("{} of {} accepted tasks never ran within the bound after submissions stopped (first: task{}); workers={} capacity={}", missing.len(), accepted.len(), missing[0], workers, capacity));
            return;
        }
        if !idle {
            cx.violate("not_idle_at_quiescence", "WorkStealingExecutor.is_idle", "every accepted task has run but is_idle() is false".to_string());
            return;
        }
        if executed != accepted.len() as u64 {
            cx.violate("executed_count_mismatch", "WorkStealingExecutor.stats", format!("stats().total_executed={} but {} tasks were accepted and ran", executed, accepted.len()));
        }
    }
}

// ------------------------------------------------------------------------------------------
// fiber pool

struct Fibers;

impl Scenario for Fibers {
    fn name(&self) -> String {
        "FiberPool/spawn-map-reduce".into()
    }
    fn budget(&self, tier: Tier) -> u64 {
        match tier {
            Tier::Quick => 20000,
            Tier::Thorough => 1_000_000,
        }
    }
    fn run(&self, cx: &mut Run) {
        zsim_core::hooks::reset();
        let cfg = cx.src.chan("cfg");
        let max_fibers = 1 + cfg.below(4) as usize;
        let max_workers = 1 + cfg.below(4) as usize;
        let mode = cfg.below(4);
        let planned = cfg.below(10);
        let mut ops = cx.src.ops("ops", planned);
        let mut items: Vec<[u64; 4]> = vec![];
        while let Some(o) = ops.next() {
            items.push(o);
        }
        let n = items.len();
        install_yields(cx.src.chan("sched"));
        let mode_name = ["spawn_batch", "parallel_map", "parallel_for_each", "parallel_reduce"][mode as usize];
        cx.ev(format!("fiber pool max_fibers={} max_workers={} mode={} items={}", max_fibers, max_workers, mode_name, n));
        // item i: value, delay, fails?
        let vals: Vec<u64> = items.iter().enumerate().map(|(i, o)| (i as u64) * 1000 + o[0] % 1000).collect();
        let fails: Vec<bool> = items.iter().map(|o| o[1] % 6 == 0).collect();
        let delays: Vec<u64> = items.iter().map(|o| [0u64, 0, 1, 5, 30][(o[2] % 5) as usize]).collect();
        for i in 0..n {
            cx.ev(format!("item{} value={} delay={}ms fails={}", i, vals[i], delays[i], fails[i]));
        }
        let rt = runtime();
        let site = format!("FiberPool.{}", mode_name);
        let verdict: Option<(String, String)> = rt.block_on(async {
            let pool = FiberPool::new(FiberPoolConfig { max_fibers, initial_workers: 1, max_workers, queue_capacity: 16, idle_timeout: Duration::from_secs(1) }).expect("pool");
            let f = |x: u64| x.wrapping_mul(3).wrapping_add(1);
            let mut verdict = None;
            match mode {
                0 => {
                    let futs: Vec<_> = (0..n)
                        .map(|i| {
                            let (v, d, bad) = (vals[i], delays[i], fails[i]);
                            async move {
                                if d > 0 {
                                    tokio::time::sleep(Duration::from_millis(d)).await;
                                }
                                if bad {
                                    Err(ZiporaError::invalid_data("injected item failure"))
                                } else {
                                    Ok(v.wrapping_mul(3).wrapping_add(1))
                                }
                            }
                        })
                        .collect();
                    let handles = pool.spawn_batch(futs);
                    if handles.len() != n {
                        verdict = Some(("result_count_mismatch".to_string(), format!("{} handles for {} futures", handles.len(), n)));
                    }
                    for (i, h) in handles.into_iter().enumerate() {
                        let r = h.await;
                        match (r, fails[i]) {
                            (Ok(v), false) if v == f(vals[i]) => {}
                            (Err(_), true) => {}
                            (Ok(v), false) => verdict = verdict.or(Some(("wrong_result".to_string(), format!("item{} -> {} expected {}", i, v, f(vals[i]))))),
                            (Ok(v), true) => verdict = verdict.or(Some(("failure_swallowed".to_string(), format!("item{} failed but its handle returned Ok({})", i, v)))),
                            (Err(e), false) => verdict = verdict.or(Some(("spurious_error".to_string(), format!("item{} succeeded but its handle returned Err({})", i, e)))),
                        }
                    }
                }
                1 => {
                    let bad: Vec<u64> = (0..n).filter(|&i| fails[i]).map(|i| vals[i]).collect();
                    let bad2 = bad.clone();
                    let r = pool.parallel_map(vals.clone(), move |x: u64| if bad2.contains(&x) { Err(ZiporaError::invalid_data("injected item failure")) } else { Ok(x.wrapping_mul(3).wrapping_add(1)) }).await;
                    let expect: Vec<u64> = vals.iter().map(|&v| f(v)).collect();
                    match r {
                        Ok(v) if bad.is_empty() && v == expect => {}
                        Ok(v) if bad.is_empty() => verdict = Some(("wrong_result".to_string(), format!("parallel_map returned {:?}, sequential map gives {:?}", v, expect))),
                        Ok(v) => verdict = Some(("failure_swallowed".to_string(), format!("an item failed but parallel_map returned Ok with {} results for {} inputs", v.len(), n))),
                        Err(_) if !bad.is_empty() => {}
                        Err(e) => verdict = Some(("spurious_error".to_string(), format!("no item failed but parallel_map returned Err({})", e))),
                    }
                }
                2 => {
                    let bad: Vec<u64> = (0..n).filter(|&i| fails[i]).map(|i| vals[i]).collect();
                    let bad2 = bad.clone();
                    let visited: Arc<Mutex<Vec<u64>>> = Arc::new(Mutex::new(vec![]));
                    let v2 = visited.clone();
                    let r = pool
                        .parallel_for_each(vals.clone(), move |x: u64| {
                            v2.lock().unwrap().push(x);
                            if bad2.contains(&x) { Err(ZiporaError::invalid_data("injected item failure")) } else { Ok(()) }
                        })
                        .await;
                    for _ in 0..8 {
                        tokio::task::yield_now().await;
                    }
                    let mut vis = visited.lock().unwrap().clone();
                    vis.sort();
                    let mut exp = vals.clone();
                    exp.sort();
                    match r {
                        Ok(()) if bad.is_empty() => {
                            if vis != exp {
                                verdict = Some(("wrong_result".to_string(), format!("parallel_for_each visited {:?}, inputs were {:?}", vis, exp)));
                            }
                        }
                        Ok(()) => verdict = Some(("failure_swallowed".to_string(), "an item failed but parallel_for_each returned Ok".to_string())),
                        Err(_) if !bad.is_empty() => {}
                        Err(e) => verdict = Some(("spurious_error".to_string(), format!("no item failed but parallel_for_each returned Err({})", e))),
                    }
                    let mut dup = vis.clone();
                    dup.dedup();
                    if verdict.is_none() && dup.len() != vis.len() {
                        verdict = Some(("item_visited_twice".to_string(), format!("visited {:?}", vis)));
                    }
                }
                _ => {
                    // an associative, NON-commutative operator with a true identity (list concatenation):
                    // the parallel result must equal the sequential left fold, i.e. the inputs in order
                    let lists: Vec<Vec<u64>> = vals.iter().map(|&v| vec![v]).collect();
                    let r = pool
                        .parallel_reduce(lists, Vec::<u64>::new(), |mut a: Vec<u64>, b: Vec<u64>| {
                            a.extend(b);
                            Ok(a)
                        })
                        .await;
                    match r {
                        Ok(v) if v == vals => {}
                        Ok(v) => verdict = Some(("wrong_result".to_string(), format!("parallel_reduce(concat) = {:?} but the sequential fold gives {:?}", v, vals))),
                        Err(e) => verdict = Some(("spurious_error".to_string(), format!("parallel_reduce returned Err({})", e))),
                    }
                }
            }
            // quiescence: let detached fibers finish, then the counters must add up
            tokio::time::sleep(Duration::from_millis(100)).await;
            let s = pool.stats();
            if verdict.is_none() && s.completed + s.failed != s.total_spawned {
                verdict = Some(("counters_do_not_add_up".to_string(), format!("completed {} + failed {} != total_spawned {}", s.completed, s.failed, s.total_spawned)));
            }
            if verdict.is_none() && s.active_fibers != 0 {
                verdict = Some(("counters_do_not_add_up".to_string(), format!("active_fibers={} at quiescence", s.active_fibers)));
            }
            verdict
        });
        drop(rt);
        cx.steps = n as u64;
        cx.nontrivial = n >= 2;
        cx.cell(format!("{}/f{}/{}", mode_name, max_fibers, if fails.iter().any(|&b| b) { "fail" } else { "ok" }));
        if fails.iter().any(|&b| b) {
            cx.fault("item_failure");
        }
        if let Some((class, detail)) = verdict {
            cx.violate(&class, &site, detail);
        }
    }
}

// ------------------------------------------------------------------------------------------
// pipeline

#[derive(Clone)]
struct SimStage {
    name: String,
    add: u64,
    /// per input value: (delay ms, fails, hangs)
    plan: Arc<BTreeMap<u64, (u64, bool, bool)>>,
    batching: bool,
    seen: Arc<Mutex<Vec<u64>>>,
}

impl SimStage {
    fn apply(&self, x: u64) -> u64 {
        x.wrapping_add(self.add)
    }
}

impl PipelineStage<u64, u64> for SimStage {
    fn process(&self, input: u64) -> Pin<Box<dyn Future<Output = ZResult<u64>> + Send + '_>> {
        Box::pin(async move {
            self.seen.lock().unwrap().push(input);
            let (d, fail, hang) = self.plan.get(&input).cloned().unwrap_or((0, false, false));
            if hang {
                std::future::pending::<()>().await;
            }
            if d > 0 {
                tokio::time::sleep(Duration::from_millis(d)).await;
            }
            if fail {
                Err(ZiporaError::invalid_data("injected stage failure"))
            } else {
                Ok(self.apply(input))
            }
        })
    }
    fn name(&self) -> &str {
        &self.name
    }
    fn supports_batching(&self) -> bool {
        self.batching
    }
}

struct Pipe;

impl Scenario for Pipe {
    fn name(&self) -> String {
        "Pipeline/stages".into()
    }
    fn budget(&self, tier: Tier) -> u64 {
        match tier {
            Tier::Quick => 20000,
            Tier::Thorough => 1_000_000,
        }
    }
    fn run(&self, cx: &mut Run) {
        zsim_core::hooks::reset();
        let cfg = cx.src.chan("cfg");
        let mode = cfg.below(4);
        let mode_name = ["execute_single", "execute_two_stage", "process_batch", "execute_stream"][mode as usize];
        let buffer = 1 + cfg.below(4) as usize;
        let batching = cfg.chance(1, 2);
        let stage_batching = cfg.chance(1, 2);
        let nstages = if mode == 3 { 1 + cfg.below(3) as usize } else if mode == 1 { 2 } else { 1 };
        let timeout_ms = *cfg.pick(&[50u64, 1000, 30_000]);
        let planned = if mode <= 1 { 1 } else { cfg.below(8) };
        let mut ops = cx.src.ops("ops", planned);
        let mut items: Vec<[u64; 4]> = vec![];
        while let Some(o) = ops.next() {
            items.push(o);
        }
        let n = items.len();
        let inputs: Vec<u64> = (0..n).map(|i| (i as u64 + 1) * 100).collect();
        // each stage s adds 10^s*... keep values distinct: stage s adds (s+1)
        let mut stages: Vec<SimStage> = vec![];
        let mut first_bad: Option<usize> = None; // index of the first input that fails or hangs somewhere
        let fchan = cx.src.chan("fault");
        for s in 0..nstages {
            let mut plan = BTreeMap::new();
            for (i, o) in items.iter().enumerate() {
                let v_in = inputs[i] + (0..s).map(|k| k as u64 + 1).sum::<u64>();
                let delay = [0u64, 0, 1, 4, 40][((o[0] >> (s * 3)) % 5) as usize];
                let fail = fchan.chance(1, 8);
                let hang = !fail && fchan.chance(1, 16);
                if fail {
                    cx.fault("stage_failure");
                }
                if hang {
                    cx.fault("stage_never_completes");
                }
                if delay > timeout_ms {
                    cx.fault("stage_slower_than_timeout");
                }
                if fail || hang || delay > timeout_ms {
                    first_bad = Some(first_bad.map_or(i, |b| b.min(i)));
                }
                plan.insert(v_in, (delay, fail, hang));
                cx.ev(format!("stage{} input{} ({}) delay={}ms fail={} hang={}", s, i, v_in, delay, fail, hang));
            }
            stages.push(SimStage { name: format!("s{}", s), add: s as u64 + 1, plan: Arc::new(plan), batching: stage_batching, seen: Arc::new(Mutex::new(vec![])) });
        }
        // with batching the stage timeout covers the whole batch: a batch whose items together take
        // longer than stage_timeout may legitimately be reported as timed out
        let mut batch_may_time_out = false;
        if mode == 2 && batching && stage_batching {
            let total: u64 = stages[0].plan.values().map(|p| p.0).sum();
            if total >= timeout_ms && first_bad.is_none() {
                batch_may_time_out = true;
                cx.fault("batch_slower_than_timeout");
            }
        }
        let expect: Vec<u64> = inputs.iter().map(|&x| stages.iter().fold(x, |a, st| st.apply(a))).collect();
        cx.ev(format!("pipeline mode={} stages={} buffer={} batching={}/{} stage_timeout={}ms items={}", mode_name, nstages, buffer, batching, stage_batching, timeout_ms, n));
        let site = format!("Pipeline.{}", mode_name);
        let rt = runtime();
        let t_start = std::time::Instant::now();
        let (verdict, elapsed): (Option<(String, String)>, u64) = rt.block_on(async {
            let t0 = tokio::time::Instant::now();
            let pipeline = Pipeline::new(PipelineConfig { buffer_size: buffer, max_in_flight: 16, stage_timeout: Duration::from_millis(timeout_ms), enable_batching: batching, batch_size: 2, batch_timeout: Duration::from_millis(10) });
            let mut verdict = None;
            match mode {
                0 | 1 => {
                    if n == 1 {
                        let r = if mode == 0 { pipeline.execute_single(stages[0].clone(), inputs[0]).await } else { pipeline.execute_two_stage(stages[0].clone(), stages[1].clone(), inputs[0]).await };
                        match (r, first_bad) {
                            (Ok(v), None) if v == expect[0] => {}
                            (Ok(v), None) => verdict = Some(("wrong_result".to_string(), format!("got {} expected {}", v, expect[0]))),
                            (Ok(v), Some(_)) => verdict = Some(("failure_swallowed".to_string(), format!("a stage failed or timed out but the call returned Ok({})", v))),
                            (Err(_), Some(_)) => {}
                            (Err(e), None) => verdict = Some(("spurious_error".to_string(), format!("no stage failed but the call returned Err({})", e))),
                        }
                    }
                }
                2 => {
                    let r = pipeline.process_batch(stages[0].clone(), inputs.clone()).await;
                    match (r, first_bad) {
                        (Ok(v), None) if v == expect => {}
                        (Ok(v), None) => verdict = Some(("wrong_result".to_string(), format!("process_batch returned {:?}, sequential map gives {:?}", v, expect))),
                        (Ok(v), Some(b)) => verdict = Some(("failure_swallowed".to_string(), format!("input{} failed or timed out but process_batch returned Ok with {} results for {} inputs", b, v.len(), n))),
                        (Err(_), Some(_)) => {}
                        (Err(_), None) if batch_may_time_out => {}
                        (Err(e), None) => verdict = Some(("spurious_error".to_string(), format!("no item failed but process_batch returned Err({})", e))),
                    }
                }
                _ => {
                    let (in_tx, in_rx) = mpsc::channel::<u64>(buffer);
                    let (out_tx, mut out_rx) = mpsc::channel::<u64>(buffer);
                    let boxed: Vec<Box<dyn PipelineStage<u64, u64>>> = stages.iter().map(|s| Box::new(s.clone()) as Box<dyn PipelineStage<u64, u64>>).collect();
                    let inputs2 = inputs.clone();
                    let producer = tokio::spawn(async move {
                        for x in inputs2 {
                            if in_tx.send(x).await.is_err() {
                                break;
                            }
                        }
                    });
                    let consumer = tokio::spawn(async move {
                        let mut got = vec![];
                        while let Some(v) = out_rx.recv().await {
                            got.push(v);
                        }
                        got
                    });
                    let r = pipeline.execute_stream(boxed, in_rx, out_tx).await;
                    let _ = producer.await;
                    let got = consumer.await.unwrap_or_default();
                    let is_prefix = got.len() <= expect.len() && got[..] == expect[..got.len()];
                    if !is_prefix {
                        verdict = Some(("wrong_or_shifted_output".to_string(), format!("stream produced {:?}; sequential application gives {:?}", got, expect)));
                    } else {
                        match (&r, first_bad) {
                            (Ok(()), None) if got.len() == n => {}
                            (Ok(()), None) => verdict = Some(("missing_output".to_string(), format!("no stage failed, execute_stream returned Ok, but only {} of {} outputs arrived", got.len(), n))),
                            (Ok(()), Some(b)) if got.len() < n => verdict = Some(("failure_swallowed".to_string(), format!("input{} failed or timed out in a stage: {} of {} outputs arrived and execute_stream returned Ok(())", b, got.len(), n))),
                            (Ok(()), Some(_)) => verdict = Some(("failure_swallowed".to_string(), "a stage failed but all outputs arrived and Ok(()) was returned".to_string())),
                            (Err(_), Some(_)) => {}
                            (Err(e), None) => verdict = Some(("spurious_error".to_string(), format!("no stage failed but execute_stream returned Err({})", e))),
                        }
                    }
                }
            }
            (verdict, now_ms(t0))
        });
        drop(rt);
        let _ = t_start;
        cx.sim_ms = elapsed;
        cx.steps = n as u64;
        cx.nontrivial = n >= 1;
        cx.cell(format!("{}/s{}/{}", mode_name, nstages, if first_bad.is_some() { "fault" } else { "clean" }));
        if let Some((class, detail)) = verdict {
            cx.violate(&class, &site, detail);
        }
    }
}

// ------------------------------------------------------------------------------------------
// batch collector under clock skew

struct Batches;

impl Scenario for Batches {
    fn name(&self) -> String {
        "BatchCollector/clock-skew".into()
    }
    fn budget(&self, tier: Tier) -> u64 {
        match tier {
            Tier::Quick => 12000,
            Tier::Thorough => 600_000,
        }
    }
    fn run(&self, cx: &mut Run) {
        zsim_core::hooks::reset();
        let cfg = cx.src.chan("cfg");
        let max_batch = 1 + cfg.below(5) as usize;
        let timeout_ms = *cfg.pick(&[4u64, 20, 100]);
        let planned = cfg.below(12);
        let mut ops = cx.src.ops("ops", planned);
        let mut items: Vec<[u64; 4]> = vec![];
        while let Some(o) = ops.next() {
            items.push(o);
        }
        let n = items.len();
        // clock jumps: at seeded reads of the shimmed clock the skew grows
        let fchan = cx.src.chan("fault");
        let jumps = Arc::new(Mutex::new(0u64));
        let j2 = jumps.clone();
        zsim_core::hooks::set_skew_fn(Some(Box::new(move || {
            if fchan.chance(1, 10) {
                *j2.lock().unwrap() += 1;
                [1_000_000u64, 50_000_000, 5_000_000_000][fchan.below(3) as usize]
            } else {
                0
            }
        })));
        cx.ev(format!("collector max_batch_size={} batch_timeout={}ms items={}", max_batch, timeout_ms, n));
        let rt = runtime();
        let out: Arc<Mutex<Vec<(String, Vec<u64>)>>> = Arc::new(Mutex::new(vec![]));
        let out2 = out.clone();
        rt.block_on(async {
            let t0 = tokio::time::Instant::now();
            let collector: BatchCollector<u64> = BatchCollector::new(max_batch, Duration::from_millis(timeout_ms));
            let out3 = out2.clone();
            let checker = collector.start_timeout_checker(move |batch: Vec<u64>| {
                let out4 = out3.clone();
                Box::pin(async move {
                    out4.lock().unwrap().push((format!("t={}ms timeout", now_ms(t0)), batch));
                }) as Pin<Box<dyn Future<Output = ()> + Send>>
            });
            for (i, o) in items.iter().enumerate() {
                let gap = [0u64, 0, 1, 3, 30, 150][(o[0] % 6) as usize];
                if gap > 0 {
                    tokio::time::sleep(Duration::from_millis(gap)).await;
                } else if o[1] % 2 == 0 {
                    tokio::task::yield_now().await;
                }
                if let Ok(Some(b)) = collector.add(i as u64).await {
                    out2.lock().unwrap().push((format!("t={}ms add({}) full", now_ms(t0), i), b));
                }
            }
            tokio::time::sleep(Duration::from_millis(*[0u64, 1, 500].get((n % 3) as usize).unwrap())).await;
            if let Ok(Some(b)) = collector.flush().await {
                out2.lock().unwrap().push((format!("t={}ms flush", now_ms(t0)), b));
            }
            checker.abort();
            let _ = checker.await;
        });
        drop(rt);
        zsim_core::hooks::reset();
        let jumps = *jumps.lock().unwrap();
        for _ in 0..jumps {
            cx.fault("clock_jump");
        }
        let out = out.lock().unwrap();
        let mut all: Vec<u64> = vec![];
        for (how, b) in out.iter() {
            cx.ev(format!("batch via {}: {:?}", how, b));
            if b.len() > max_batch {
                cx.violate("batch_too_large", "BatchCollector.batch_size", format!("batch of {} items with max_batch_size {}", b.len(), max_batch));
                return;
            }
            if how.contains("timeout") {
                cx.probe("batch_flushed_by_timeout");
            }
            all.extend(b.iter().cloned());
        }
        cx.steps = n as u64;
        cx.nontrivial = n >= 2;
        let expect: Vec<u64> = (0..n as u64).collect();
        let mut sorted = all.clone();
        sorted.sort();
        if sorted != expect {
            let missing: Vec<u64> = expect.iter().filter(|x| !all.contains(x)).cloned().collect();
            let class = if missing.is_empty() { "item_in_two_batches" } else { "item_lost" };
            cx.violate(class, "BatchCollector.exactly_once", format!("items handed in: {:?}; items that came out: {:?}", expect, all));
            return;
        }
        if all != expect {
            cx.violate("items_reordered", "BatchCollector.order", format!("items came out as {:?}", all));
        }
    }
}

// ------------------------------------------------------------------------------------------
// several client threads inside submit() at once (E1 over the executor's queue locks/atomics)

struct ConcurrentSubmit;

impl Scenario for ConcurrentSubmit {
    fn name(&self) -> String {
        "WorkStealingExecutor/concurrent-submit".into()
    }
    fn budget(&self, tier: Tier) -> u64 {
        match tier {
            Tier::Quick => 6000,
            Tier::Thorough => 400_000,
        }
    }
    fn run(&self, cx: &mut Run) {
        use zsim_core::e1;
        zsim_core::hooks::reset();
        let cfg = cx.src.chan("cfg");
        let workers = 1 + cfg.below(3) as usize;
        let capacity = 1 + cfg.below(4) as usize;
        let nthreads = 2 + cfg.biased_zero(2, 1, 3) as usize;
        let e1cfg = e1::draw_cfg(&cfg, 12000);
        cx.ev(format!("executor workers={} capacity={} submitting threads={}", workers, capacity, nthreads));
        let rt = runtime();
        // workers are spawned but do not run until the runtime is driven below: the submit phase
        // only fills the queues, under the baton scheduler
        let ex = {
            let _g = rt.enter();
            WorkStealingExecutor::new(workers, capacity).expect("executor")
        };
        let log: Arc<Mutex<Vec<u64>>> = Arc::new(Mutex::new(vec![]));
        let accepted: Arc<Mutex<Vec<u64>>> = Arc::new(Mutex::new(vec![]));
        let events: Arc<Mutex<Vec<String>>> = Arc::new(Mutex::new(vec![]));
        let mut bodies: Vec<e1::Body> = vec![];
        for t in 0..nthreads {
            let planned = 1 + cfg.below(4);
            let mut ops = cx.src.ops(&format!("ops.t{}", t), planned);
            let mut list = vec![];
            while let Some(o) = ops.next() {
                list.push(o);
            }
            let ex = ex.clone();
            let (log, accepted, events) = (log.clone(), accepted.clone(), events.clone());
            bodies.push(Box::new(move |me: usize| {
                for (i, o) in list.iter().enumerate() {
                    let id = (me as u64) * 100 + i as u64;
                    let prio = (o[0] % 3) as u8;
                    let log2 = log.clone();
                    let task = ClosureTask::new(move || {
                        Box::pin(async move {
                            log2.lock().unwrap().push(id);
                            Ok(())
                        }) as Pin<Box<dyn Future<Output = ZResult<()>> + Send>>
                    })
                    .with_priority(prio)
                    .with_stealable(o[1] % 3 != 0);
                    let ok = ex.submit(Box::new(task)).is_ok();
                    if ok {
                        accepted.lock().unwrap().push(id);
                    }
                    events.lock().unwrap().push(format!("t{} submit task{} prio={} -> {}", me, id, prio, if ok { "accepted" } else { "refused" }));
                }
            }));
        }
        let sched = cx.src.chan("sched");
        let res = e1::run_threads(&sched, &e1cfg, bodies, None);
        for e in events.lock().unwrap().iter() {
            cx.ev(e);
        }
        cx.trace.feed(res.hash);
        cx.steps = res.steps;
        cx.probe_n("context_switches", res.switches);
        cx.nontrivial = res.switches >= 1;
        cx.abandoned = res.abandoned;
        if let Some(v) = res.violation {
            cx.violate(&v.class, &v.site, v.detail);
            return;
        }
        if res.abandoned {
            // the step cap ended the submit phase by unwinding the threads where they stood (a
            // queue lock may have been held and is poisoned now): nothing to judge in this run
            cx.probe("abandoned_at_step_cap");
            cx.ev("submit phase abandoned at the step cap");
            return;
        }
        let accepted = accepted.lock().unwrap().clone();
        let queued_before = ex.total_queued();
        let (idle, executed) = rt.block_on(async {
            let deadline = tokio::time::Instant::now() + Duration::from_millis(2000);
            loop {
                if (log.lock().unwrap().len() >= accepted.len() && ex.is_idle()) || tokio::time::Instant::now() >= deadline {
                    break;
                }
                tokio::time::sleep(Duration::from_millis(5)).await;
            }
            let r = (ex.is_idle(), ex.stats().total_executed);
            let _ = ex.shutdown().await;
            r
        });
        drop(rt);
        let log = log.lock().unwrap();
        let mut seen: BTreeMap<u64, u64> = BTreeMap::new();
        for id in log.iter() {
            *seen.entry(*id).or_insert(0) += 1;
        }
        cx.ev(format!("after the submit phase {} tasks were queued for {} accepted; {} ran", queued_before, accepted.len(), log.len()));
        if let Some((id, n)) = seen.iter().find(|(_, n)| **n > 1) {
            cx.violate("task_ran_twice", "WorkStealingExecutor.exactly_once", format!("task{} ran {} times", id, n));
            return;
        }
        let missing: Vec<u64> = accepted.iter().filter(|id| !seen.contains_key(id)).cloned().collect();
        if !missing.is_empty() {
            cx.violate("task_never_ran", "WorkStealingExecutor.concurrent_submit", format!("{} of {} accepted tasks never ran (first: task{}); {} were in the queues when the submitting threads finished", missing.len(), accepted.len(), missing[0], queued_before));
            return;
        }
        if !idle || executed != accepted.len() as u64 {
            cx.violate("not_idle_at_quiescence", "WorkStealingExecutor.is_idle", format!("is_idle()={} total_executed={} accepted={}", idle, executed, accepted.len()));
        }
    }
}

fn main() {
    let mut spec = CheckSpec::new(
        "C18",
        "exploration",
        "seeded virtual-time executions (tokio current_thread runtime, paused clock): seeded worker count / capacities / task multisets / submit instants / body delays / failing and never-completing stage items / cooperative yields inside the worker loop / clock jumps; \
         non-trivial = at least two tasks or items; distinct = distinct hash of the (virtual time, event) trace",
    );
    spec.assumptions = vec![
        "tokio's current_thread scheduler: tasks interleave only at await points; interleavings that only a multi-thread runtime can produce inside one poll are not explored".into(),
        "liveness bound: after submissions stop, every accepted task has run within (sum of body delays + 2 virtual seconds)".into(),
        "async_blob_store.rs and fiber_aio.rs go through tokio's blocking pool and real files and are not simulated".into(),
    ];
    spec.components = vec![
        ("concurrency::work_stealing::{WorkStealingExecutor, WorkStealingQueue}", "real"),
        ("concurrency::fiber_pool::FiberPool", "real"),
        ("concurrency::pipeline::{Pipeline, BatchCollector}", "real"),
        ("tokio runtime", "real current_thread runtime, clock paused (virtual time)"),
        ("client threads calling submit() concurrently", "real OS threads, one at a time under the E1 baton scheduler (scheduling point at every queue lock / atomic)"),
        ("task bodies / PipelineStage implementations / producers / consumers", "harness actors (seeded delays, failures, hangs)"),
        ("concurrency::{async_blob_store, fiber_aio}", "not run"),
    ];
    spec.init = zsim_props::install_hooks;
    spec.hang_secs = 60;
    spec.scenarios.push(Box::new(Exec));
    spec.scenarios.push(Box::new(Fibers));
    spec.scenarios.push(Box::new(Pipe));
    spec.scenarios.push(Box::new(Batches));
    spec.scenarios.push(Box::new(ConcurrentSubmit));
    zsim_core::driver::main(spec);
}
