//! C18 — every submitted task runs exactly once; ordered pipelines keep their order.
//!
//! E2: the real executor / fiber pool / pipeline run on a tokio current_thread runtime with
//! a paused clock.  Submission instants, task body delays, failures, hangs, cooperative
//! yields inside the worker loop (guarded `async_point`s) and clock skew all come from the
//! run's tapes; virtual time only moves when every task is idle.

use std::collections::BTreeMap;
use std::future::Future;
use std::pin::Pin;
use std::sync::{Arc, Mutex};
use std::time::Duration;
use tokio::sync::mpsc;
use zipora::concurrency::fiber_pool::{FiberPool, FiberPoolConfig};
use zipora::concurrency::pipeline::{BatchCollector, BatchMapStage, FilterStage, MapStage, Pipeline, PipelineBuilder, PipelineConfig, PipelineStage};
use zipora::concurrency::work_stealing::{ClosureTask, Task, WorkStealingExecutor, WorkStealingQueue};
use zipora::error::{Result as ZResult, ZiporaError};
use zsim_core::{Chan, CheckSpec, Run, Scenario, Tier};

fn runtime() -> tokio::runtime::Runtime {
    tokio::runtime::Builder::new_current_thread().enable_all().start_paused(true).build().expect("runtime")
}

fn install_yields(ch: Chan) {
    // seeded number of extra cooperative yields at each guarded async point of the worker loop
    zsim_core::hooks::set_yields(Some(Box::new(move |_site| ch.biased_zero(4, 1, 4) as u32)));
}

fn now_ms(t0: tokio::time::Instant) -> u64 {
    tokio::time::Instant::now().duration_since(t0).as_millis() as u64
}

// ------------------------------------------------------------------------------------------
// work-stealing executor

struct Exec;

/// What the audit added to this scenario (all of it swarm-style, so the old shape of run still occurs):
/// tasks that submit a child task from inside a worker, task bodies that return Err, task bodies that
/// yield, `submit_closure`, a second wave of submissions after the executor went idle (optionally with
/// exactly 100 executions behind it, the `total_executed % 100 == 0` state), and `is_idle()` sampled
/// all the time instead of only at quiescence.
#[derive(Clone, Copy)]
struct ExecTask {
    id: u64,
    prio: u8,
    stealable: bool,
    closure_api: bool,
    delay: u64,
    gap: u64,
    yields: u64,
    body_yields: u64,
    returns_err: bool,
    /// (prio, stealable, delay) of the child this task submits after its own body
    child: Option<(u8, bool, u64)>,
}

type BoxedBody = Pin<Box<dyn Future<Output = ZResult<()>> + Send>>;

struct ExecShared {
    log: Mutex<Vec<(u64, u64)>>,
    accepted: Mutex<Vec<u64>>,
    refused: Mutex<Vec<u64>>,
    events: Mutex<Vec<String>>,
}

impl ExecShared {
    fn ev(&self, s: String) {
        let mut e = self.events.lock().unwrap();
        if e.len() < 100 {
            e.push(s);
        }
    }
}

fn exec_body(t: ExecTask, ex: Arc<WorkStealingExecutor>, sh: Arc<ExecShared>, t0: tokio::time::Instant) -> BoxedBody {
    Box::pin(async move {
        if t.delay > 0 {
            tokio::time::sleep(Duration::from_millis(t.delay)).await;
        }
        for _ in 0..t.body_yields {
            tokio::task::yield_now().await;
        }
        sh.log.lock().unwrap().push((t.id, now_ms(t0)));
        if let Some((cp, cs, cd)) = t.child {
            // a task handing more work to its own executor, from inside a worker
            let child = ExecTask { id: 1000 + t.id, prio: cp, stealable: cs, closure_api: false, delay: cd, gap: 0, yields: 0, body_yields: 0, returns_err: false, child: None };
            let (ex2, sh2) = (ex.clone(), sh.clone());
            let task = ClosureTask::new(move || exec_body(child, ex2, sh2, t0)).with_priority(cp).with_stealable(cs);
            let ok = ex.submit(Box::new(task)).is_ok();
            sh.ev(format!("t={}ms task{} submits child task{} prio={} stealable={} body={}ms -> {}", now_ms(t0), t.id, child.id, cp, cs, cd, if ok { "accepted" } else { "refused" }));
            if ok {
                sh.accepted.lock().unwrap().push(child.id);
            } else {
                sh.refused.lock().unwrap().push(child.id);
            }
        }
        if t.returns_err {
            Err(ZiporaError::invalid_data("injected task failure"))
        } else {
            Ok(())
        }
    })
}

impl Scenario for Exec {
    fn name(&self) -> String {
        "WorkStealingExecutor/submit".into()
    }
    fn budget(&self, tier: Tier) -> u64 {
        match tier {
            Tier::Quick => 20000,
            Tier::Thorough => 1_000_000,
        }
    }
    fn run(&self, cx: &mut Run) {
        zsim_core::hooks::reset();
        let cfg = cx.src.chan("cfg");
        let workers = 1 + cfg.below(4) as usize;
        let capacity = 1 + cfg.below(8) as usize;
        let big = cfg.chance(1, 12);
        let planned = if big { 100 + cfg.below(200) } else { cfg.below(3 * (capacity * workers) as u64 + 2) };
        // swarm knobs of the audit
        let two_waves = cfg.chance(1, 4);
        let wave_gap = *cfg.pick(&[0u64, 3, 150]);
        let exact_100 = cfg.chance(1, 2);
        let with_children = cfg.chance(1, 3);
        let with_failing = cfg.chance(1, 3);
        let with_body_yields = cfg.chance(1, 3);
        let with_closure_api = cfg.chance(1, 3);
        let mut ops = cx.src.ops("ops", planned);
        let mut tasks: Vec<ExecTask> = vec![];
        while let Some(o) = ops.next() {
            let id = tasks.len() as u64;
            let closure_api = with_closure_api && (o[0] / 4) % 3 == 0;
            // submit_closure builds a default ClosureTask: priority 0, stealable
            let prio = if closure_api { 0 } else { (o[0] % 4) as u8 };
            let stealable = closure_api || o[1] % 4 != 0;
            let child = if with_children && (o[1] / 4) % 4 == 0 { Some((((o[0] / 12) % 4) as u8, (o[1] / 16) % 3 != 0, [0u64, 0, 1, 3][((o[2] / 20) % 4) as usize])) } else { None };
            tasks.push(ExecTask {
                id,
                prio,
                stealable,
                closure_api,
                delay: [0u64, 0, 1, 3, 20][(o[2] % 5) as usize],
                gap: [0u64, 0, 0, 1, 7][(o[3] % 5) as usize],
                yields: (o[3] / 5) % 3,
                body_yields: if with_body_yields { (o[3] / 15) % 3 } else { 0 },
                returns_err: with_failing && (o[2] / 5) % 4 == 0,
                child,
            });
        }
        install_yields(cx.src.chan("sched"));
        let n_tasks = tasks.len();
        let split = if !two_waves {
            n_tasks
        } else if big && exact_100 && n_tasks > 100 {
            100
        } else {
            n_tasks / 2
        };
        cx.ev(format!("executor workers={} capacity={} tasks={}{}", workers, capacity, n_tasks, if two_waves { format!(" in two waves ({} + {}), {}ms apart", split, n_tasks - split, wave_gap) } else { String::new() }));
        let sh = Arc::new(ExecShared { log: Mutex::new(vec![]), accepted: Mutex::new(vec![]), refused: Mutex::new(vec![]), events: Mutex::new(vec![]) });
        let rt = runtime();
        let sh_outer = sh.clone();
        let (idle, executed, elapsed_ms, premature, boundary_at_100) = rt.block_on(async {
            let sh = sh_outer;
            let t0 = tokio::time::Instant::now();
            let ex = WorkStealingExecutor::new(workers, capacity).expect("executor");
            let mut premature: Option<String> = None;
            let mut boundary_at_100 = false;
            let waves: Vec<&[ExecTask]> = if two_waves { vec![&tasks[..split], &tasks[split..]] } else { vec![&tasks[..]] };
            let n_waves = waves.len();
            for (wi, wave) in waves.into_iter().enumerate() {
                let mut sum_delay = 0u64;
                for t in wave.iter() {
                    for _ in 0..t.yields {
                        tokio::task::yield_now().await;
                    }
                    if t.gap > 0 {
                        tokio::time::sleep(Duration::from_millis(t.gap)).await;
                    }
                    if premature.is_none() && ex.is_idle() {
                        let (ran, acc) = (sh.log.lock().unwrap().len(), sh.accepted.lock().unwrap().len());
                        if ran < acc {
                            premature = Some(format!("t={}ms before submitting task{}: is_idle()=true but only {} of {} accepted tasks have run", now_ms(t0), t.id, ran, acc));
                        }
                    }
                    let (t2, ex2, sh2) = (*t, ex.clone(), sh.clone());
                    let r = if t.closure_api {
                        ex.submit_closure(move || exec_body(t2, ex2, sh2, t0))
                    } else {
                        let task = ClosureTask::new(move || exec_body(t2, ex2, sh2, t0)).with_priority(t.prio).with_stealable(t.stealable);
                        ex.submit(Box::new(task))
                    };
                    let ok = r.is_ok();
                    sh.ev(format!(
                        "t={}ms {} task{} prio={} stealable={} body={}ms{}{}{} -> {}",
                        now_ms(t0),
                        if t.closure_api { "submit_closure" } else { "submit" },
                        t.id,
                        t.prio,
                        t.stealable,
                        t.delay,
                        if t.returns_err { " returns-Err" } else { "" },
                        if t.body_yields > 0 { " yields" } else { "" },
                        if t.child.is_some() { " has-child" } else { "" },
                        if ok { "accepted" } else { "refused" }
                    ));
                    if ok {
                        sh.accepted.lock().unwrap().push(t.id);
                        sum_delay += t.delay + t.child.map_or(0, |c| c.2);
                    } else {
                        sh.refused.lock().unwrap().push(t.id);
                    }
                    if premature.is_none() && ex.is_idle() {
                        let (ran, acc) = (sh.log.lock().unwrap().len(), sh.accepted.lock().unwrap().len());
                        if ran < acc {
                            premature = Some(format!("t={}ms right after submitting task{}: is_idle()=true but only {} of {} accepted tasks have run", now_ms(t0), t.id, ran, acc));
                        }
                    }
                }
                // submissions of this wave have stopped; every accepted task must have run within
                // the sum of all body delays + 2 virtual seconds (2000 idle polls of every worker)
                let deadline = tokio::time::Instant::now() + Duration::from_millis(sum_delay + 2000);
                let mut quiescent = false;
                // a few looks at is_idle() between the workers' turns (virtual time does not move here)
                for _ in 0..6 {
                    tokio::task::yield_now().await;
                    let (ran, acc) = (sh.log.lock().unwrap().len(), sh.accepted.lock().unwrap().len());
                    if premature.is_none() && ran < acc && ex.is_idle() {
                        premature = Some(format!("t={}ms: is_idle()=true but only {} of {} accepted tasks have run", now_ms(t0), ran, acc));
                    }
                }
                loop {
                    let (ran, acc) = (sh.log.lock().unwrap().len(), sh.accepted.lock().unwrap().len());
                    let idle_now = ex.is_idle();
                    if premature.is_none() && idle_now && ran < acc {
                        premature = Some(format!("t={}ms: is_idle()=true but only {} of {} accepted tasks have run", now_ms(t0), ran, acc));
                    }
                    if ran >= acc && idle_now {
                        quiescent = true;
                        break;
                    }
                    if tokio::time::Instant::now() >= deadline {
                        break;
                    }
                    tokio::time::sleep(Duration::from_millis(5)).await;
                }
                if !quiescent {
                    break; // judged below: some accepted task has not run within the bound, or the executor is not idle
                }
                if wi + 1 < n_waves {
                    let done = ex.stats().total_executed;
                    if done > 0 && done % 100 == 0 {
                        boundary_at_100 = true;
                    }
                    sh.ev(format!("t={}ms wave {} done: executor idle after {} executions", now_ms(t0), wi + 1, done));
                    if wave_gap > 0 {
                        tokio::time::sleep(Duration::from_millis(wave_gap)).await;
                    }
                }
            }
            let idle = ex.is_idle();
            let executed = ex.stats().total_executed;
            let _ = ex.shutdown().await;
            (idle, executed, now_ms(t0), premature, boundary_at_100)
        });
        drop(rt);
        zsim_core::hooks::reset();
        for e in sh.events.lock().unwrap().iter() {
            cx.ev(e);
        }
        let accepted = sh.accepted.lock().unwrap().clone();
        let refused = sh.refused.lock().unwrap().clone();
        let log = sh.log.lock().unwrap();
        let mut seen: BTreeMap<u64, u64> = BTreeMap::new();
        for (id, at) in log.iter() {
            *seen.entry(*id).or_insert(0) += 1;
            if seen.len() <= 60 {
                cx.ev(format!("t={}ms task{} ran", at, id));
            }
        }
        cx.sim_ms = elapsed_ms;
        cx.steps = n_tasks as u64;
        cx.nontrivial = accepted.len() >= 2;
        cx.probe_n("tasks_accepted", accepted.len() as u64);
        cx.probe_n("tasks_refused", refused.len() as u64);
        cx.probe_n("child_tasks_accepted", accepted.iter().filter(|&&id| id >= 1000).count() as u64);
        if n_tasks >= 100 {
            cx.probe("run_crossed_100_executions");
        }
        if workers == 1 {
            cx.probe("single_worker_run");
        }
        if two_waves && accepted.len() >= 2 {
            cx.probe("second_wave_after_idle");
        }
        if boundary_at_100 {
            cx.probe("second_wave_at_multiple_of_100_executions");
        }
        cx.cell(format!("w{}/c{}/{}/{}", workers, capacity.min(4), if big { "big" } else { "small" }, if two_waves { "2w" } else { "1w" }));
        if let Some((id, n)) = seen.iter().find(|(_, n)| **n > 1) {
            cx.violate("task_ran_twice", "WorkStealingExecutor.exactly_once", format!("task{} ran {} times", id, n));
            return;
        }
        if let Some((id, _)) = seen.iter().find(|(id, _)| !accepted.contains(id)) {
            cx.violate("refused_task_ran", "WorkStealingExecutor.exactly_once", format!("task{} was refused by submit but ran", id));
            return;
        }
        let missing: Vec<u64> = accepted.iter().filter(|id| !seen.contains_key(id)).cloned().collect();
        if !missing.is_empty() {
            cx.violate("task_never_ran", "WorkStealingExecutor.liveness", format!("{} of {} accepted tasks never ran within the bound after submissions stopped (first: task{}); workers={} capacity={}", missing.len(), accepted.len(), missing[0], workers, capacity));
            return;
        }
        if !idle {
            cx.violate("not_idle_at_quiescence", "WorkStealingExecutor.is_idle", "every accepted task has run but is_idle() is false".to_string());
            return;
        }
        if executed != accepted.len() as u64 {
            cx.violate("executed_count_mismatch", "WorkStealingExecutor.stats", format!("stats().total_executed={} but {} tasks were accepted and ran", executed, accepted.len()));
            return;
        }
        // judged last, so that it never hides one of the clauses above: "the executor becomes idle
        // after the last one finishes" - not while an accepted task has yet to run
        if let Some(detail) = premature {
            cx.violate("idle_before_last_task_finished", "WorkStealingExecutor.is_idle", detail);
        }
    }
}

// ------------------------------------------------------------------------------------------
// fiber pool

struct Fibers;

const FIBER_MODES: [&str; 7] = ["spawn_batch", "parallel_map", "parallel_for_each", "parallel_reduce", "spawn", "parallel_reduce_failing", "abort"];

struct FiberRound {
    mode: u64,
    vals: Vec<u64>,
    delays: Vec<u64>,
    fails: Vec<bool>,
    /// secondary key per item: await order (mode "spawn"), which handles are aborted (mode "abort")
    keys: Vec<u64>,
}

fn fiber_f(x: u64) -> u64 {
    x.wrapping_mul(3).wrapping_add(1)
}

fn fiber_item(v: u64, d: u64, bad: bool) -> impl Future<Output = ZResult<u64>> + Send + 'static {
    async move {
        if d > 0 {
            tokio::time::sleep(Duration::from_millis(d)).await;
        }
        if bad {
            Err(ZiporaError::invalid_data("injected item failure"))
        } else {
            Ok(fiber_f(v))
        }
    }
}

/// One operation on the pool; returns the (class, detail) of the first broken clause.  `aborted` is set
/// when a handle was aborted (the counters are not judged then: the statement says nothing about them).
async fn fiber_round(pool: &FiberPool, r: &FiberRound, aborted: &mut bool) -> Option<(String, String)> {
    let n = r.vals.len();
    let (vals, delays, fails) = (&r.vals, &r.delays, &r.fails);
    let f = fiber_f;
    let mut verdict: Option<(String, String)> = None;
    match r.mode {
        0 => {
            let futs: Vec<_> = (0..n).map(|i| fiber_item(vals[i], delays[i], fails[i])).collect();
            let handles = pool.spawn_batch(futs);
            if handles.len() != n {
                verdict = Some(("result_count_mismatch".to_string(), format!("{} handles for {} futures", handles.len(), n)));
            }
            for (i, h) in handles.into_iter().enumerate() {
                let r = h.await;
                match (r, fails[i]) {
                    (Ok(v), false) if v == f(vals[i]) => {}
                    (Err(_), true) => {}
                    (Ok(v), false) => verdict = verdict.or(Some(("wrong_result".to_string(), format!("item{} -> {} expected {}", i, v, f(vals[i]))))),
                    (Ok(v), true) => verdict = verdict.or(Some(("failure_swallowed".to_string(), format!("item{} failed but its handle returned Ok({})", i, v)))),
                    (Err(e), false) => verdict = verdict.or(Some(("spurious_error".to_string(), format!("item{} succeeded but its handle returned Err({})", i, e)))),
                }
            }
        }
        1 => {
            let bad: Vec<u64> = (0..n).filter(|&i| fails[i]).map(|i| vals[i]).collect();
            let bad2 = bad.clone();
            let r = pool.parallel_map(vals.clone(), move |x: u64| if bad2.contains(&x) { Err(ZiporaError::invalid_data("injected item failure")) } else { Ok(x.wrapping_mul(3).wrapping_add(1)) }).await;
            let expect: Vec<u64> = vals.iter().map(|&v| f(v)).collect();
            match r {
                Ok(v) if bad.is_empty() && v == expect => {}
                Ok(v) if bad.is_empty() => verdict = Some(("wrong_result".to_string(), format!("parallel_map returned {:?}, sequential map gives {:?}", v, expect))),
                Ok(v) => verdict = Some(("failure_swallowed".to_string(), format!("an item failed but parallel_map returned Ok with {} results for {} inputs", v.len(), n))),
                Err(_) if !bad.is_empty() => {}
                Err(e) => verdict = Some(("spurious_error".to_string(), format!("no item failed but parallel_map returned Err({})", e))),
            }
        }
        2 => {
            let bad: Vec<u64> = (0..n).filter(|&i| fails[i]).map(|i| vals[i]).collect();
            let bad2 = bad.clone();
            let visited: Arc<Mutex<Vec<u64>>> = Arc::new(Mutex::new(vec![]));
            let v2 = visited.clone();
            let r = pool
                .parallel_for_each(vals.clone(), move |x: u64| {
                    v2.lock().unwrap().push(x);
                    if bad2.contains(&x) { Err(ZiporaError::invalid_data("injected item failure")) } else { Ok(()) }
                })
                .await;
            for _ in 0..8 {
                tokio::task::yield_now().await;
            }
            let mut vis = visited.lock().unwrap().clone();
            vis.sort();
            let mut exp = vals.clone();
            exp.sort();
            match r {
                Ok(()) if bad.is_empty() => {
                    if vis != exp {
                        verdict = Some(("wrong_result".to_string(), format!("parallel_for_each visited {:?}, inputs were {:?}", vis, exp)));
                    }
                }
                Ok(()) => verdict = Some(("failure_swallowed".to_string(), "an item failed but parallel_for_each returned Ok".to_string())),
                Err(_) if !bad.is_empty() => {}
                Err(e) => verdict = Some(("spurious_error".to_string(), format!("no item failed but parallel_for_each returned Err({})", e))),
            }
            let mut dup = vis.clone();
            dup.dedup();
            if verdict.is_none() && dup.len() != vis.len() {
                verdict = Some(("item_visited_twice".to_string(), format!("visited {:?}", vis)));
            }
        }
        3 => {
            // an associative, NON-commutative operator with a true identity (list concatenation):
            // the parallel result must equal the sequential left fold, i.e. the inputs in order
            let lists: Vec<Vec<u64>> = vals.iter().map(|&v| vec![v]).collect();
            let r = pool
                .parallel_reduce(lists, Vec::<u64>::new(), |mut a: Vec<u64>, b: Vec<u64>| {
                    a.extend(b);
                    Ok(a)
                })
                .await;
            match r {
                Ok(v) if &v == vals => {}
                Ok(v) => verdict = Some(("wrong_result".to_string(), format!("parallel_reduce(concat) = {:?} but the sequential fold gives {:?}", v, vals))),
                Err(e) => verdict = Some(("spurious_error".to_string(), format!("parallel_reduce returned Err({})", e))),
            }
        }
        4 => {
            // spawn() one by one, handles awaited in a seeded order: every handle delivers its own future's result
            let handles: Vec<_> = (0..n).map(|i| pool.spawn(fiber_item(vals[i], delays[i], fails[i]))).collect();
            let mut ids: Vec<u64> = handles.iter().map(|h| h.id()).collect();
            ids.sort();
            ids.dedup();
            if ids.len() != n {
                verdict = Some(("handle_ids_not_distinct".to_string(), format!("{} distinct fiber ids for {} spawned fibers", ids.len(), n)));
            }
            let mut order: Vec<usize> = (0..n).collect();
            order.sort_by_key(|&i| (r.keys[i] % 8, i));
            let mut slots: Vec<Option<_>> = handles.into_iter().map(Some).collect();
            for i in order {
                let h = slots[i].take().unwrap();
                let r = h.await;
                match (r, fails[i]) {
                    (Ok(v), false) if v == f(vals[i]) => {}
                    (Err(_), true) => {}
                    (Ok(v), false) => verdict = verdict.or(Some(("wrong_result".to_string(), format!("item{} -> {} expected {}", i, v, f(vals[i]))))),
                    (Ok(v), true) => verdict = verdict.or(Some(("failure_swallowed".to_string(), format!("item{} failed but its handle returned Ok({})", i, v)))),
                    (Err(e), false) => verdict = verdict.or(Some(("spurious_error".to_string(), format!("item{} succeeded but its handle returned Err({})", i, e)))),
                }
            }
        }
        5 => {
            // the reducer itself fails on the marked items: that must surface as Err, never as a shorter fold
            let bad: Vec<u64> = (0..n).filter(|&i| fails[i]).map(|i| vals[i]).collect();
            let bad2 = bad.clone();
            let lists: Vec<Vec<u64>> = vals.iter().map(|&v| vec![v]).collect();
            let r = pool
                .parallel_reduce(lists, Vec::<u64>::new(), move |mut a: Vec<u64>, b: Vec<u64>| {
                    if b.len() == 1 && bad2.contains(&b[0]) {
                        return Err(ZiporaError::invalid_data("injected reducer failure"));
                    }
                    a.extend(b);
                    Ok(a)
                })
                .await;
            match r {
                Ok(v) if bad.is_empty() && &v == vals => {}
                Ok(v) if bad.is_empty() => verdict = Some(("wrong_result".to_string(), format!("parallel_reduce(concat) = {:?} but the sequential fold gives {:?}", v, vals))),
                Ok(v) => verdict = Some(("failure_swallowed".to_string(), format!("the reducer failed on an item but parallel_reduce returned Ok({:?})", v))),
                Err(_) if !bad.is_empty() => {}
                Err(e) => verdict = Some(("spurious_error".to_string(), format!("the reducer never failed but parallel_reduce returned Err({})", e))),
            }
        }
        _ => {
            // some handles are aborted before they are awaited: an aborted handle reports an error (or the
            // right value if its fiber had already finished); the other handles are not disturbed
            let futs: Vec<_> = (0..n).map(|i| fiber_item(vals[i], delays[i], fails[i])).collect();
            let handles = pool.spawn_batch(futs);
            for _ in 0..(r.keys.first().copied().unwrap_or(0) % 3) {
                tokio::task::yield_now().await;
            }
            let cut: Vec<bool> = (0..n).map(|i| r.keys[i] % 3 == 0).collect();
            for (i, h) in handles.iter().enumerate() {
                if cut[i] {
                    h.abort();
                    *aborted = true;
                }
            }
            for (i, h) in handles.into_iter().enumerate() {
                let r = h.await;
                match (r, fails[i], cut[i]) {
                    (Ok(v), false, _) if v == f(vals[i]) => {}
                    (Err(_), true, _) => {}
                    (Err(_), false, true) => {}
                    (Ok(v), false, _) => verdict = verdict.or(Some(("wrong_result".to_string(), format!("item{} -> {} expected {}", i, v, f(vals[i]))))),
                    (Ok(v), true, _) => verdict = verdict.or(Some(("failure_swallowed".to_string(), format!("item{} failed but its handle returned Ok({})", i, v)))),
                    (Err(e), false, false) => verdict = verdict.or(Some(("spurious_error".to_string(), format!("item{} succeeded and was not aborted but its handle returned Err({})", i, e)))),
                }
            }
        }
    }
    verdict
}

impl Scenario for Fibers {
    fn name(&self) -> String {
        "FiberPool/spawn-map-reduce".into()
    }
    fn budget(&self, tier: Tier) -> u64 {
        match tier {
            Tier::Quick => 20000,
            Tier::Thorough => 1_000_000,
        }
    }
    fn run(&self, cx: &mut Run) {
        zsim_core::hooks::reset();
        let cfg = cx.src.chan("cfg");
        let max_fibers = 1 + cfg.below(4) as usize;
        let max_workers = 1 + cfg.below(4) as usize;
        let mode0 = cfg.below(FIBER_MODES.len() as u64);
        let planned0 = cfg.below(10);
        // audit knobs: several operations on the same pool (continued use after an error), the builder
        let n_rounds = 1 + cfg.biased_zero(3, 1, 3) as usize;
        let use_builder = cfg.chance(1, 2);
        // the queue capacity is a per-run knob: smaller than, equal to and larger than the operations' item counts
        let queue_capacity = *cfg.pick(&[16usize, 1, 2, 3, 4, 1000]);
        let mut rounds: Vec<FiberRound> = vec![];
        for r in 0..n_rounds {
            let (mode, planned) = if r == 0 { (mode0, planned0) } else { (cfg.below(FIBER_MODES.len() as u64), cfg.below(10)) };
            let mut ops = cx.src.ops(&if r == 0 { "ops".to_string() } else { format!("ops.r{}", r) }, planned);
            let mut items: Vec<[u64; 4]> = vec![];
            while let Some(o) = ops.next() {
                if items.len() < 16 {
                    items.push(o);
                }
            }
            // values are unique within the run and NOT monotone in the index (a result ordered by value is
            // not the input order)
            rounds.push(FiberRound {
                mode,
                vals: items.iter().enumerate().map(|(i, o)| (r as u64) * 100_000 + (o[0] % 997) * 16 + i as u64).collect(),
                fails: items.iter().map(|o| o[1] % 6 == 0).collect(),
                delays: items.iter().map(|o| [0u64, 0, 1, 5, 30][(o[2] % 5) as usize]).collect(),
                keys: items.iter().map(|o| o[3]).collect(),
            });
        }
        install_yields(cx.src.chan("sched"));
        cx.ev(format!("fiber pool max_fibers={} max_workers={} queue_capacity={} builder={} operations={}", max_fibers, max_workers, queue_capacity, use_builder, n_rounds));
        for (r, rd) in rounds.iter().enumerate() {
            cx.ev(format!("operation{} mode={} items={}", r, FIBER_MODES[rd.mode as usize], rd.vals.len()));
            for i in 0..rd.vals.len() {
                cx.ev(format!("  item{} value={} delay={}ms fails={} key={}", i, rd.vals[i], rd.delays[i], rd.fails[i], rd.keys[i] % 24));
            }
        }
        let rt = runtime();
        let mut site = String::new();
        let mut any_fail = false;
        let verdict: Option<(String, String)> = rt.block_on(async {
            let pool = if use_builder {
                zipora::concurrency::fiber_pool::FiberPoolBuilder::new().max_fibers(max_fibers).initial_workers(1).max_workers(max_workers).queue_capacity(queue_capacity).idle_timeout(Duration::from_secs(1)).build().expect("pool")
            } else {
                FiberPool::new(FiberPoolConfig { max_fibers, initial_workers: 1, max_workers, queue_capacity, idle_timeout: Duration::from_secs(1) }).expect("pool")
            };
            let mut verdict = None;
            let mut aborted = false;
            for rd in rounds.iter() {
                site = format!("FiberPool.{}", match rd.mode { 5 => "parallel_reduce", m => FIBER_MODES[m as usize] });
                any_fail |= rd.fails.iter().any(|&b| b);
                // no legal execution needs more than the sum of the item delays; 120 virtual seconds is the watchdog
                verdict = match tokio::time::timeout(Duration::from_secs(120), fiber_round(&pool, rd, &mut aborted)).await {
                    Ok(v) => v,
                    Err(_) => Some(("operation_never_completed".to_string(), format!("{} on {} items did not return within 120 virtual seconds", FIBER_MODES[rd.mode as usize], rd.vals.len()))),
                };
                if verdict.is_some() {
                    return verdict;
                }
            }
            // quiescence: let detached fibers finish, then the counters must add up
            tokio::time::sleep(Duration::from_millis(100)).await;
            let s = pool.stats();
            if !aborted && s.completed + s.failed != s.total_spawned {
                verdict = Some(("counters_do_not_add_up".to_string(), format!("completed {} + failed {} != total_spawned {}", s.completed, s.failed, s.total_spawned)));
            }
            if verdict.is_none() && !aborted && s.active_fibers != 0 {
                verdict = Some(("counters_do_not_add_up".to_string(), format!("active_fibers={} at quiescence", s.active_fibers)));
            }
            if verdict.is_none() {
                // every fiber has finished or was aborted: shutdown() ("wait for all active fibers") must return
                site = "FiberPool.shutdown".to_string();
                match tokio::time::timeout(Duration::from_secs(120), pool.shutdown()).await {
                    Ok(Ok(())) => {}
                    Ok(Err(e)) => verdict = Some(("spurious_error".to_string(), format!("shutdown() of a quiescent pool returned Err({})", e))),
                    Err(_) => verdict = Some(("operation_never_completed".to_string(), "shutdown() of a quiescent pool did not return within 120 virtual seconds (a permit was never given back)".to_string())),
                }
            }
            verdict
        });
        drop(rt);
        zsim_core::hooks::reset();
        let n: usize = rounds.iter().map(|r| r.vals.len()).sum();
        cx.steps = n as u64;
        cx.nontrivial = n >= 2;
        if n_rounds > 1 {
            cx.probe("several_operations_on_one_pool");
        }
        cx.cell(format!("{}/f{}/{}", FIBER_MODES[rounds[0].mode as usize], max_fibers, if rounds[0].fails.iter().any(|&b| b) { "fail" } else { "ok" }));
        if any_fail {
            cx.fault("item_failure");
        }
        if let Some((class, detail)) = verdict {
            cx.violate(&class, &site, detail);
        }
    }
}

// ------------------------------------------------------------------------------------------
// pipeline

#[derive(Clone)]
struct SimStage {
    name: String,
    add: u64,
    /// per input value: (delay ms, fails, hangs)
    plan: Arc<BTreeMap<u64, (u64, bool, bool)>>,
    batching: bool,
    seen: Arc<Mutex<Vec<u64>>>,
}

impl SimStage {
    fn apply(&self, x: u64) -> u64 {
        x.wrapping_add(self.add)
    }
}

impl PipelineStage<u64, u64> for SimStage {
    fn process(&self, input: u64) -> Pin<Box<dyn Future<Output = ZResult<u64>> + Send + '_>> {
        Box::pin(async move {
            self.seen.lock().unwrap().push(input);
            let (d, fail, hang) = self.plan.get(&input).cloned().unwrap_or((0, false, false));
            if hang {
                std::future::pending::<()>().await;
            }
            if d > 0 {
                tokio::time::sleep(Duration::from_millis(d)).await;
            }
            if fail {
                Err(ZiporaError::invalid_data("injected stage failure"))
            } else {
                Ok(self.apply(input))
            }
        })
    }
    fn name(&self) -> &str {
        &self.name
    }
    fn supports_batching(&self) -> bool {
        self.batching
    }
}

struct Pipe;

impl Scenario for Pipe {
    fn name(&self) -> String {
        "Pipeline/stages".into()
    }
    fn budget(&self, tier: Tier) -> u64 {
        match tier {
            Tier::Quick => 20000,
            Tier::Thorough => 1_000_000,
        }
    }
    fn run(&self, cx: &mut Run) {
        zsim_core::hooks::reset();
        let cfg = cx.src.chan("cfg");
        let mode = cfg.below(4);
        let mode_name = ["execute_single", "execute_two_stage", "process_batch", "execute_stream"][mode as usize];
        let buffer = 1 + cfg.below(4) as usize;
        let batching = cfg.chance(1, 2);
        let stage_batching = cfg.chance(1, 2);
        let nstages = if mode == 3 { 1 + cfg.below(3) as usize } else if mode == 1 { 2 } else { 1 };
        let timeout_ms = *cfg.pick(&[50u64, 1000, 30_000]);
        let planned = if mode <= 1 { 1 } else { cfg.below(8) };
        let mut ops = cx.src.ops("ops", planned);
        let mut items: Vec<[u64; 4]> = vec![];
        while let Some(o) = ops.next() {
            items.push(o);
        }
        let n = items.len();
        // unique, and (audit) not sorted: a result ordered by value is not the input order
        let inputs: Vec<u64> = (0..n).map(|i| (items[i][1] % 7) * 1000 + (i as u64 + 1) * 100).collect();
        let use_builder = cfg.chance(1, 2);
        // each stage s adds 10^s*... keep values distinct: stage s adds (s+1)
        let mut stages: Vec<SimStage> = vec![];
        let mut first_bad: Option<usize> = None; // index of the first input that fails or hangs somewhere
        let fchan = cx.src.chan("fault");
        for s in 0..nstages {
            let mut plan = BTreeMap::new();
            for (i, o) in items.iter().enumerate() {
                let v_in = inputs[i] + (0..s).map(|k| k as u64 + 1).sum::<u64>();
                let delay = [0u64, 0, 1, 4, 40][((o[0] >> (s * 3)) % 5) as usize];
                let fail = fchan.chance(1, 8);
                let hang = !fail && fchan.chance(1, 16);
                if fail {
                    cx.fault("stage_failure");
                }
                if hang {
                    cx.fault("stage_never_completes");
                }
                if delay > timeout_ms {
                    cx.fault("stage_slower_than_timeout");
                }
                if fail || hang || delay > timeout_ms {
                    first_bad = Some(first_bad.map_or(i, |b| b.min(i)));
                }
                plan.insert(v_in, (delay, fail, hang));
                cx.ev(format!("stage{} input{} ({}) delay={}ms fail={} hang={}", s, i, v_in, delay, fail, hang));
            }
            stages.push(SimStage { name: format!("s{}", s), add: s as u64 + 1, plan: Arc::new(plan), batching: stage_batching, seen: Arc::new(Mutex::new(vec![])) });
        }
        // with batching the stage timeout covers the whole batch: a batch whose items together take
        // longer than stage_timeout may legitimately be reported as timed out
        let mut batch_may_time_out = false;
        if mode == 2 && batching && stage_batching {
            let total: u64 = stages[0].plan.values().map(|p| p.0).sum();
            if total >= timeout_ms && first_bad.is_none() {
                batch_may_time_out = true;
                cx.fault("batch_slower_than_timeout");
            }
        }
        let expect: Vec<u64> = inputs.iter().map(|&x| stages.iter().fold(x, |a, st| st.apply(a))).collect();
        cx.ev(format!("pipeline mode={} stages={} buffer={} batching={}/{} stage_timeout={}ms items={} builder={}", mode_name, nstages, buffer, batching, stage_batching, timeout_ms, n, use_builder));
        let site = format!("Pipeline.{}", mode_name);
        let rt = runtime();
        let t_start = std::time::Instant::now();
        let (verdict, elapsed): (Option<(String, String)>, u64) = rt.block_on(async {
            let t0 = tokio::time::Instant::now();
            let pipeline = if use_builder {
                PipelineBuilder::new().buffer_size(buffer).max_in_flight(16).stage_timeout(Duration::from_millis(timeout_ms)).enable_batching(batching).batch_size(2).batch_timeout(Duration::from_millis(10)).build()
            } else {
                Pipeline::new(PipelineConfig { buffer_size: buffer, max_in_flight: 16, stage_timeout: Duration::from_millis(timeout_ms), enable_batching: batching, batch_size: 2, batch_timeout: Duration::from_millis(10) })
            };
            let mut verdict = None;
            match mode {
                0 | 1 => {
                    if n == 1 {
                        let r = if mode == 0 { pipeline.execute_single(stages[0].clone(), inputs[0]).await } else { pipeline.execute_two_stage(stages[0].clone(), stages[1].clone(), inputs[0]).await };
                        match (r, first_bad) {
                            (Ok(v), None) if v == expect[0] => {}
                            (Ok(v), None) => verdict = Some(("wrong_result".to_string(), format!("got {} expected {}", v, expect[0]))),
                            (Ok(v), Some(_)) => verdict = Some(("failure_swallowed".to_string(), format!("a stage failed or timed out but the call returned Ok({})", v))),
                            (Err(_), Some(_)) => {}
                            (Err(e), None) => verdict = Some(("spurious_error".to_string(), format!("no stage failed but the call returned Err({})", e))),
                        }
                    }
                }
                2 => {
                    let r = pipeline.process_batch(stages[0].clone(), inputs.clone()).await;
                    match (r, first_bad) {
                        (Ok(v), None) if v == expect => {}
                        (Ok(v), None) => verdict = Some(("wrong_result".to_string(), format!("process_batch returned {:?}, sequential map gives {:?}", v, expect))),
                        (Ok(v), Some(b)) => verdict = Some(("failure_swallowed".to_string(), format!("input{} failed or timed out but process_batch returned Ok with {} results for {} inputs", b, v.len(), n))),
                        (Err(_), Some(_)) => {}
                        (Err(_), None) if batch_may_time_out => {}
                        (Err(e), None) => verdict = Some(("spurious_error".to_string(), format!("no item failed but process_batch returned Err({})", e))),
                    }
                }
                _ => {
                    let (in_tx, in_rx) = mpsc::channel::<u64>(buffer);
                    let (out_tx, mut out_rx) = mpsc::channel::<u64>(buffer);
                    let boxed: Vec<Box<dyn PipelineStage<u64, u64>>> = stages.iter().map(|s| Box::new(s.clone()) as Box<dyn PipelineStage<u64, u64>>).collect();
                    let inputs2 = inputs.clone();
                    let producer = tokio::spawn(async move {
                        for x in inputs2 {
                            if in_tx.send(x).await.is_err() {
                                break;
                            }
                        }
                    });
                    let consumer = tokio::spawn(async move {
                        let mut got = vec![];
                        while let Some(v) = out_rx.recv().await {
                            got.push(v);
                        }
                        got
                    });
                    let r = pipeline.execute_stream(boxed, in_rx, out_tx).await;
                    let _ = producer.await;
                    let got = consumer.await.unwrap_or_default();
                    let is_prefix = got.len() <= expect.len() && got[..] == expect[..got.len()];
                    if !is_prefix {
                        verdict = Some(("wrong_or_shifted_output".to_string(), format!("stream produced {:?}; sequential application gives {:?}", got, expect)));
                    } else {
                        match (&r, first_bad) {
                            (Ok(()), None) if got.len() == n => {}
                            (Ok(()), None) => verdict = Some(("missing_output".to_string(), format!("no stage failed, execute_stream returned Ok, but only {} of {} outputs arrived", got.len(), n))),
                            (Ok(()), Some(b)) if got.len() < n => verdict = Some(("failure_swallowed".to_string(), format!("input{} failed or timed out in a stage: {} of {} outputs arrived and execute_stream returned Ok(())", b, got.len(), n))),
                            (Ok(()), Some(_)) => verdict = Some(("failure_swallowed".to_string(), "a stage failed but all outputs arrived and Ok(()) was returned".to_string())),
                            (Err(_), Some(_)) => {}
                            (Err(e), None) => verdict = Some(("spurious_error".to_string(), format!("no stage failed but execute_stream returned Err({})", e))),
                        }
                    }
                }
            }
            (verdict, now_ms(t0))
        });
        drop(rt);
        let _ = t_start;
        cx.sim_ms = elapsed;
        cx.steps = n as u64;
        cx.nontrivial = n >= 1;
        cx.cell(format!("{}/s{}/{}", mode_name, nstages, if first_bad.is_some() { "fault" } else { "clean" }));
        if let Some((class, detail)) = verdict {
            cx.violate(&class, &site, detail);
        }
    }
}

// ------------------------------------------------------------------------------------------
// batch collector under clock skew

struct Batches;

impl Scenario for Batches {
    fn name(&self) -> String {
        "BatchCollector/clock-skew".into()
    }
    fn budget(&self, tier: Tier) -> u64 {
        match tier {
            Tier::Quick => 12000,
            Tier::Thorough => 600_000,
        }
    }
    fn run(&self, cx: &mut Run) {
        zsim_core::hooks::reset();
        let cfg = cx.src.chan("cfg");
        let max_batch = 1 + cfg.below(5) as usize;
        let timeout_ms = *cfg.pick(&[4u64, 20, 100]);
        let planned = cfg.below(12);
        let mut ops = cx.src.ops("ops", planned);
        let mut items: Vec<[u64; 4]> = vec![];
        while let Some(o) = ops.next() {
            items.push(o);
        }
        let n = items.len();
        // clock jumps: at seeded reads of the shimmed clock the skew grows
        let fchan = cx.src.chan("fault");
        let jumps = Arc::new(Mutex::new(0u64));
        let j2 = jumps.clone();
        zsim_core::hooks::set_skew_fn(Some(Box::new(move || {
            if fchan.chance(1, 10) {
                *j2.lock().unwrap() += 1;
                [1_000_000u64, 50_000_000, 5_000_000_000][fchan.below(3) as usize]
            } else {
                0
            }
        })));
        cx.ev(format!("collector max_batch_size={} batch_timeout={}ms items={}", max_batch, timeout_ms, n));
        let rt = runtime();
        let out: Arc<Mutex<Vec<(String, Vec<u64>)>>> = Arc::new(Mutex::new(vec![]));
        let out2 = out.clone();
        rt.block_on(async {
            let t0 = tokio::time::Instant::now();
            let collector: BatchCollector<u64> = BatchCollector::new(max_batch, Duration::from_millis(timeout_ms));
            let out3 = out2.clone();
            let checker = collector.start_timeout_checker(move |batch: Vec<u64>| {
                let out4 = out3.clone();
                Box::pin(async move {
                    out4.lock().unwrap().push((format!("t={}ms timeout", now_ms(t0)), batch));
                }) as Pin<Box<dyn Future<Output = ()> + Send>>
            });
            for (i, o) in items.iter().enumerate() {
                let gap = [0u64, 0, 1, 3, 30, 150][(o[0] % 6) as usize];
                if gap > 0 {
                    tokio::time::sleep(Duration::from_millis(gap)).await;
                } else if o[1] % 2 == 0 {
                    tokio::task::yield_now().await;
                }
                if let Ok(Some(b)) = collector.add(i as u64).await {
                    out2.lock().unwrap().push((format!("t={}ms add({}) full", now_ms(t0), i), b));
                }
            }
            tokio::time::sleep(Duration::from_millis(*[0u64, 1, 500].get((n % 3) as usize).unwrap())).await;
            if let Ok(Some(b)) = collector.flush().await {
                out2.lock().unwrap().push((format!("t={}ms flush", now_ms(t0)), b));
            }
            checker.abort();
            let _ = checker.await;
        });
        drop(rt);
        zsim_core::hooks::reset();
        let jumps = *jumps.lock().unwrap();
        for _ in 0..jumps {
            cx.fault("clock_jump");
        }
        let out = out.lock().unwrap();
        let mut all: Vec<u64> = vec![];
        for (how, b) in out.iter() {
            cx.ev(format!("batch via {}: {:?}", how, b));
            if b.len() > max_batch {
                cx.violate("batch_too_large", "BatchCollector.batch_size", format!("batch of {} items with max_batch_size {}", b.len(), max_batch));
                return;
            }
            if how.contains("timeout") {
                cx.probe("batch_flushed_by_timeout");
            }
            all.extend(b.iter().cloned());
        }
        cx.steps = n as u64;
        cx.nontrivial = n >= 2;
        let expect: Vec<u64> = (0..n as u64).collect();
        let mut sorted = all.clone();
        sorted.sort();
        if sorted != expect {
            let missing: Vec<u64> = expect.iter().filter(|x| !all.contains(x)).cloned().collect();
            let class = if missing.is_empty() { "item_in_two_batches" } else { "item_lost" };
            cx.violate(class, "BatchCollector.exactly_once", format!("items handed in: {:?}; items that came out: {:?}", expect, all));
            return;
        }
        if all != expect {
            cx.violate("items_reordered", "BatchCollector.order", format!("items came out as {:?}", all));
        }
    }
}

// ------------------------------------------------------------------------------------------
// several client threads inside submit() at once (E1 over the executor's queue locks/atomics)

struct ConcurrentSubmit;

impl Scenario for ConcurrentSubmit {
    fn name(&self) -> String {
        "WorkStealingExecutor/concurrent-submit".into()
    }
    fn budget(&self, tier: Tier) -> u64 {
        match tier {
            Tier::Quick => 6000,
            Tier::Thorough => 400_000,
        }
    }
    fn run(&self, cx: &mut Run) {
        use zsim_core::e1;
        zsim_core::hooks::reset();
        let cfg = cx.src.chan("cfg");
        let workers = 1 + cfg.below(3) as usize;
        let capacity = 1 + cfg.below(4) as usize;
        let nthreads = 2 + cfg.biased_zero(2, 1, 3) as usize;
        let e1cfg = e1::draw_cfg(&cfg, 12000);
        cx.ev(format!("executor workers={} capacity={} submitting threads={}", workers, capacity, nthreads));
        let rt = runtime();
        // workers are spawned but do not run until the runtime is driven below: the submit phase
        // only fills the queues, under the baton scheduler
        let ex = {
            let _g = rt.enter();
            WorkStealingExecutor::new(workers, capacity).expect("executor")
        };
        let log: Arc<Mutex<Vec<u64>>> = Arc::new(Mutex::new(vec![]));
        let accepted: Arc<Mutex<Vec<u64>>> = Arc::new(Mutex::new(vec![]));
        let events: Arc<Mutex<Vec<String>>> = Arc::new(Mutex::new(vec![]));
        let mut bodies: Vec<e1::Body> = vec![];
        for t in 0..nthreads {
            let planned = 1 + cfg.below(4);
            let mut ops = cx.src.ops(&format!("ops.t{}", t), planned);
            let mut list = vec![];
            while let Some(o) = ops.next() {
                list.push(o);
            }
            let ex = ex.clone();
            let (log, accepted, events) = (log.clone(), accepted.clone(), events.clone());
            bodies.push(Box::new(move |me: usize| {
                for (i, o) in list.iter().enumerate() {
                    let id = (me as u64) * 100 + i as u64;
                    let prio = (o[0] % 3) as u8;
                    let log2 = log.clone();
                    let task = ClosureTask::new(move || {
                        Box::pin(async move {
                            log2.lock().unwrap().push(id);
                            Ok(())
                        }) as Pin<Box<dyn Future<Output = ZResult<()>> + Send>>
                    })
                    .with_priority(prio)
                    .with_stealable(o[1] % 3 != 0);
                    let ok = ex.submit(Box::new(task)).is_ok();
                    if ok {
                        accepted.lock().unwrap().push(id);
                    }
                    events.lock().unwrap().push(format!("t{} submit task{} prio={} -> {}", me, id, prio, if ok { "accepted" } else { "refused" }));
                }
            }));
        }
        let sched = cx.src.chan("sched");
        let res = e1::run_threads(&sched, &e1cfg, bodies, None);
        for e in events.lock().unwrap().iter() {
            cx.ev(e);
        }
        cx.trace.feed(res.hash);
        cx.steps = res.steps;
        cx.probe_n("context_switches", res.switches);
        cx.nontrivial = res.switches >= 1;
        cx.abandoned = res.abandoned;
        if let Some(v) = res.violation {
            cx.violate(&v.class, &v.site, v.detail);
            return;
        }
        if res.abandoned {
            // the step cap ended the submit phase by unwinding the threads where they stood (a
            // queue lock may have been held and is poisoned now): nothing to judge in this run
            cx.probe("abandoned_at_step_cap");
            cx.ev("submit phase abandoned at the step cap");
            return;
        }
        let accepted = accepted.lock().unwrap().clone();
        let queued_before = ex.total_queued();
        let (idle, executed) = rt.block_on(async {
            let deadline = tokio::time::Instant::now() + Duration::from_millis(2000);
            loop {
                if (log.lock().unwrap().len() >= accepted.len() && ex.is_idle()) || tokio::time::Instant::now() >= deadline {
                    break;
                }
                tokio::time::sleep(Duration::from_millis(5)).await;
            }
            let r = (ex.is_idle(), ex.stats().total_executed);
            let _ = ex.shutdown().await;
            r
        });
        drop(rt);
        let log = log.lock().unwrap();
        let mut seen: BTreeMap<u64, u64> = BTreeMap::new();
        for id in log.iter() {
            *seen.entry(*id).or_insert(0) += 1;
        }
        cx.ev(format!("after the submit phase {} tasks were queued for {} accepted; {} ran", queued_before, accepted.len(), log.len()));
        if let Some((id, n)) = seen.iter().find(|(_, n)| **n > 1) {
            cx.violate("task_ran_twice", "WorkStealingExecutor.exactly_once", format!("task{} ran {} times", id, n));
            return;
        }
        let missing: Vec<u64> = accepted.iter().filter(|id| !seen.contains_key(id)).cloned().collect();
        if !missing.is_empty() {
            cx.violate("task_never_ran", "WorkStealingExecutor.concurrent_submit", format!("{} of {} accepted tasks never ran (first: task{}); {} were in the queues when the submitting threads finished", missing.len(), accepted.len(), missing[0], queued_before));
            return;
        }
        if !idle || executed != accepted.len() as u64 {
            cx.violate("not_idle_at_quiescence", "WorkStealingExecutor.is_idle", format!("is_idle()={} total_executed={} accepted={}", idle, executed, accepted.len()));
        }
    }
}

// ------------------------------------------------------------------------------------------
// audit: the queue API driven directly (push_local / pop_local / steal / balance / len), sequentially
// against a set model, and by 2-3 threads under the E1 scheduler

/// A hand-written `Task` (not `ClosureTask`): running it appends its id to `out`.
struct IdTask {
    id: u64,
    prio: u8,
    stealable: bool,
    out: Arc<Mutex<Vec<u64>>>,
}

impl Task for IdTask {
    fn execute(self: Box<Self>) -> Pin<Box<dyn Future<Output = ZResult<()>> + Send>> {
        Box::pin(async move {
            self.out.lock().unwrap().push(self.id);
            Ok(())
        })
    }
    fn priority(&self) -> u8 {
        self.prio
    }
    fn is_stealable(&self) -> bool {
        self.stealable
    }
}

/// Relies on the trait's defaults (priority 0, stealable).
struct PlainTask {
    id: u64,
    out: Arc<Mutex<Vec<u64>>>,
}

impl Task for PlainTask {
    fn execute(self: Box<Self>) -> Pin<Box<dyn Future<Output = ZResult<()>> + Send>> {
        Box::pin(async move {
            self.out.lock().unwrap().push(self.id);
            Ok(())
        })
    }
}

fn make_task(id: u64, o: &[u64; 4], out: &Arc<Mutex<Vec<u64>>>) -> (Box<dyn Task>, u8, bool) {
    if o[1] % 5 == 4 {
        (Box::new(PlainTask { id, out: out.clone() }), 0, true)
    } else {
        let (prio, stealable) = ((o[1] % 4) as u8, (o[1] / 5) % 3 != 0);
        (Box::new(IdTask { id, prio, stealable, out: out.clone() }), prio, stealable)
    }
}

/// Run a task that came out of a queue, on the spot (its future never waits).
fn run_now(t: Box<dyn Task>) {
    let mut fut = t.execute();
    let waker = std::task::Waker::noop();
    let mut c = std::task::Context::from_waker(waker);
    let _ = fut.as_mut().poll(&mut c);
}

struct QueueModel;

impl Scenario for QueueModel {
    fn name(&self) -> String {
        "WorkStealingQueue/model".into()
    }
    fn budget(&self, tier: Tier) -> u64 {
        match tier {
            Tier::Quick => 20000,
            Tier::Thorough => 1_500_000,
        }
    }
    fn run(&self, cx: &mut Run) {
        zsim_core::hooks::reset();
        let cfg = cx.src.chan("cfg");
        let capacity = 1 + cfg.below(6) as usize;
        // swarm: some runs have no steals / no balance / mostly pushes
        let w_push = *cfg.pick(&[3u32, 5, 8]);
        let w_pop = *cfg.pick(&[0u32, 2, 3]);
        let w_steal = *cfg.pick(&[0u32, 2, 3]);
        let w_balance = *cfg.pick(&[0u32, 1, 3]);
        let planned = 1 + cfg.below(24);
        let q = WorkStealingQueue::new(cfg.below(3) as usize, capacity);
        cx.ev(format!("queue capacity={} worker_id={}", capacity, q.worker_id()));
        let out: Arc<Mutex<Vec<u64>>> = Arc::new(Mutex::new(vec![]));
        let mut inside: std::collections::BTreeSet<u64> = Default::default();
        let mut gone: std::collections::BTreeSet<u64> = Default::default();
        let mut refused: std::collections::BTreeSet<u64> = Default::default();
        let mut next_id = 0u64;
        let mut ops = cx.src.ops("ops", planned);
        let weights = [w_push, w_pop, w_steal, w_balance];
        let total: u64 = weights.iter().map(|&w| w as u64).sum();
        let mut took = |cx: &mut Run, how: &str, t: Option<Box<dyn Task>>, inside: &mut std::collections::BTreeSet<u64>, gone: &mut std::collections::BTreeSet<u64>| -> bool {
            match t {
                None => {
                    cx.ev(format!("{} -> None", how));
                    true
                }
                Some(t) => {
                    let before = out.lock().unwrap().len();
                    run_now(t);
                    let o = out.lock().unwrap();
                    if o.len() != before + 1 {
                        drop(o);
                        cx.violate("task_did_not_run", "WorkStealingQueue.exactly_once", format!("{} returned a task whose execute() did not run its body", how));
                        return false;
                    }
                    let id = o[before];
                    drop(o);
                    cx.ev(format!("{} -> task{}", how, id));
                    if !inside.remove(&id) {
                        let class = if gone.contains(&id) { "task_came_out_twice" } else { "refused_task_came_out" };
                        cx.violate(class, "WorkStealingQueue.exactly_once", format!("{} returned task{}, which is not in the queue (already out: {:?}; refused: {})", how, id, gone, !gone.contains(&id)));
                        return false;
                    }
                    gone.insert(id);
                    true
                }
            }
        };
        let mut steps = 0u64;
        while let Some(o) = ops.next() {
            steps += 1;
            let mut x = o[0] % total.max(1);
            let mut kind = 0;
            for (k, &w) in weights.iter().enumerate() {
                if x < w as u64 {
                    kind = k;
                    break;
                }
                x -= w as u64;
            }
            match kind {
                0 => {
                    let id = next_id;
                    next_id += 1;
                    let (t, prio, stealable) = make_task(id, &o, &out);
                    let r = q.push_local(t);
                    cx.ev(format!("push_local(task{} prio={} stealable={}) -> {}", id, prio, stealable, if r.is_ok() { "ok" } else { "refused" }));
                    if r.is_ok() {
                        inside.insert(id);
                    } else {
                        refused.insert(id);
                        cx.probe("push_refused_queue_full");
                    }
                }
                1 => {
                    if !took(cx, "pop_local()", q.pop_local(), &mut inside, &mut gone) {
                        return;
                    }
                }
                2 => {
                    if !took(cx, "steal()", q.steal(), &mut inside, &mut gone) {
                        return;
                    }
                }
                _ => {
                    q.balance();
                    cx.ev("balance()");
                }
            }
            let (len, empty) = (q.len(), q.is_empty());
            if len != inside.len() || empty != inside.is_empty() {
                cx.violate("len_mismatch", "WorkStealingQueue.len", format!("len()={} is_empty()={} but {} tasks were pushed and have not come out: {:?}", len, empty, inside.len(), inside));
                return;
            }
        }
        // drain: whatever is still inside comes out through pop_local (local queue) or steal (steal queue)
        let mut rounds = 0;
        loop {
            let a = q.pop_local();
            let got_a = a.is_some();
            if got_a && !took(cx, "drain pop_local()", a, &mut inside, &mut gone) {
                return;
            }
            let b = q.steal();
            let got_b = b.is_some();
            if got_b && !took(cx, "drain steal()", b, &mut inside, &mut gone) {
                return;
            }
            rounds += 1;
            if (!got_a && !got_b) || rounds > 100 {
                break;
            }
        }
        cx.steps = steps;
        cx.nontrivial = gone.len() >= 2;
        if gone.len() >= capacity {
            cx.probe("as_many_tasks_as_capacity");
        }
        if !inside.is_empty() {
            cx.violate("task_lost", "WorkStealingQueue.exactly_once", format!("tasks {:?} were accepted by push_local and never came out of pop_local/steal (len()={})", inside, q.len()));
        }
    }
}

struct QueueThreads;

impl Scenario for QueueThreads {
    fn name(&self) -> String {
        "WorkStealingQueue/concurrent-ops".into()
    }
    fn budget(&self, tier: Tier) -> u64 {
        match tier {
            Tier::Quick => 5000,
            Tier::Thorough => 400_000,
        }
    }
    fn run(&self, cx: &mut Run) {
        use zsim_core::e1;
        zsim_core::hooks::reset();
        let cfg = cx.src.chan("cfg");
        let capacity = 2 + cfg.below(4) as usize;
        let nthreads = 2 + cfg.biased_zero(2, 1, 3) as usize;
        let prefill = cfg.below(capacity as u64 + 1);
        let e1cfg = e1::draw_cfg(&cfg, 12000);
        let q = Arc::new(WorkStealingQueue::new(0, capacity));
        let out: Arc<Mutex<Vec<u64>>> = Arc::new(Mutex::new(vec![]));
        let accepted: Arc<Mutex<Vec<u64>>> = Arc::new(Mutex::new(vec![]));
        let events: Arc<Mutex<Vec<String>>> = Arc::new(Mutex::new(vec![]));
        cx.ev(format!("queue capacity={} threads={} (thread 0 = owner: push/pop/balance; others: steal/push/len) prefilled={}", capacity, nthreads, prefill));
        let pre = cx.src.chan("prefill");
        for i in 0..prefill {
            let id = 900 + i;
            let o = [0, pre.below(20), 0, 0];
            let (t, prio, stealable) = make_task(id, &o, &out);
            if q.push_local(t).is_ok() {
                accepted.lock().unwrap().push(id);
                cx.ev(format!("prefill task{} prio={} stealable={}", id, prio, stealable));
            }
        }
        let mut bodies: Vec<e1::Body> = vec![];
        for t in 0..nthreads {
            let planned = 1 + cfg.below(5);
            let mut ops = cx.src.ops(&format!("ops.t{}", t), planned);
            let mut list = vec![];
            while let Some(o) = ops.next() {
                list.push(o);
            }
            let (q, out, accepted, events) = (q.clone(), out.clone(), accepted.clone(), events.clone());
            bodies.push(Box::new(move |me: usize| {
                for (i, o) in list.iter().enumerate() {
                    let id = (me as u64) * 100 + i as u64;
                    // owner: 0-3 push, 4-5 pop, 6-7 balance; thieves: 0-4 steal, 5-6 push, 7 len
                    let k = o[0] % 8;
                    let what = if me == 0 { [0, 0, 0, 0, 1, 1, 3, 3][k as usize] } else { [2, 2, 2, 2, 2, 0, 0, 4][k as usize] };
                    match what {
                        0 => {
                            let (task, prio, stealable) = make_task(id, o, &out);
                            let ok = q.push_local(task).is_ok();
                            if ok {
                                accepted.lock().unwrap().push(id);
                            }
                            events.lock().unwrap().push(format!("t{} push_local(task{} prio={} stealable={}) -> {}", me, id, prio, stealable, if ok { "ok" } else { "refused" }));
                        }
                        1 | 2 => {
                            let r = if what == 1 { q.pop_local() } else { q.steal() };
                            let got = r.is_some();
                            if let Some(task) = r {
                                run_now(task);
                            }
                            events.lock().unwrap().push(format!("t{} {} -> {}", me, if what == 1 { "pop_local()" } else { "steal()" }, if got { "a task" } else { "None" }));
                        }
                        3 => {
                            q.balance();
                            events.lock().unwrap().push(format!("t{} balance()", me));
                        }
                        _ => {
                            let n = q.len();
                            events.lock().unwrap().push(format!("t{} len() -> {}", me, n));
                        }
                    }
                }
            }));
        }
        let sched = cx.src.chan("sched");
        let res = e1::run_threads(&sched, &e1cfg, bodies, None);
        for e in events.lock().unwrap().iter() {
            cx.ev(e);
        }
        cx.trace.feed(res.hash);
        cx.steps = res.steps;
        cx.probe_n("context_switches", res.switches);
        cx.nontrivial = res.switches >= 1;
        cx.abandoned = res.abandoned;
        if let Some(v) = res.violation {
            cx.violate(&v.class, &v.site, v.detail);
            return;
        }
        if res.abandoned {
            cx.probe("abandoned_at_step_cap");
            cx.ev("abandoned at the step cap");
            return;
        }
        let ran_during = out.lock().unwrap().len();
        let left = q.len();
        let mut rounds = 0;
        loop {
            let a = q.pop_local();
            let b = q.steal();
            let none = a.is_none() && b.is_none();
            if let Some(t) = a {
                run_now(t);
            }
            if let Some(t) = b {
                run_now(t);
            }
            rounds += 1;
            if none || rounds > 100 {
                break;
            }
        }
        let accepted = accepted.lock().unwrap().clone();
        let out = out.lock().unwrap();
        cx.ev(format!("{} tasks came out while the threads ran; len()={} afterwards; {} came out in all; accepted {:?}; out {:?}", ran_during, left, out.len(), accepted, out));
        let mut seen: BTreeMap<u64, u64> = BTreeMap::new();
        for id in out.iter() {
            *seen.entry(*id).or_insert(0) += 1;
        }
        if let Some((id, n)) = seen.iter().find(|(_, n)| **n > 1) {
            cx.violate("task_came_out_twice", "WorkStealingQueue.concurrent_ops", format!("task{} came out {} times", id, n));
            return;
        }
        if let Some((id, _)) = seen.iter().find(|(id, _)| !accepted.contains(id)) {
            cx.violate("refused_task_came_out", "WorkStealingQueue.concurrent_ops", format!("push_local refused task{} but it came out of the queue", id));
            return;
        }
        let missing: Vec<u64> = accepted.iter().filter(|id| !seen.contains_key(id)).cloned().collect();
        if !missing.is_empty() {
            cx.violate("task_lost", "WorkStealingQueue.concurrent_ops", format!("tasks {:?} were accepted by push_local and never came out ({} came out while the threads ran, len() was {} afterwards)", missing, ran_during, left));
            return;
        }
        if left + ran_during != accepted.len() {
            cx.violate("len_mismatch", "WorkStealingQueue.len", format!("after the threads finished len()={} but {} tasks were accepted and {} had come out", left, accepted.len(), ran_during));
        }
    }
}

// ------------------------------------------------------------------------------------------
// audit: the module-level helpers of concurrency/mod.rs (spawn / join_all / parallel_map / parallel_reduce)

struct FreeFns;

const FREE_MODES: [&str; 4] = ["join_all", "parallel_map", "parallel_reduce", "parallel_reduce_failing"];

impl Scenario for FreeFns {
    fn name(&self) -> String {
        "concurrency/free-functions".into()
    }
    fn budget(&self, tier: Tier) -> u64 {
        match tier {
            Tier::Quick => 8000,
            Tier::Thorough => 500_000,
        }
    }
    fn run(&self, cx: &mut Run) {
        use zipora::concurrency as zc;
        zsim_core::hooks::reset();
        let cfg = cx.src.chan("cfg");
        let mode = cfg.below(FREE_MODES.len() as u64);
        // more items than any machine here has cores in some runs: parallel_reduce then has chunks of more than one item
        let planned = if cfg.chance(1, 4) { 17 + cfg.below(48) } else { cfg.below(10) };
        let may_fail = cfg.chance(1, 2);
        let mut ops = cx.src.ops("ops", planned);
        let mut items: Vec<[u64; 4]> = vec![];
        while let Some(o) = ops.next() {
            if items.len() < 64 {
                items.push(o);
            }
        }
        let n = items.len();
        let vals: Vec<u64> = items.iter().enumerate().map(|(i, o)| (o[0] % 997) * 64 + i as u64).collect();
        let fails: Vec<bool> = items.iter().map(|o| may_fail && o[1] % 6 == 0).collect();
        let delays: Vec<u64> = items.iter().map(|o| [0u64, 0, 1, 5, 30][(o[2] % 5) as usize]).collect();
        cx.ev(format!("free functions mode={} items={}", FREE_MODES[mode as usize], n));
        for i in 0..n.min(40) {
            cx.ev(format!("item{} value={} delay={}ms fails={}", i, vals[i], delays[i], fails[i]));
        }
        let bad: Vec<u64> = (0..n).filter(|&i| fails[i]).map(|i| vals[i]).collect();
        let expect: Vec<u64> = vals.iter().map(|&v| fiber_f(v)).collect();
        let site = format!("concurrency.{}", match mode { 3 => "parallel_reduce", m => FREE_MODES[m as usize] });
        let rt = runtime();
        let verdict: Option<(String, String)> = rt.block_on(async {
            let work = async {
                match mode {
                    0 => {
                        let handles: Vec<_> = (0..n).map(|i| zc::spawn(fiber_item(vals[i], delays[i], fails[i]))).collect();
                        match zc::join_all(handles).await {
                            Ok(v) if bad.is_empty() && v == expect => None,
                            Ok(v) if bad.is_empty() => Some(("wrong_result".to_string(), format!("join_all returned {:?}, the fibers in handle order give {:?}", v, expect))),
                            Ok(v) => Some(("failure_swallowed".to_string(), format!("a fiber failed but join_all returned Ok with {} results for {} handles", v.len(), n))),
                            Err(_) if !bad.is_empty() => None,
                            Err(e) => Some(("spurious_error".to_string(), format!("no fiber failed but join_all returned Err({})", e))),
                        }
                    }
                    1 => {
                        let bad2 = bad.clone();
                        let r = zc::parallel_map(vals.clone(), move |x: u64| if bad2.contains(&x) { Err(ZiporaError::invalid_data("injected item failure")) } else { Ok(fiber_f(x)) }).await;
                        match r {
                            Ok(v) if bad.is_empty() && v == expect => None,
                            Ok(v) if bad.is_empty() => Some(("wrong_result".to_string(), format!("parallel_map returned {:?}, sequential map gives {:?}", v, expect))),
                            Ok(v) => Some(("failure_swallowed".to_string(), format!("an item failed but parallel_map returned Ok with {} results for {} inputs", v.len(), n))),
                            Err(_) if !bad.is_empty() => None,
                            Err(e) => Some(("spurious_error".to_string(), format!("no item failed but parallel_map returned Err({})", e))),
                        }
                    }
                    _ => {
                        let bad2 = if mode == 3 { bad.clone() } else { vec![] };
                        let lists: Vec<Vec<u64>> = vals.iter().map(|&v| vec![v]).collect();
                        let r = zc::parallel_reduce(lists, Vec::<u64>::new(), move |mut a: Vec<u64>, b: Vec<u64>| {
                            if b.len() == 1 && bad2.contains(&b[0]) {
                                return Err(ZiporaError::invalid_data("injected reducer failure"));
                            }
                            a.extend(b);
                            Ok(a)
                        })
                        .await;
                        let failing = mode == 3 && !bad.is_empty();
                        match r {
                            Ok(v) if !failing && v == vals => None,
                            Ok(v) if !failing => Some(("wrong_result".to_string(), format!("parallel_reduce(concat) = {:?} but the sequential fold gives {:?}", v, vals))),
                            Ok(v) => Some(("failure_swallowed".to_string(), format!("the reducer failed on an item but parallel_reduce returned Ok with {} elements", v.len()))),
                            Err(_) if failing => None,
                            Err(e) => Some(("spurious_error".to_string(), format!("the reducer never failed but parallel_reduce returned Err({})", e))),
                        }
                    }
                }
            };
            match tokio::time::timeout(Duration::from_secs(600), work).await {
                Ok(v) => v,
                Err(_) => Some(("operation_never_completed".to_string(), format!("{} on {} items did not return within 600 virtual seconds", FREE_MODES[mode as usize], n))),
            }
        });
        drop(rt);
        cx.steps = n as u64;
        cx.nontrivial = n >= 2;
        if n > 16 {
            cx.probe("more_than_16_items");
        }
        if !bad.is_empty() {
            cx.fault("item_failure");
        }
        cx.cell(format!("{}/{}", FREE_MODES[mode as usize], if bad.is_empty() { "ok" } else { "fail" }));
        if let Some((class, detail)) = verdict {
            cx.violate(&class, &site, detail);
        }
    }
}

// ------------------------------------------------------------------------------------------
// audit: the sequence-returning helpers of fiber_yield.rs and fiber_aio.rs (no files involved)

/// distinct powers of two as delays: whatever the concurrency limit, no two operations ever complete at
/// the same virtual instant, so the completion order is a function of the tapes alone
fn pow2_delays(keys: &[u64]) -> Vec<u64> {
    let n = keys.len();
    let mut order: Vec<usize> = (0..n).collect();
    order.sort_by_key(|&i| (keys[i] % 16, i));
    let mut d = vec![0u64; n];
    for (rank, &i) in order.iter().enumerate() {
        d[i] = 1u64 << rank;
    }
    d
}

struct Coop;

const COOP_MODES: [&str; 7] = ["run_with_yield", "process_vec_yielding", "YieldingIterator.for_each", "YieldingIterator.collect", "concurrent_with_yield", "FiberIoUtils.batch_process", "FiberIoUtils.process_files_parallel"];

impl Scenario for Coop {
    fn name(&self) -> String {
        "CooperativeUtils/sequences".into()
    }
    fn budget(&self, tier: Tier) -> u64 {
        match tier {
            Tier::Quick => 8000,
            Tier::Thorough => 500_000,
        }
    }
    fn run(&self, cx: &mut Run) {
        use zipora::concurrency::fiber_aio::FiberIoUtils;
        use zipora::concurrency::fiber_yield::{CooperativeUtils, YieldingIterator};
        zsim_core::hooks::reset();
        let cfg = cx.src.chan("cfg");
        let mode = cfg.below(COOP_MODES.len() as u64);
        let planned = cfg.below(9);
        let may_fail = cfg.chance(1, 2);
        let knob = cfg.below(5);
        let mut ops = cx.src.ops("ops", planned);
        let mut items: Vec<[u64; 4]> = vec![];
        while let Some(o) = ops.next() {
            if items.len() < 8 {
                items.push(o);
            }
        }
        let n = items.len();
        // yield interval / batch size / concurrency limit: 1, 2, 3, exactly n, n + 1 (never 0: `x % 0` and
        // `chunks(0)` are the callers' business)
        let k = [1usize, 2, 3, n.max(1), n + 1][knob as usize];
        let vals: Vec<u64> = items.iter().enumerate().map(|(i, o)| (o[0] % 997) * 16 + i as u64).collect();
        let fails: Vec<bool> = items.iter().map(|o| may_fail && o[1] % 5 == 0).collect();
        let delays = pow2_delays(&items.iter().map(|o| o[2]).collect::<Vec<_>>());
        let first_bad = fails.iter().position(|&b| b);
        cx.ev(format!("mode={} items={} interval/batch/limit={}", COOP_MODES[mode as usize], n, k));
        for i in 0..n {
            cx.ev(format!("item{} value={} delay={}ms fails={}", i, vals[i], delays[i], fails[i]));
        }
        let expect: Vec<u64> = vals.iter().map(|&v| fiber_f(v)).collect();
        let site = if mode <= 1 || mode == 4 { format!("CooperativeUtils.{}", COOP_MODES[mode as usize]) } else { COOP_MODES[mode as usize].to_string() };
        let calls: Arc<Mutex<Vec<u64>>> = Arc::new(Mutex::new(vec![]));
        let rt = runtime();
        let calls2 = calls.clone();
        let verdict: Option<(String, String)> = rt.block_on(async {
            let calls = calls2;
            let bad: Vec<u64> = (0..n).filter(|&i| fails[i]).map(|i| vals[i]).collect();
            // sequential helpers: f is called at most once per item, in input order, and at least on every item
            // up to and including the first failing one (whether it goes on after a failure is its own business)
            let judge_seq = |r: ZResult<Vec<u64>>, what: &str| -> Option<(String, String)> {
                let seen = calls.lock().unwrap().clone();
                let upto = first_bad.map_or(n, |b| b + 1);
                if seen.len() > n || seen[..] != vals[..seen.len()] {
                    return Some(("item_processed_twice_or_out_of_order".to_string(), format!("{} called the function on {:?}; the items are {:?}", what, seen, vals)));
                }
                if seen.len() < upto {
                    return Some(("item_not_processed".to_string(), format!("{} called the function on {:?} only; sequential processing reaches {:?}", what, seen, &vals[..upto])));
                }
                match (r, first_bad) {
                    (Ok(v), None) if v == expect => None,
                    (Ok(v), None) => Some(("wrong_result".to_string(), format!("{} returned {:?}, sequential map gives {:?}", what, v, expect))),
                    (Ok(v), Some(b)) => Some(("failure_swallowed".to_string(), format!("item{} failed but {} returned Ok with {} results for {} inputs", b, what, v.len(), n))),
                    (Err(_), Some(_)) => None,
                    (Err(e), None) => Some(("spurious_error".to_string(), format!("no item failed but {} returned Err({})", what, e))),
                }
            };
            let work = async {
                match mode {
                    0 => {
                        let (c2, v2, b2) = (calls.clone(), vals.clone(), bad.clone());
                        let r = CooperativeUtils::run_with_yield(n, k, move |i| {
                            c2.lock().unwrap().push(v2[i]);
                            if b2.contains(&v2[i]) { Err(ZiporaError::invalid_data("injected item failure")) } else { Ok(fiber_f(v2[i])) }
                        })
                        .await;
                        judge_seq(r, "run_with_yield")
                    }
                    1 => {
                        let (c2, b2) = (calls.clone(), bad.clone());
                        let r = CooperativeUtils::process_vec_yielding(vals.clone(), k, move |x: u64| {
                            c2.lock().unwrap().push(x);
                            if b2.contains(&x) { Err(ZiporaError::invalid_data("injected item failure")) } else { Ok(fiber_f(x)) }
                        })
                        .await;
                        judge_seq(r, "process_vec_yielding")
                    }
                    2 => {
                        let (c2, b2) = (calls.clone(), bad.clone());
                        let out: Arc<Mutex<Vec<u64>>> = Arc::new(Mutex::new(vec![]));
                        let out2 = out.clone();
                        let r = YieldingIterator::new(vals.clone().into_iter(), k)
                            .for_each(move |x: u64| {
                                c2.lock().unwrap().push(x);
                                if b2.contains(&x) {
                                    Err(ZiporaError::invalid_data("injected item failure"))
                                } else {
                                    out2.lock().unwrap().push(fiber_f(x));
                                    Ok(())
                                }
                            })
                            .await;
                        let produced = out.lock().unwrap().clone();
                        match r {
                            Ok(count) if first_bad.is_none() && count != n => Some(("result_count_mismatch".to_string(), format!("for_each returned Ok({}) for {} items", count, n))),
                            Ok(_) => judge_seq(Ok(produced), "YieldingIterator::for_each"),
                            Err(e) => judge_seq(Err(e), "YieldingIterator::for_each"),
                        }
                    }
                    3 => {
                        let v: Vec<u64> = YieldingIterator::new(vals.clone().into_iter(), k).collect().await;
                        if v == vals { None } else { Some(("wrong_result".to_string(), format!("collect() gave {:?} for the iterator {:?}", v, vals))) }
                    }
                    4 | 6 => {
                        let started: Arc<Mutex<Vec<u64>>> = Arc::new(Mutex::new(vec![]));
                        let mk = |i: usize| {
                            let (st, v, d, b) = (started.clone(), vals[i], delays[i], fails[i]);
                            async move {
                                st.lock().unwrap().push(v);
                                fiber_item(v, d, b).await
                            }
                        };
                        let r = if mode == 4 {
                            CooperativeUtils::concurrent_with_yield((0..n).map(mk).collect(), k).await
                        } else {
                            // the "paths" are names only; the processor never opens them
                            let by_name: BTreeMap<String, usize> = (0..n).map(|i| (format!("file{}", vals[i]), i)).collect();
                            let (st, vals3, delays3, fails3) = (started.clone(), vals.clone(), delays.clone(), fails.clone());
                            FiberIoUtils::process_files_parallel((0..n).map(|i| format!("file{}", vals[i])).collect::<Vec<String>>(), k, move |p: String| {
                                let i = by_name[&p];
                                let (st, v, d, b) = (st.clone(), vals3[i], delays3[i], fails3[i]);
                                Box::pin(async move {
                                    st.lock().unwrap().push(v);
                                    fiber_item(v, d, b).await
                                }) as Pin<Box<dyn Future<Output = ZResult<u64>> + Send>>
                            })
                            .await
                        };
                        let what = COOP_MODES[mode as usize];
                        let exp_in_order: Vec<u64> = expect.clone();
                        let mut st = started.lock().unwrap().clone();
                        let mut dup = st.clone();
                        dup.sort();
                        dup.dedup();
                        if dup.len() != st.len() {
                            return Some(("operation_ran_twice".to_string(), format!("{} started the operations {:?}", what, st)));
                        }
                        match (r, first_bad) {
                            (Ok(v), None) => {
                                st.sort();
                                let mut all = vals.clone();
                                all.sort();
                                let (mut a, mut b) = (v.clone(), exp_in_order.clone());
                                a.sort();
                                b.sort();
                                if st != all {
                                    Some(("operation_never_ran".to_string(), format!("{} returned Ok but started only {:?} of {:?}", what, st, all)))
                                } else if a != b {
                                    Some(("wrong_result".to_string(), format!("{} returned {:?}; the operations yield {:?}", what, v, exp_in_order)))
                                } else if v != exp_in_order {
                                    Some(("results_in_completion_order".to_string(), format!("{} returned {:?} for operations that, in the order given, yield {:?}: result k does not belong to input k", what, v, exp_in_order)))
                                } else {
                                    None
                                }
                            }
                            (Ok(v), Some(b)) => Some(("failure_swallowed".to_string(), format!("item{} failed but {} returned Ok with {} results for {} inputs", b, what, v.len(), n))),
                            (Err(_), Some(_)) => None,
                            (Err(e), None) => Some(("spurious_error".to_string(), format!("no operation failed but {} returned Err({})", what, e))),
                        }
                    }
                    _ => {
                        let chunks: Arc<Mutex<Vec<Vec<u64>>>> = Arc::new(Mutex::new(vec![]));
                        let (ch2, b2, vals3, delays3) = (chunks.clone(), bad.clone(), vals.clone(), delays.clone());
                        let r = FiberIoUtils::batch_process(vals.clone(), k, move |chunk: Vec<u64>| {
                            ch2.lock().unwrap().push(chunk.clone());
                            let d: u64 = chunk.iter().map(|v| delays3[vals3.iter().position(|x| x == v).unwrap_or(0)] % 8).sum();
                            let failing = chunk.iter().any(|v| b2.contains(v));
                            Box::pin(async move {
                                if d > 0 {
                                    tokio::time::sleep(Duration::from_millis(d)).await;
                                }
                                if failing { Err(ZiporaError::invalid_data("injected batch failure")) } else { Ok(chunk.into_iter().map(fiber_f).collect()) }
                            }) as Pin<Box<dyn Future<Output = ZResult<Vec<u64>>> + Send>>
                        })
                        .await;
                        let chunks = chunks.lock().unwrap().clone();
                        let flat: Vec<u64> = chunks.iter().flatten().cloned().collect();
                        if let Some(c) = chunks.iter().find(|c| c.len() > k) {
                            return Some(("batch_too_large".to_string(), format!("batch_process handed the processor a batch of {} items with batch_size {}", c.len(), k)));
                        }
                        if flat.len() > n || flat[..] != vals[..flat.len()] {
                            return Some(("wrong_or_shifted_batches".to_string(), format!("batches {:?} are not the items {:?} cut in order", chunks, vals)));
                        }
                        match (r, first_bad) {
                            (Ok(v), None) if v == expect && flat.len() == n => None,
                            (Ok(v), None) => Some(("wrong_result".to_string(), format!("batch_process returned {:?} (batches {:?}); sequential map gives {:?}", v, chunks, expect))),
                            (Ok(v), Some(b)) => Some(("failure_swallowed".to_string(), format!("the batch with item{} failed but batch_process returned Ok with {} results for {} inputs", b, v.len(), n))),
                            (Err(_), Some(_)) => None,
                            (Err(e), None) => Some(("spurious_error".to_string(), format!("no batch failed but batch_process returned Err({})", e))),
                        }
                    }
                }
            };
            match tokio::time::timeout(Duration::from_secs(600), work).await {
                Ok(v) => v,
                Err(_) => Some(("operation_never_completed".to_string(), format!("{} on {} items did not return within 600 virtual seconds", COOP_MODES[mode as usize], n))),
            }
        });
        drop(rt);
        cx.steps = n as u64;
        cx.nontrivial = n >= 2;
        if first_bad.is_some() {
            cx.fault("item_failure");
        }
        if k == n && n >= 2 {
            cx.probe("interval_equals_item_count");
        }
        cx.cell(format!("{}/k{}/{}", COOP_MODES[mode as usize], knob, if first_bad.is_some() { "fail" } else { "ok" }));
        if let Some((class, detail)) = verdict {
            cx.violate(&class, &site, detail);
        }
    }
}

// ------------------------------------------------------------------------------------------
// audit: put_batch / get_batch of the in-memory async blob store (tokio locks only; no files, no blocking pool)

struct MemBlobs;

impl Scenario for MemBlobs {
    fn name(&self) -> String {
        "AsyncMemoryBlobStore/batch".into()
    }
    fn budget(&self, tier: Tier) -> u64 {
        match tier {
            Tier::Quick => 4000,
            Tier::Thorough => 300_000,
        }
    }
    fn run(&self, cx: &mut Run) {
        use zipora::concurrency::async_blob_store::{AsyncBlobStore, AsyncMemoryBlobStore};
        zsim_core::hooks::reset();
        let cfg = cx.src.chan("cfg");
        let with_cap = cfg.chance(1, 2);
        let planned = 1 + cfg.below(10);
        let mut ops = cx.src.ops("ops", planned);
        let mut list: Vec<[u64; 4]> = vec![];
        while let Some(o) = ops.next() {
            list.push(o);
        }
        cx.ev(format!("memory blob store with_capacity={} operations={}", with_cap, list.len()));
        let rt = runtime();
        let mut evs: Vec<String> = vec![];
        let mut steps = 0u64;
        let verdict: Option<(String, String, String)> = rt.block_on(async {
            let store = if with_cap { AsyncMemoryBlobStore::with_capacity(4) } else { AsyncMemoryBlobStore::new() };
            // model: id -> bytes; every blob is unique (serial number in the first byte)
            let mut model: BTreeMap<u32, Vec<u8>> = BTreeMap::new();
            let mut ever: Vec<u32> = vec![];
            let mut serial = 0u8;
            for o in list.iter() {
                steps += 1;
                match o[0] % 5 {
                    0 | 1 => {
                        let k = (o[1] % 5) as usize;
                        let blobs: Vec<Vec<u8>> = (0..k)
                            .map(|j| {
                                serial = serial.wrapping_add(1);
                                let len = [0usize, 1, 3, 8][((o[2] >> (2 * j)) % 4) as usize];
                                let mut b = vec![serial];
                                b.extend(std::iter::repeat(0xA0 + j as u8).take(len));
                                b
                            })
                            .collect();
                        let r = store.put_batch(blobs.iter().map(|b| b.as_slice()).collect()).await;
                        evs.push(format!("put_batch({} blobs) -> {:?}", k, r.as_ref().map_err(|e| e.to_string())));
                        match r {
                            Ok(ids) => {
                                if ids.len() != k {
                                    return Some(("result_count_mismatch".to_string(), "AsyncMemoryBlobStore.put_batch".to_string(), format!("{} ids for {} blobs", ids.len(), k)));
                                }
                                for (id, b) in ids.iter().zip(blobs.iter()) {
                                    // (an id of a removed record may legitimately come back; two live records may not share one)
                                    if model.contains_key(id) {
                                        return Some(("id_of_live_record_reused".to_string(), "AsyncMemoryBlobStore.put_batch".to_string(), format!("put_batch returned id {}, which already names a live record (live ids {:?})", id, model.keys().collect::<Vec<_>>())));
                                    }
                                    ever.push(*id);
                                    model.insert(*id, b.clone());
                                }
                            }
                            Err(e) => return Some(("spurious_error".to_string(), "AsyncMemoryBlobStore.put_batch".to_string(), format!("put_batch returned Err({})", e))),
                        }
                    }
                    2 => {
                        if let Some(&id) = model.keys().nth((o[1] as usize) % model.len().max(1)) {
                            let r = store.remove(id).await;
                            evs.push(format!("remove({}) -> {}", id, if r.is_ok() { "ok" } else { "err" }));
                            model.remove(&id);
                        }
                    }
                    _ => {
                        // ids in a seeded order, with repeats; sometimes one id that was removed or never existed
                        let live: Vec<u32> = model.keys().cloned().collect();
                        let k = (o[1] % 5) as usize;
                        let mut ids: Vec<u32> = (0..k).filter(|_| !live.is_empty()).map(|j| live[((o[2] >> (3 * j)) as usize) % live.len()]).collect();
                        let poison = o[3] % 4 == 0;
                        if poison {
                            let dead = ever.iter().cloned().find(|id| !model.contains_key(id)).unwrap_or(4_000_000);
                            let at = (o[3] as usize / 4) % (ids.len() + 1);
                            ids.insert(at, dead);
                        }
                        let r = store.get_batch(ids.clone()).await;
                        evs.push(format!("get_batch({:?}) -> {}", ids, match &r { Ok(v) => format!("{} blobs", v.len()), Err(_) => "err".to_string() }));
                        let expect: Option<Vec<Vec<u8>>> = ids.iter().map(|id| model.get(id).cloned()).collect();
                        match (r, expect) {
                            (Ok(v), Some(e)) if v == e => {}
                            (Ok(v), Some(e)) => return Some(("wrong_or_shifted_output".to_string(), "AsyncMemoryBlobStore.get_batch".to_string(), format!("get_batch({:?}) returned {:?}; the records are {:?}", ids, v, e))),
                            (Ok(v), None) => return Some(("failure_swallowed".to_string(), "AsyncMemoryBlobStore.get_batch".to_string(), format!("get_batch({:?}) names a record that does not exist but returned Ok with {} blobs", ids, v.len()))),
                            (Err(_), None) => {}
                            (Err(e), Some(_)) => return Some(("spurious_error".to_string(), "AsyncMemoryBlobStore.get_batch".to_string(), format!("every id of get_batch({:?}) exists but it returned Err({})", ids, e))),
                        }
                    }
                }
                let len = store.len().await;
                if len != model.len() {
                    return Some(("len_mismatch".to_string(), "AsyncMemoryBlobStore.len".to_string(), format!("len()={} but {} records are stored", len, model.len())));
                }
            }
            None
        });
        drop(rt);
        for e in evs {
            cx.ev(e);
        }
        cx.steps = steps;
        cx.nontrivial = steps >= 2;
        if let Some((class, site, detail)) = verdict {
            cx.violate(&class, &site, detail);
        }
    }
}

// ------------------------------------------------------------------------------------------
// audit: the stage types the library ships (MapStage, BatchMapStage with and without a batch function,
// FilterStage), several calls on one pipeline, inputs that repeat and are not sorted

struct BuiltinStages;

const BUILTIN_MODES: [&str; 7] = ["MapStage.process_batch", "BatchMapStage-plain.process_batch", "BatchMapStage-batch.process_batch", "BatchMapStage-plain.direct", "FilterStage.process_batch", "MapStage.execute_stream", "MapStage+FilterStage.execute_two_stage"];

fn bs_f(x: u64) -> u64 {
    x * 2 + 1
}
fn bs_bad(x: u64, may_fail: bool) -> bool {
    may_fail && x % 7 == 3
}
fn bs_map(may_fail: bool) -> impl Fn(u64) -> ZResult<u64> + Send + Sync + Clone + 'static {
    move |x: u64| if bs_bad(x, may_fail) { Err(ZiporaError::invalid_data("injected stage failure")) } else { Ok(bs_f(x)) }
}

impl Scenario for BuiltinStages {
    fn name(&self) -> String {
        "Pipeline/builtin-stages".into()
    }
    fn budget(&self, tier: Tier) -> u64 {
        match tier {
            Tier::Quick => 8000,
            Tier::Thorough => 500_000,
        }
    }
    fn run(&self, cx: &mut Run) {
        zsim_core::hooks::reset();
        let cfg = cx.src.chan("cfg");
        let mode = cfg.below(BUILTIN_MODES.len() as u64);
        let batching = cfg.chance(1, 2);
        let may_fail = cfg.chance(1, 2);
        let buffer = 1 + cfg.below(3) as usize;
        let nstages = 1 + cfg.below(3) as usize;
        let n_calls = 1 + cfg.biased_zero(3, 1, 2) as usize;
        let relation = cfg.below(4);
        let planned = cfg.below(8);
        let mut ops = cx.src.ops("ops", planned);
        let mut raw: Vec<u64> = vec![];
        while let Some(o) = ops.next() {
            if raw.len() < 8 {
                // small alphabet: repeats happen
                raw.push((o[0] % 6) * 10 + o[1] % 3);
            }
        }
        // relationships between the inputs of consecutive calls: as drawn / sorted / reverse-sorted / all the same
        match relation {
            1 => raw.sort(),
            2 => {
                raw.sort();
                raw.reverse()
            }
            3 => {
                if let Some(&f) = raw.first() {
                    raw = vec![f; raw.len()];
                }
            }
            _ => {}
        }
        let n = raw.len();
        cx.ev(format!("mode={} batching={} may_fail={} buffer={} stages={} calls={} inputs={:?}", BUILTIN_MODES[mode as usize], batching, may_fail, buffer, nstages, n_calls, raw));
        let site = format!("Pipeline.{}", BUILTIN_MODES[mode as usize]);
        let rt = runtime();
        let mut evs: Vec<String> = vec![];
        let verdict: Option<(String, String)> = rt.block_on(async {
            let pipeline = PipelineBuilder::new().buffer_size(buffer).enable_batching(batching).stage_timeout(Duration::from_secs(5)).build();
            // the same pipeline serves every call; the inputs are dealt out to the calls in order
            let per = (n + n_calls - 1) / n_calls.max(1);
            for c in 0..n_calls {
                let inputs: Vec<u64> = raw.iter().cloned().skip(c * per).take(per).collect();
                let m = inputs.len();
                let first_bad = inputs.iter().position(|&x| bs_bad(x, may_fail));
                let expect: Vec<u64> = inputs.iter().map(|&x| bs_f(x)).collect();
                let judge = |r: ZResult<Vec<u64>>, expect: &Vec<u64>, first_bad: Option<usize>| -> Option<(String, String)> {
                    match (r, first_bad) {
                        (Ok(v), None) if &v == expect => None,
                        (Ok(v), None) => Some(("wrong_result".to_string(), format!("call {} on {:?} returned {:?}, sequential map gives {:?}", c, inputs, v, expect))),
                        (Ok(v), Some(b)) => Some(("failure_swallowed".to_string(), format!("call {}: input{} of {:?} fails but Ok with {} results came back", c, b, inputs, v.len()))),
                        (Err(_), Some(_)) => None,
                        (Err(e), None) => Some(("spurious_error".to_string(), format!("call {} on {:?}: no input fails but Err({}) came back", c, inputs, e))),
                    }
                };
                type NoBatch = fn(Vec<u64>) -> ZResult<Vec<u64>>;
                let v = match mode {
                    0 => judge(pipeline.process_batch(MapStage::new("map".to_string(), bs_map(may_fail)), inputs.clone()).await, &expect, first_bad),
                    1 => judge(pipeline.process_batch(BatchMapStage::<_, NoBatch>::new("bmap".to_string(), bs_map(may_fail)), inputs.clone()).await, &expect, first_bad),
                    2 => {
                        let stage = BatchMapStage::with_batch_support("bmap".to_string(), bs_map(may_fail), move |b: Vec<u64>| b.into_iter().map(bs_map(may_fail)).collect::<ZResult<Vec<u64>>>());
                        judge(pipeline.process_batch(stage, inputs.clone()).await, &expect, first_bad)
                    }
                    3 => {
                        let stage = BatchMapStage::<_, NoBatch>::new("bmap".to_string(), bs_map(may_fail));
                        judge(PipelineStage::<u64, u64>::process_batch(&stage, inputs.clone()).await, &expect, first_bad)
                    }
                    4 => {
                        let r = pipeline.process_batch(FilterStage::new("odd".to_string(), |x: &u64| *x % 2 == 1), inputs.clone()).await;
                        let e: Vec<Option<u64>> = inputs.iter().map(|&x| if x % 2 == 1 { Some(x) } else { None }).collect();
                        match r {
                            Ok(v) if v == e => None,
                            Ok(v) => Some(("wrong_result".to_string(), format!("call {}: filter over {:?} returned {:?}, expected {:?}", c, inputs, v, e))),
                            Err(e) => Some(("spurious_error".to_string(), format!("call {}: a filter cannot fail but Err({}) came back", c, e))),
                        }
                    }
                    5 => {
                        let (in_tx, in_rx) = mpsc::channel::<u64>(buffer);
                        let (out_tx, mut out_rx) = mpsc::channel::<u64>(buffer);
                        // stage s maps x -> 2x+1; only the first stage can fail (on the raw input)
                        let stages: Vec<Box<dyn PipelineStage<u64, u64>>> = (0..nstages)
                            .map(|s| if s % 2 == 0 { Box::new(MapStage::new(format!("m{}", s), bs_map(may_fail && s == 0))) as Box<dyn PipelineStage<u64, u64>> } else { Box::new(BatchMapStage::<_, NoBatch>::new(format!("b{}", s), bs_map(false))) as Box<dyn PipelineStage<u64, u64>> })
                            .collect();
                        let inputs2 = inputs.clone();
                        let producer = tokio::spawn(async move {
                            for x in inputs2 {
                                if in_tx.send(x).await.is_err() {
                                    break;
                                }
                            }
                        });
                        let consumer = tokio::spawn(async move {
                            let mut got = vec![];
                            while let Some(v) = out_rx.recv().await {
                                got.push(v);
                            }
                            got
                        });
                        let r = pipeline.execute_stream(stages, in_rx, out_tx).await;
                        let _ = producer.await;
                        let got = consumer.await.unwrap_or_default();
                        let e: Vec<u64> = inputs.iter().map(|&x| (0..nstages).fold(x, |a, _| bs_f(a))).collect();
                        let is_prefix = got.len() <= e.len() && got[..] == e[..got.len()];
                        if !is_prefix {
                            Some(("wrong_or_shifted_output".to_string(), format!("call {}: stream over {:?} produced {:?}; sequential application gives {:?}", c, inputs, got, e)))
                        } else {
                            match (&r, first_bad) {
                                (Ok(()), None) if got.len() == m => None,
                                (Ok(()), None) => Some(("missing_output".to_string(), format!("call {}: no stage failed, Ok returned, but only {} of {} outputs arrived", c, got.len(), m))),
                                (Ok(()), Some(b)) => Some(("failure_swallowed".to_string(), format!("call {}: input{} fails in stage 0 but execute_stream returned Ok(()) with {} of {} outputs", c, b, got.len(), m))),
                                (Err(_), Some(_)) => None,
                                (Err(e), None) => Some(("spurious_error".to_string(), format!("call {}: no stage failed but execute_stream returned Err({})", c, e))),
                            }
                        }
                    }
                    _ => {
                        // one call per input, one after the other on the same pipeline: a failed call must not
                        // disturb the following ones
                        let mut v = None;
                        for (i, &x) in inputs.iter().enumerate() {
                            let r = pipeline.execute_two_stage(MapStage::new("map".to_string(), bs_map(may_fail)), FilterStage::new("big".to_string(), |y: &u64| *y >= 50), x).await;
                            let e = if bs_bad(x, may_fail) { None } else { Some(if bs_f(x) >= 50 { Some(bs_f(x)) } else { None }) };
                            v = match (r, e) {
                                (Ok(got), Some(e)) if got == e => None,
                                (Ok(got), Some(e)) => Some(("wrong_result".to_string(), format!("call {} input{} ({}): got {:?} expected {:?}", c, i, x, got, e))),
                                (Ok(got), None) => Some(("failure_swallowed".to_string(), format!("call {} input{} ({}) fails in stage 1 but Ok({:?}) came back", c, i, x, got))),
                                (Err(_), None) => None,
                                (Err(err), Some(_)) => Some(("spurious_error".to_string(), format!("call {} input{} ({}): no stage fails but Err({}) came back", c, i, x, err))),
                            };
                            if v.is_some() {
                                break;
                            }
                        }
                        v
                    }
                };
                evs.push(format!("call {} on {:?}: {}", c, inputs, if v.is_none() { "as the sequential application" } else { "VIOLATES" }));
                if v.is_some() {
                    return v;
                }
            }
            None
        });
        drop(rt);
        for e in evs {
            cx.ev(e);
        }
        cx.steps = n as u64;
        cx.nontrivial = n >= 1;
        if raw.iter().any(|&x| bs_bad(x, may_fail)) {
            cx.fault("stage_failure");
        }
        let mut d = raw.clone();
        d.sort();
        d.dedup();
        if d.len() < raw.len() {
            cx.probe("repeated_input_values");
        }
        cx.cell(format!("{}/{}/{}", BUILTIN_MODES[mode as usize], if batching { "batching" } else { "single" }, relation));
        if let Some((class, detail)) = verdict {
            cx.violate(&class, &site, detail);
        }
    }
}

// ------------------------------------------------------------------------------------------
// audit: BatchCollector driven call by call (add / check_timeout / flush / len / is_empty in any order,
// reuse after flush), no background checker: an exact model

struct CollectorOps;

impl Scenario for CollectorOps {
    fn name(&self) -> String {
        "BatchCollector/ops".into()
    }
    fn budget(&self, tier: Tier) -> u64 {
        match tier {
            Tier::Quick => 8000,
            Tier::Thorough => 500_000,
        }
    }
    fn run(&self, cx: &mut Run) {
        zsim_core::hooks::reset();
        let cfg = cx.src.chan("cfg");
        let max_batch = 1 + cfg.below(5) as usize;
        let timeout_ms = *cfg.pick(&[0u64, 4, 20]);
        let adders = 1 + cfg.biased_zero(3, 1, 3) as usize;
        let planned = 1 + cfg.below(20);
        let mut ops = cx.src.ops("ops", planned);
        let mut list: Vec<[u64; 4]> = vec![];
        while let Some(o) = ops.next() {
            list.push(o);
        }
        cx.ev(format!("collector max_batch_size={} batch_timeout={}ms operations={} adders={}", max_batch, timeout_ms, list.len(), adders));
        let rt = runtime();
        let mut evs: Vec<String> = vec![];
        let mut steps = 0u64;
        let mut timeouts = 0u64;
        let verdict: Option<(String, String, String)> = rt.block_on(async {
            let collector: Arc<BatchCollector<u64>> = Arc::new(BatchCollector::new(max_batch, Duration::from_millis(timeout_ms)));
            let mut added = 0u64; // items are 0, 1, 2, ... in the order they were handed in
            let mut out: Vec<u64> = vec![];
            let check_batch = |how: &str, b: &Vec<u64>, out: &mut Vec<u64>, added: u64| -> Option<(String, String, String)> {
                if b.len() > max_batch {
                    return Some(("batch_too_large".to_string(), "BatchCollector.batch_size".to_string(), format!("{} returned a batch of {} items with max_batch_size {}", how, b.len(), max_batch)));
                }
                for &x in b {
                    if out.contains(&x) {
                        return Some(("item_in_two_batches".to_string(), "BatchCollector.exactly_once".to_string(), format!("{} returned {:?}; item {} had already come out ({:?})", how, b, x, out)));
                    }
                    if x >= added {
                        return Some(("item_never_added".to_string(), "BatchCollector.exactly_once".to_string(), format!("{} returned {:?}; only items below {} were handed in", how, b, added)));
                    }
                    if x != out.len() as u64 {
                        return Some(("items_reordered".to_string(), "BatchCollector.order".to_string(), format!("{} returned {:?} after {:?} had come out: item {} is skipped or out of order", how, b, out, out.len())));
                    }
                    out.push(x);
                }
                None
            };
            for o in list.iter() {
                steps += 1;
                match o[0] % 10 {
                    0..=4 => {
                        if adders > 1 && o[1] % 3 == 0 {
                            // several tasks inside add() at once; the items count as handed in, in spawn order
                            let k = adders.min(3);
                            let handles: Vec<_> = (0..k as u64)
                                .map(|j| {
                                    let (c, item) = (collector.clone(), added + j);
                                    tokio::spawn(async move { c.add(item).await })
                                })
                                .collect();
                            added += k as u64;
                            for (j, h) in handles.into_iter().enumerate() {
                                if let Ok(Ok(Some(b))) = h.await {
                                    evs.push(format!("concurrent add #{} -> batch {:?}", j, b));
                                    if let Some(v) = check_batch("add()", &b, &mut out, added) {
                                        return Some(v);
                                    }
                                }
                            }
                        } else {
                            let item = added;
                            added += 1;
                            let r = collector.add(item).await;
                            evs.push(format!("add({}) -> {:?}", item, r.as_ref().map_err(|e| e.to_string())));
                            if let Ok(Some(b)) = r {
                                if let Some(v) = check_batch("add()", &b, &mut out, added) {
                                    return Some(v);
                                }
                            }
                        }
                    }
                    5 => {
                        let r = collector.flush().await;
                        evs.push(format!("flush() -> {:?}", r.as_ref().map_err(|e| e.to_string())));
                        if let Ok(Some(b)) = r {
                            if let Some(v) = check_batch("flush()", &b, &mut out, added) {
                                return Some(v);
                            }
                        }
                        if out.len() as u64 != added {
                            return Some(("item_lost".to_string(), "BatchCollector.exactly_once".to_string(), format!("after flush() {} items were handed in but only {:?} came out", added, out)));
                        }
                    }
                    6 | 7 => {
                        let r = collector.check_timeout().await;
                        evs.push(format!("check_timeout() -> {:?}", r.as_ref().map_err(|e| e.to_string())));
                        if let Ok(Some(b)) = r {
                            timeouts += 1;
                            if let Some(v) = check_batch("check_timeout()", &b, &mut out, added) {
                                return Some(v);
                            }
                        }
                    }
                    _ => {
                        let ms = [1u64, 2, timeout_ms, timeout_ms + 1][(o[1] % 4) as usize];
                        tokio::time::sleep(Duration::from_millis(ms)).await;
                        evs.push(format!("sleep {}ms", ms));
                    }
                }
                let (len, empty) = (collector.len().await, collector.is_empty().await);
                let pending = added as usize - out.len();
                if len != pending || empty != (pending == 0) {
                    return Some(("len_mismatch".to_string(), "BatchCollector.len".to_string(), format!("len()={} is_empty()={} but {} items were handed in and {} have come out", len, empty, added, out.len())));
                }
            }
            let r = collector.flush().await;
            evs.push(format!("final flush() -> {:?}", r.as_ref().map_err(|e| e.to_string())));
            if let Ok(Some(b)) = r {
                if let Some(v) = check_batch("flush()", &b, &mut out, added) {
                    return Some(v);
                }
            }
            if out.len() as u64 != added {
                return Some(("item_lost".to_string(), "BatchCollector.exactly_once".to_string(), format!("{} items were handed in; after the final flush only {:?} came out", added, out)));
            }
            None
        });
        drop(rt);
        for e in evs {
            cx.ev(e);
        }
        cx.steps = steps;
        cx.nontrivial = steps >= 2;
        cx.probe_n("batch_from_check_timeout", timeouts);
        if let Some((class, site, detail)) = verdict {
            cx.violate(&class, &site, detail);
        }
    }
}

// ------------------------------------------------------------------------------------------
// audit: the one place where submit() refuses - the global queue's limit of 10 000 tasks

struct GlobalFull;

impl Scenario for GlobalFull {
    fn name(&self) -> String {
        "WorkStealingExecutor/global-queue-full".into()
    }
    fn budget(&self, tier: Tier) -> u64 {
        match tier {
            Tier::Quick => 32,
            Tier::Thorough => 1600,
        }
    }
    fn run(&self, cx: &mut Run) {
        const LIMIT: u64 = 10_000;
        zsim_core::hooks::reset();
        let cfg = cx.src.chan("cfg");
        let workers = 1 + cfg.below(2) as usize;
        let capacity = 1 + cfg.below(3) as usize;
        // a handful more than the local queues and the global queue hold together
        let extra = cfg.below(6);
        let short = cfg.below(3); // or a handful fewer: nothing may be refused then... (0 = reach the limit)
        let total = (workers * capacity) as u64 + LIMIT + extra - if extra == 0 { short } else { 0 };
        let prio_mix = cfg.below(3);
        install_yields(cx.src.chan("sched"));
        cx.ev(format!("executor workers={} capacity={} tasks={} priorities={}", workers, capacity, total, ["all 0", "ascending in blocks", "i % 4"][prio_mix as usize]));
        let log: Arc<Mutex<Vec<u64>>> = Arc::new(Mutex::new(vec![]));
        let rt = runtime();
        let log2 = log.clone();
        let (accepted, refused, idle, executed) = rt.block_on(async {
            let log = log2;
            let ex = WorkStealingExecutor::new(workers, capacity).expect("executor");
            let mut accepted: Vec<u64> = vec![];
            let mut refused: Vec<u64> = vec![];
            // no await in this loop: the workers do not run, the queues only fill
            for id in 0..total {
                let prio = match prio_mix {
                    0 => 0,
                    1 => (id * 4 / total.max(1)) as u8,
                    _ => (id % 4) as u8,
                };
                let l = log.clone();
                let task = ClosureTask::new(move || {
                    Box::pin(async move {
                        l.lock().unwrap().push(id);
                        Ok(())
                    }) as Pin<Box<dyn Future<Output = ZResult<()>> + Send>>
                })
                .with_priority(prio)
                .with_stealable(id % 3 != 0);
                if ex.submit(Box::new(task)).is_ok() {
                    accepted.push(id);
                } else {
                    refused.push(id);
                }
            }
            let deadline = tokio::time::Instant::now() + Duration::from_millis(5000);
            loop {
                if (log.lock().unwrap().len() >= accepted.len() && ex.is_idle()) || tokio::time::Instant::now() >= deadline {
                    break;
                }
                tokio::time::sleep(Duration::from_millis(5)).await;
            }
            let r = (ex.is_idle(), ex.stats().total_executed);
            let _ = ex.shutdown().await;
            (accepted, refused, r.0, r.1)
        });
        drop(rt);
        zsim_core::hooks::reset();
        let log = log.lock().unwrap();
        cx.ev(format!("{} accepted, {} refused (first refused: {:?}), {} ran", accepted.len(), refused.len(), refused.first(), log.len()));
        cx.steps = total;
        cx.nontrivial = true;
        cx.probe_n("tasks_refused", refused.len() as u64);
        let mut count = vec![0u8; total as usize];
        for &id in log.iter() {
            count[id as usize] = count[id as usize].saturating_add(1);
        }
        if let Some(id) = (0..total).find(|&i| count[i as usize] > 1) {
            cx.violate("task_ran_twice", "WorkStealingExecutor.exactly_once", format!("task{} ran {} times", id, count[id as usize]));
            return;
        }
        if let Some(&id) = refused.iter().find(|&&i| count[i as usize] > 0) {
            cx.violate("refused_task_ran", "WorkStealingExecutor.exactly_once", format!("task{} was refused by submit but ran", id));
            return;
        }
        let missing: Vec<u64> = accepted.iter().filter(|&&i| count[i as usize] == 0).cloned().collect();
        if !missing.is_empty() {
            cx.violate("task_never_ran", "WorkStealingExecutor.liveness", format!("{} of {} accepted tasks never ran (first: task{}; {} were refused); workers={} capacity={}", missing.len(), accepted.len(), missing[0], refused.len(), workers, capacity));
            return;
        }
        if !idle || executed != accepted.len() as u64 {
            cx.violate("not_idle_at_quiescence", "WorkStealingExecutor.is_idle", format!("is_idle()={} total_executed={} accepted={}", idle, executed, accepted.len()));
        }
    }
}

fn main() {
    let mut spec = CheckSpec::new(
        "C18",
        "exploration",
        "seeded virtual-time executions (tokio current_thread runtime, paused clock): seeded worker count / capacities / task multisets / submit instants / body delays / failing tasks / tasks that submit tasks / second wave after idle / failing and never-completing stage items / cooperative yields inside the worker loop / clock jumps; \
         queue operations (push_local, pop_local, steal, balance, len) against a model and under a seeded thread scheduler; \
         non-trivial = at least two tasks or items; distinct = distinct hash of the (virtual time, event) trace",
    );
    spec.assumptions = vec![
        "tokio's current_thread scheduler: tasks interleave only at await points; interleavings that only a multi-thread runtime can produce inside one poll are not explored".into(),
        "liveness bound: after submissions stop, every accepted task has run within (sum of body delays + 2 virtual seconds)".into(),
        "AsyncFileStore, AsyncCompressedBlobStore and FiberAio/FiberFile go through tokio's blocking pool and real files and are not simulated; of those two files only AsyncMemoryBlobStore's batch calls and FiberIoUtils::{batch_process, process_files_parallel} (with processors that open no file) run".into(),
        "WorkStealingExecutor::{init, global} and init_concurrency are process-global (OnceLock) and their workers die with the first runtime; they are not driven".into(),
        "is_idle() is sampled from the driver task between the workers' turns; 'idle' while an accepted task has not run is reported after every other clause of the run has been judged".into(),
    ];
    spec.components = vec![
        ("concurrency::work_stealing::{WorkStealingExecutor, WorkStealingQueue}", "real"),
        ("concurrency::fiber_pool::FiberPool", "real"),
        ("concurrency::pipeline::{Pipeline, BatchCollector}", "real"),
        ("tokio runtime", "real current_thread runtime, clock paused (virtual time)"),
        ("client threads calling submit() concurrently", "real OS threads, one at a time under the E1 baton scheduler (scheduling point at every queue lock / atomic)"),
        ("task bodies / PipelineStage implementations / producers / consumers", "harness actors (seeded delays, failures, hangs)"),
        ("concurrency::work_stealing::WorkStealingQueue driven directly", "real; sequentially against a set model, and by 2-3 OS threads under the E1 baton scheduler"),
        ("concurrency::{spawn, join_all, parallel_map, parallel_reduce}", "real"),
        ("concurrency::fiber_yield::{CooperativeUtils, YieldingIterator}, concurrency::fiber_aio::FiberIoUtils", "real (processors are harness closures; no file is opened)"),
        ("concurrency::pipeline::{MapStage, BatchMapStage, FilterStage, PipelineBuilder}", "real"),
        ("concurrency::async_blob_store::AsyncMemoryBlobStore::{put_batch, get_batch}", "real"),
        ("concurrency::{async_blob_store::{AsyncFileStore, AsyncCompressedBlobStore}, fiber_aio::{FiberAio, FiberFile, VectoredIo}}", "not run"),
    ];
    spec.init = zsim_props::install_hooks;
    spec.hang_secs = 60;
    spec.scenarios.push(Box::new(Exec));
    spec.scenarios.push(Box::new(Fibers));
    spec.scenarios.push(Box::new(Pipe));
    spec.scenarios.push(Box::new(Batches));
    spec.scenarios.push(Box::new(ConcurrentSubmit));
    spec.scenarios.push(Box::new(GlobalFull));
    spec.scenarios.push(Box::new(QueueModel));
    spec.scenarios.push(Box::new(QueueThreads));
    spec.scenarios.push(Box::new(FreeFns));
    spec.scenarios.push(Box::new(Coop));
    spec.scenarios.push(Box::new(MemBlobs));
    spec.scenarios.push(Box::new(BuiltinStages));
    spec.scenarios.push(Box::new(CollectorOps));
    zsim_core::driver::main(spec);
}
