//! C08 — concurrent pool users never share a block and no block is lost.
//!
//! 2-3 simulated threads allocate from / free to one thread-safe pool under the E1 scheduler
//! (scheduling point at every shimmed atomic, CAS and lock of the pool).  A harness ledger
//! records which thread owns which block; invariants are evaluated with all threads parked.

use std::collections::BTreeMap;
use std::ptr::NonNull;
use std::sync::{Arc, Mutex};
use zipora::memory::five_level_pool::{FiveLevelPoolConfig, LockFreePool, MemOffset, MutexBasedPool};
use zipora::memory::fixed_capacity_pool::{FixedCapacityAllocation, FixedCapacityMemoryPool, FixedCapacityPoolConfig};
use zipora::memory::lockfree_pool::{BackoffStrategy, LockFreeMemoryPool, LockFreePoolConfig};
use zipora::memory::pool::{MemoryPool, PoolConfig};
use zipora::memory::secure_pool::{SecureMemoryPool, SecurePoolConfig, SecurePooledPtr};
use zsim_core::e1::{self, E1Cfg};
use zsim_core::{CheckSpec, Run, Scenario, Tier, Violation};

#[derive(Clone, Copy, PartialEq, Eq, Debug)]
enum Kind {
    Secure,
    LockFree,
    FiveLockFree,
    FiveMutex,
    Fixed,
    Basic,
}

impl Kind {
    fn name(self) -> &'static str {
        match self {
            Kind::Secure => "SecureMemoryPool",
            Kind::LockFree => "LockFreeMemoryPool",
            Kind::FiveLockFree => "five_level::LockFreePool",
            Kind::FiveMutex => "five_level::MutexBasedPool",
            Kind::Fixed => "FixedCapacityMemoryPool",
            Kind::Basic => "MemoryPool",
        }
    }
}

enum Pool {
    Secure(Arc<SecureMemoryPool>),
    LockFree(Arc<LockFreeMemoryPool>),
    FiveLockFree(Arc<LockFreePool>),
    FiveMutex(Arc<MutexBasedPool>),
    Fixed(Arc<FixedCapacityMemoryPool>),
    Basic(Arc<MemoryPool>),
}

/// A block as the harness holds it.
enum Blk {
    Secure(SecurePooledPtr),
    Raw(usize, usize),
    Off(MemOffset, usize),
    Fixed(FixedCapacityAllocation),
}

// the guards are handed between simulated threads through the mailbox; the raw forms are plain numbers
struct SendBlk(Blk);
unsafe impl Send for SendBlk {}

fn mem_offset_value(o: &MemOffset) -> usize {
    let s = format!("{:?}", o);
    s.trim_start_matches("MemOffset(").trim_end_matches(')').parse().unwrap_or(usize::MAX)
}

impl Blk {
    /// (address or offset, usable length, backed by memory the harness may touch)
    fn extent(&self, requested: usize) -> (usize, usize, bool) {
        match self {
            Blk::Secure(p) => (p.as_ptr() as usize, p.size(), true),
            Blk::Raw(a, l) => (*a, *l, true),
            Blk::Off(o, l) => (mem_offset_value(o), *l, false),
            Blk::Fixed(a) => (a.as_ptr() as usize, requested.min(a.size()), true),
        }
    }
}

impl Pool {
    fn alloc(&self, size: usize) -> Result<Blk, String> {
        match self {
            Pool::Secure(p) => p.allocate().map(Blk::Secure).map_err(|e| e.to_string()),
            Pool::LockFree(p) => p.allocate(size).map(|n| Blk::Raw(n.as_ptr() as usize, size)).map_err(|e| e.to_string()),
            Pool::FiveLockFree(p) => p.alloc(size).map(|o| Blk::Off(o, size)).map_err(|e| e.to_string()),
            Pool::FiveMutex(p) => p.alloc(size).map(|o| Blk::Off(o, size)).map_err(|e| e.to_string()),
            Pool::Fixed(p) => p.allocate(size).map(Blk::Fixed).map_err(|e| e.to_string()),
            Pool::Basic(p) => p.allocate().map(|n| Blk::Raw(n.as_ptr() as usize, size)).map_err(|e| e.to_string()),
        }
    }
    /// The other entry points that hand out blocks: hinted and bulk allocation.
    fn alloc_variant(&self, size: usize, variant: u64) -> Result<Vec<Blk>, String> {
        match (self, variant % 4) {
            (Pool::Secure(p), 1) => p.allocate_with_hint(true).map(|b| vec![Blk::Secure(b)]).map_err(|e| e.to_string()),
            (Pool::Secure(p), 2) => p.allocate_with_hint(false).map(|b| vec![Blk::Secure(b)]).map_err(|e| e.to_string()),
            (Pool::Secure(p), 3) => {
                let c = p.config().chunk_size;
                p.allocate_bulk_with_prefetch(&[c, c]).map(|v| v.into_iter().map(Blk::Secure).collect()).map_err(|e| e.to_string())
            }
            (Pool::LockFree(p), 3) => p.allocate_bulk_simd(&[size, size]).map(|v| v.into_iter().map(|n| Blk::Raw(n.as_ptr() as usize, size)).collect()).map_err(|e| e.to_string()),
            _ => self.alloc(size).map(|b| vec![b]),
        }
    }
    fn free_variant(&self, b: Blk, variant: u64) -> Result<(), String> {
        match (self, b) {
            (Pool::LockFree(p), Blk::Raw(a, l)) if variant % 2 == 1 => p.deallocate_with_zero(NonNull::new(a as *mut u8).unwrap(), l).map_err(|e| e.to_string()),
            (_, b) => self.free(b),
        }
    }
    fn free(&self, b: Blk) -> Result<(), String> {
        match (self, b) {
            (_, Blk::Secure(g)) => {
                drop(g);
                Ok(())
            }
            (_, Blk::Fixed(g)) => {
                drop(g);
                Ok(())
            }
            (Pool::LockFree(p), Blk::Raw(a, l)) => p.deallocate(NonNull::new(a as *mut u8).unwrap(), l).map_err(|e| e.to_string()),
            (Pool::Basic(p), Blk::Raw(a, _)) => p.deallocate(NonNull::new(a as *mut u8).unwrap()).map_err(|e| e.to_string()),
            (Pool::FiveLockFree(p), Blk::Off(o, l)) => p.free(o, l).map_err(|e| e.to_string()),
            (Pool::FiveMutex(p), Blk::Off(o, l)) => p.free(o, l).map_err(|e| e.to_string()),
            _ => Err("mismatched block kind".into()),
        }
    }
    fn clone_ref(&self) -> Pool {
        match self {
            Pool::Secure(p) => Pool::Secure(p.clone()),
            Pool::LockFree(p) => Pool::LockFree(p.clone()),
            Pool::FiveLockFree(p) => Pool::FiveLockFree(p.clone()),
            Pool::FiveMutex(p) => Pool::FiveMutex(p.clone()),
            Pool::Fixed(p) => Pool::Fixed(p.clone()),
            Pool::Basic(p) => Pool::Basic(p.clone()),
        }
    }
}

fn who(t: usize) -> String {
    if t == usize::MAX { "the draining main thread".into() } else { format!("t{}", t) }
}

struct LiveBlk {
    addr: usize,
    len: usize,
    owner: usize,
    serial: u8,
    mem: bool,
    ordinal: usize,
}

#[derive(Default)]
struct Ledger {
    live: Vec<LiveBlk>,
    /// address -> ordinal (first-seen order), so events never contain addresses
    ordinals: BTreeMap<usize, usize>,
    events: Vec<String>,
    pending: Option<Violation>,
    next_serial: u8,
    /// allocation serial: block names in events are "b<serial of the allocation>", never addresses
    next_id: usize,
    allocs_ok: u64,
    bulk_errs: u64,
    refused_header_check: u64,
    allocs_err: u64,
    frees_ok: u64,
    frees_err: u64,
    handoffs: u64,
    reuse_hits: u64,
    /// ordinals currently believed free (freed and not yet re-served); used for "served at most once"
    freed: Vec<usize>,
}

impl Ledger {
    fn ordinal(&mut self, addr: usize) -> usize {
        let n = self.ordinals.len();
        *self.ordinals.entry(addr).or_insert(n)
    }
    /// Record a block that `alloc` just returned to `owner`.
    fn on_alloc(&mut self, owner: usize, addr: usize, len: usize, mem: bool, site: &str) -> u8 {
        let ord = self.ordinal(addr);
        if self.freed.contains(&ord) {
            self.freed.retain(|&o| o != ord);
            self.reuse_hits += 1;
        }
        for l in &self.live {
            if addr < l.addr + l.len && l.addr < addr + len {
                if self.pending.is_none() {
                    self.pending = Some(Violation::new(
                        "double_ownership",
                        site,
                        format!("a block of {} bytes handed to {} overlaps live block b{} ({} bytes) owned by {}", len, who(owner), l.ordinal, l.len, who(l.owner)),
                    ));
                }
                break;
            }
        }
        self.next_serial = self.next_serial.wrapping_add(1).max(1);
        let serial = self.next_serial;
        self.next_id += 1;
        let ord = self.next_id;
        self.live.push(LiveBlk { addr, len, owner, serial, mem, ordinal: ord });
        self.allocs_ok += 1;
        serial
    }
    fn take(&mut self, addr: usize) -> Option<LiveBlk> {
        let p = self.live.iter().position(|l| l.addr == addr)?;
        Some(self.live.remove(p))
    }
}

/// Every live block that is backed by accessible memory still holds its owner's pattern.
fn check_patterns(l: &Ledger, site: &str) -> Option<Violation> {
    for b in l.live.iter().filter(|b| b.mem) {
        let s = unsafe { std::slice::from_raw_parts(b.addr as *const u8, b.len) };
        if let Some(i) = s.iter().position(|&x| x != b.serial) {
            return Some(Violation::new("foreign_write", site, format!("live block b{} of t{} changed at byte {} (expected {:#x}, found {:#x})", b.ordinal, b.owner, i, b.serial, s[i])));
        }
    }
    None
}

struct PoolScenario {
    kind: Kind,
}

const SIZES: [usize; 2] = [16, 32];
/// size pairs for the pools that take a size per request (one pair per run)
/// (the last two pairs fall into one bin of LockFreeMemoryPool - 144 and 256 - without both being the bin size)
const SIZE_PAIRS: [[usize; 2]; 8] = [[16, 32], [8, 64], [24, 40], [64, 128], [250, 300], [136, 144], [250, 256], [9000, 10000]];

fn build_pool(kind: Kind, cfg: &zsim_core::Chan, low_retries: bool, big: bool) -> (Pool, String) {
    match kind {
        Kind::Secure => {
            let cache = *cfg.pick(&[0usize, 0, 1, 2, 4]);
            let mut c = SecurePoolConfig::new(32, 64, 8).with_local_cache_size(cache);
            c.enable_huge_pages = false;
            c.enable_numa_awareness = false;
            let hot_cold = cfg.chance(1, 3);
            c.enable_hot_cold_separation = hot_cold;
            (Pool::Secure(SecureMemoryPool::new(c).expect("secure pool")), format!("chunk=32 local_cache_size={} hot_cold_separation={}", cache, hot_cold))
        }
        Kind::LockFree => {
            // (requests above the 8 KiB fast-bin threshold need a pool that can hold a few of them)
            let mem = if big { 65536 } else { *cfg.pick(&[4096usize, 4096, 1024, 256]) };
            let retries = if low_retries { *cfg.pick(&[1u32, 2]) } else { *cfg.pick(&[64u32, 64, 1, 2]) };
            let c = LockFreePoolConfig { memory_size: mem, backoff_strategy: BackoffStrategy::None, enable_huge_pages: false, enable_numa_awareness: false, max_cas_retries: retries, ..Default::default() };
            (Pool::LockFree(Arc::new(LockFreeMemoryPool::new(c).expect("lockfree pool"))), format!("memory={} backoff=None max_cas_retries={}", mem, retries))
        }
        Kind::FiveLockFree => {
            let cap = if big { 65536 } else { *cfg.pick(&[4096usize, 4096, 1024, 256]) };
            let c = FiveLevelPoolConfig { initial_capacity: cap, max_fast_block_size: 256, enable_huge_pages: false, enable_numa_awareness: false, ..Default::default() };
            (Pool::FiveLockFree(Arc::new(LockFreePool::new(c).expect("five lock-free"))), format!("capacity={}", cap))
        }
        Kind::FiveMutex => {
            let cap = if big { 65536 } else { *cfg.pick(&[4096usize, 4096, 1024, 256]) };
            let c = FiveLevelPoolConfig { initial_capacity: cap, max_fast_block_size: 256, enable_huge_pages: false, enable_numa_awareness: false, ..Default::default() };
            (Pool::FiveMutex(Arc::new(MutexBasedPool::new(c).expect("five mutex"))), format!("capacity={}", cap))
        }
        Kind::Fixed => {
            let blocks = *cfg.pick(&[3usize, 4, 8]);
            let eager = cfg.chance(1, 2);
            let c = FixedCapacityPoolConfig { max_block_size: 64, total_blocks: blocks, alignment: 8, enable_stats: true, eager_allocation: eager, secure_clear: false };
            (Pool::Fixed(Arc::new(FixedCapacityMemoryPool::new(c).expect("fixed pool"))), format!("blocks={} eager={}", blocks, eager))
        }
        Kind::Basic => {
            let maxc = *cfg.pick(&[1usize, 2, 8]);
            (Pool::Basic(Arc::new(MemoryPool::new(PoolConfig::new(32, maxc, 8)).expect("basic pool"))), format!("chunk=32 max_chunks={}", maxc))
        }
    }
}

impl Scenario for PoolScenario {
    fn name(&self) -> String {
        format!("{}/{}", self.kind.name(), "2-3t")
    }
    fn budget(&self, tier: Tier) -> u64 {
        match tier {
            Tier::Quick => 25_000,
            Tier::Thorough => 1_000_000,
        }
    }
    fn run(&self, cx: &mut Run) {
        let kind = self.kind;
        let cfg = cx.src.chan("cfg");
        let nthreads = 2 + cfg.biased_zero(2, 1, 3) as usize;
        let e1cfg = e1::draw_cfg(&cfg, 12000);
        // sizes first: two sizes of one bin are interesting together with a small retry budget
        // (the fall-back that carves new memory under contention) and with both sizes in use
        let sizes_run: [usize; 2] = if matches!(kind, Kind::LockFree | Kind::FiveLockFree | Kind::FiveMutex) { SIZE_PAIRS[cfg.biased_zero(8, 1, 2) as usize] } else { SIZES };
        let same_bin = kind == Kind::LockFree && (sizes_run == [136, 144] || sizes_run == [250, 256]);
        let big = sizes_run[0] > 8192;
        let (pool, desc) = build_pool(kind, &cfg, same_bin, big);
        cx.ev(format!("pool {} {} threads={}", kind.name(), desc, nthreads));
        let secure_preseed_extra = if kind == Kind::Secure { 4 } else { 0 };
        let ledger = Arc::new(Mutex::new(Ledger::default()));
        let site_own: &'static str = match kind {
            Kind::Secure => "SecureMemoryPool.ownership",
            Kind::LockFree => "LockFreeMemoryPool.ownership",
            Kind::FiveLockFree => "five_level::LockFreePool.ownership",
            Kind::FiveMutex => "five_level::MutexBasedPool.ownership",
            Kind::Fixed => "FixedCapacityMemoryPool.ownership",
            Kind::Basic => "MemoryPool.ownership",
        };
        // pre-seed the free structure with 0..3 blocks of one class (allocated and freed before the threads start)
        let preseed_planned = cfg.below(4) as usize + secure_preseed_extra;
        let mut preseed = 0usize;
        let size_fixed = sizes_run[cfg.below(2) as usize];
        let one_class = cfg.chance(2, 3) && !same_bin;
        {
            let mut tmp = vec![];
            for _ in 0..preseed_planned {
                if let Ok(b) = pool.alloc(size_fixed) {
                    tmp.push(b);
                }
            }
            // (a small pool may refuse some of them)
            preseed = tmp.len();
            let mut l = ledger.lock().unwrap();
            for b in &tmp {
                let (a, _, _) = b.extent(size_fixed);
                let o = l.ordinal(a);
                l.freed.push(o);
            }
            drop(l);
            for b in tmp {
                let _ = pool.free(b);
            }
        }
        cx.ev(format!("pre-seeded: {} block(s) of {} bytes allocated and freed before the threads start; sizes used: {}", preseed, size_fixed, if one_class { format!("{}", size_fixed) } else { format!("{},{}", sizes_run[0], sizes_run[1]) }));
        let aba_shape = cfg.chance(1, 3);
        if aba_shape {
            cx.cell(format!("{}/aba-shaped", kind.name()));
        }
        // second template, "drain and refill": thread 1 takes three blocks, gives two back, lets
        // thread 0 start its first allocation, then drains the list to empty and refills it to the
        // same depth with the same block on top; thread 0 allocates twice
        let drain_shape = !aba_shape && cfg.chance(1, 3);
        if drain_shape {
            cx.cell(format!("{}/drain-refill-shaped", kind.name()));
        }
        let one_class = one_class || drain_shape;
        let phase1_done = Arc::new(std::sync::atomic::AtomicBool::new(!drain_shape));
        // ... and thread 1 goes on only once thread 0 is about to allocate, so that the window between
        // thread 0's head load and its compare-exchange is what the scheduler has to hit
        let t0_started = Arc::new(std::sync::atomic::AtomicBool::new(!drain_shape));
        let mailbox: Arc<Mutex<Vec<Vec<(SendBlk, usize)>>>> = Arc::new(Mutex::new((0..nthreads).map(|_| vec![]).collect()));
        let handoff_ok = kind != Kind::Fixed; // FixedCapacityAllocation is !Send
        let mut bodies: Vec<e1::Body> = vec![];
        for t in 0..nthreads {
            let planned = if drain_shape && t == 1 { 9 + cfg.below(2) } else { 2 + cfg.below(5) };
            let mut ops = cx.src.ops(&format!("ops.t{}", t), planned);
            let mut list = vec![];
            // swarm option: ABA-shaped workload - thread 0 just allocates (it is the one to be overtaken
            // between its head load and its compare-exchange), the others start with alloc, alloc,
            // free(first), which pops two blocks and pushes the first one back
            let mut k = 0usize;
            loop {
                let o = if drain_shape && t <= 1 {
                    let kk = k;
                    // thread 1: alloc x3, free(2nd), free(1st) | alloc, alloc, free(3rd), free(1st); thread 0: alloc, alloc
                    const T1: [(u64, u64); 9] = [(0, 0), (0, 0), (0, 0), (2, 1), (2, 0), (0, 0), (0, 0), (2, 0), (2, 0)];
                    ops.next_with(move |r| {
                        let rest = [r.below(1 << 20), r.below(1 << 20)];
                        if t == 0 {
                            if kk < 2 { [0, 0, 0, rest[1]] } else { [r.below(1 << 20), rest[0], 0, rest[1]] }
                        } else if kk < 9 {
                            [T1[kk].0, T1[kk].1, 0, 4 * rest[1] + 1]
                        } else {
                            [r.below(1 << 20), rest[0], 0, rest[1]]
                        }
                    })
                } else if aba_shape {
                    let kk = k;
                    ops.next_with(move |r| {
                        let rest = [r.below(1 << 20), r.below(1 << 20), r.below(1 << 20)];
                        let kind = if t == 0 { 0 } else { [0u64, 0, 2][kk.min(2)] };
                        if kk <= 2 { [kind, 0, rest[1], rest[2]] } else { [r.below(1 << 20), rest[0], rest[1], rest[2]] }
                    })
                } else {
                    ops.next()
                };
                match o {
                    Some(o) => list.push(o),
                    None => break,
                }
                k += 1;
            }
            let pool = pool.clone_ref();
            let ledger = ledger.clone();
            let mailbox = mailbox.clone();
            let phase1_done = phase1_done.clone();
            let t0_started = t0_started.clone();
            bodies.push(Box::new(move |me: usize| {
                let mut held: Vec<(Blk, usize)> = vec![]; // (block, requested size)
                if drain_shape && me == 0 {
                    // wait (as a blocked thread, so the others run) until thread 1 has set the stage
                    while !phase1_done.load(std::sync::atomic::Ordering::SeqCst) {
                        e1::blocked(0);
                    }
                    t0_started.store(true, std::sync::atomic::Ordering::SeqCst);
                }
                let mut op_no = 0usize;
                let do_free = |b: Blk, req: usize, why: &str, variant: u64| {
                    let (addr, _, _) = b.extent(req);
                    let ord = {
                        let mut l = ledger.lock().unwrap();
                        let lb = l.take(addr);
                        let id = lb.map(|x| x.ordinal).unwrap_or(usize::MAX);
                        l.events.push(format!("t{} free b{}{}", me, id, why));
                        (l.ordinal(addr), id)
                    };
                    let (ord, id) = ord;
                    let r = pool.free_variant(b, variant);
                    let mut l = ledger.lock().unwrap();
                    match r {
                        Ok(()) => {
                            l.frees_ok += 1;
                            l.freed.push(ord);
                        }
                        Err(e) => {
                            l.frees_err += 1;
                            l.events.push(format!("t{} free b{} -> Err({})", me, id, e.chars().take(40).collect::<String>()));
                        }
                    }
                };
                for o in &list {
                    if drain_shape && me == 1 && op_no == 5 {
                        phase1_done.store(true, std::sync::atomic::Ordering::SeqCst);
                        while !t0_started.load(std::sync::atomic::Ordering::SeqCst) {
                            e1::blocked(0);
                        }
                    }
                    op_no += 1;
                    // take anything that was handed to this thread
                    let incoming: Vec<(SendBlk, usize)> = std::mem::take(&mut mailbox.lock().unwrap()[me]);
                    for (b, req) in incoming {
                        let (addr, _, _) = b.0.extent(req);
                        let mut l = ledger.lock().unwrap();
                        if let Some(x) = l.live.iter_mut().find(|x| x.addr == addr) {
                            x.owner = me;
                        }
                        drop(l);
                        held.push((b.0, req));
                    }
                    match o[0] % 4 {
                        0 | 1 => {
                            let size = if one_class { size_fixed } else { sizes_run[(o[1] % 2) as usize] };
                            let r = pool.alloc_variant(size, o[2]);
                            match r {
                                Ok(bs) => {
                                    let bulk = bs.len() > 1;
                                    for b in bs {
                                        let (addr, len, mem) = b.extent(size);
                                        let serial = {
                                            let mut l = ledger.lock().unwrap();
                                            let s = l.on_alloc(me, addr, len, mem, site_own);
                                            let id = l.next_id;
                                            l.events.push(format!("t{} alloc({}){} -> b{}", me, size, if bulk { " [bulk]" } else { "" }, id));
                                            s
                                        };
                                        if mem {
                                            unsafe { std::ptr::write_bytes(addr as *mut u8, serial, len) };
                                        }
                                        held.push((b, size));
                                    }
                                }
                                Err(e) => {
                                    let mut l = ledger.lock().unwrap();
                                    l.allocs_err += 1;
                                    if e.contains("corrupted") {
                                        // (not held against the pool: a popper that lost the race reads the header of
                                        // a block that already belongs to someone else and gives up instead of
                                        // retrying - a spurious refusal, which the statement does not exclude)
                                        l.refused_header_check += 1;
                                    }
                                    let bulk = o[2] % 4 == 3 && matches!(pool, Pool::Secure(_) | Pool::LockFree(_));
                                    l.events.push(format!("t{} alloc({}){} -> Err({})", me, size, if bulk { " [bulk of 2]" } else { "" }, e.chars().take(40).collect::<String>()));
                                    if bulk {
                                        l.bulk_errs += 1;
                                    }
                                }
                            }
                        }
                        2 => {
                            if !held.is_empty() {
                                let (b, req) = held.remove((o[1] as usize) % held.len());
                                do_free(b, req, "", o[2]);
                            }
                        }
                        _ if o[3] % 4 == 0 && matches!(pool, Pool::Secure(_)) => {
                            // integrity walk over the allocation table while other threads allocate and free
                            if let Pool::Secure(p) = &pool {
                                let r = p.validate();
                                let mut l = ledger.lock().unwrap();
                                l.events.push(format!("t{} validate() -> {}", me, if r.is_ok() { "Ok" } else { "Err" }));
                                if let Err(e) = r {
                                    if l.pending.is_none() {
                                        l.pending = Some(Violation::new("pool_reports_corruption", "SecureMemoryPool.validate", format!("validate() failed although every block is used correctly: {}", e)));
                                    }
                                }
                            }
                        }
                        _ => {
                            if !held.is_empty() && handoff_ok {
                                let (b, req) = held.remove((o[1] as usize) % held.len());
                                let n = mailbox.lock().unwrap().len();
                                let to = (me + 1 + (o[2] as usize) % (n - 1)) % n;
                                let (addr, _, _) = b.extent(req);
                                {
                                    let mut l = ledger.lock().unwrap();
                                    let id = l.live.iter().find(|x| x.addr == addr).map(|x| x.ordinal).unwrap_or(usize::MAX);
                                    l.handoffs += 1;
                                    l.events.push(format!("t{} hands b{} to t{}", me, id, to));
                                }
                                mailbox.lock().unwrap()[to].push((SendBlk(b), req));
                            }
                        }
                    }
                }
                phase1_done.store(true, std::sync::atomic::Ordering::SeqCst);
                if me == 0 {
                    t0_started.store(true, std::sync::atomic::Ordering::SeqCst);
                }
                // wind down: free everything still held (blocks left in a mailbox are freed by the main thread)
                while let Some((b, req)) = held.pop() {
                    do_free(b, req, " (end)", 0);
                }
            }));
        }
        let inv_ledger = ledger.clone();
        let inv: e1::Invariant = Box::new(move || {
            let mut l = inv_ledger.lock().unwrap();
            if let Some(v) = l.pending.take() {
                return Some(v);
            }
            check_patterns(&l, site_own.trim_end_matches(".ownership")).map(|mut v| {
                v.site = format!("{}.contents", site_own.trim_end_matches(".ownership"));
                v
            })
        });
        let sched = cx.src.chan("sched");
        let res = e1::run_threads(&sched, &e1cfg, bodies, Some(inv));
        {
            let l = ledger.lock().unwrap();
            for e in &l.events {
                cx.ev(e);
            }
        }
        if std::env::var_os("ZSIM_DEBUG_SCHED").is_some() {
            for s in e1::render_log(&res.log, 400) {
                cx.ev(format!("  sched {}", s));
            }
        }
        cx.trace.feed(res.hash);
        cx.steps = res.steps;
        cx.abandoned = res.abandoned;
        cx.probe_n("context_switches", res.switches);
        cx.probe_n("preempt_between_load_and_rmw", res.window_preempts);
        cx.probe_n("lock_waits", res.lock_waits);
        cx.nontrivial = res.window_preempts >= 1 || res.switches >= 2;
        if let Some(v) = res.violation {
            for s in e1::render_log(&res.log, 400).iter().rev().take(40).rev() {
                cx.ev(format!("  sched {}", s));
            }
            cx.violate(&v.class, &v.site, v.detail);
            return;
        }
        if res.abandoned {
            cx.probe("abandoned_at_step_cap");
            return;
        }
        // ---- quiescence: all threads are done.  Free what is stranded in mailboxes.
        let stranded: Vec<(SendBlk, usize)> = mailbox.lock().unwrap().iter_mut().flat_map(|v| v.drain(..)).collect();
        for (b, req) in stranded {
            let (addr, _, _) = b.0.extent(req);
            let ord = {
                let mut l = ledger.lock().unwrap();
                l.take(addr);
                l.ordinal(addr)
            };
            match pool.free(b.0) {
                Ok(()) => {
                    let mut l = ledger.lock().unwrap();
                    l.frees_ok += 1;
                    l.freed.push(ord);
                }
                Err(_) => ledger.lock().unwrap().frees_err += 1,
            }
        }
        let (allocs_ok, allocs_err, frees_ok, frees_err) = {
            let l = ledger.lock().unwrap();
            cx.probe_n("handoffs", l.handoffs);
            cx.probe_n("blocks_reused", l.reuse_hits);
            cx.probe_n("alloc_refused", l.allocs_err);
            cx.probe_n("alloc_refused_by_stale_header_check", l.refused_header_check);
            (l.allocs_ok + preseed as u64, l.allocs_err, l.frees_ok + preseed as u64, l.frees_err)
        };
        let site_cnt = format!("{}.counters", kind.name());
        // ---- counters add up
        match &pool {
            Pool::Secure(p) => {
                let s = p.stats();
                cx.probe_n("secure_global_stack_pops", s.cross_thread_steals);
                if s.alloc_count != allocs_ok + allocs_err || s.dealloc_count != frees_ok + frees_err {
                    cx.violate("counters_do_not_add_up", &site_cnt, format!("stats alloc_count={} dealloc_count={} but {} allocate calls and {} frees were made", s.alloc_count, s.dealloc_count, allocs_ok + allocs_err, frees_ok + frees_err));
                    return;
                }
                if s.pool_hits + s.pool_misses != s.alloc_count {
                    cx.violate("counters_do_not_add_up", &site_cnt, format!("pool_hits {} + pool_misses {} != alloc_count {}", s.pool_hits, s.pool_misses, s.alloc_count));
                    return;
                }
                if let Err(e) = p.validate() {
                    cx.violate("pool_reports_corruption", "SecureMemoryPool.validate", format!("validate() at quiescence failed: {}", e));
                    return;
                }
                if s.double_free_detected != 0 || s.corruption_detected != 0 {
                    cx.violate("pool_reports_corruption", &site_cnt, format!("double_free_detected={} corruption_detected={} although every block was freed exactly once", s.double_free_detected, s.corruption_detected));
                    return;
                }
            }
            Pool::LockFree(p) => {
                if let Some(s) = p.stats() {
                    use std::sync::atomic::Ordering::Relaxed;
                    let (fd, sd) = (s.fast_deallocs.load(Relaxed), s.skip_deallocs.load(Relaxed));
                    // a bulk request that fails part-way gives back the one block it had taken: that is
                    // a deallocation the caller did not make (at most one per failed bulk of 2)
                    let bulk_errs = ledger.lock().unwrap().bulk_errs;
                    if fd + sd < frees_ok || fd + sd > frees_ok + bulk_errs {
                        cx.violate("counters_do_not_add_up", &site_cnt, format!("fast_deallocs={} + skip_deallocs={} but {} frees succeeded ({} bulk requests failed)", fd, sd, frees_ok, bulk_errs));
                        return;
                    }
                    cx.probe_n("lockfree_skip_list_frees", sd);
                }
            }
            Pool::Fixed(p) => {
                if let Some(s) = p.stats() {
                    use std::sync::atomic::Ordering::Relaxed;
                    let (a, d, act) = (s.allocations.load(Relaxed), s.deallocations.load(Relaxed), s.active_blocks.load(Relaxed));
                    if a != allocs_ok || d != frees_ok || act != 0 {
                        cx.violate("counters_do_not_add_up", &site_cnt, format!("allocations={} deallocations={} active_blocks={} but {} allocations and {} frees succeeded", a, d, act, allocs_ok, frees_ok));
                        return;
                    }
                }
            }
            Pool::Basic(p) => {
                let s = p.stats();
                if s.alloc_count != allocs_ok + allocs_err || s.dealloc_count != frees_ok + frees_err || s.pool_hits + s.pool_misses != s.alloc_count {
                    cx.violate("counters_do_not_add_up", &site_cnt, format!("alloc_count={} dealloc_count={} hits={} misses={} vs {} allocs / {} frees", s.alloc_count, s.dealloc_count, s.pool_hits, s.pool_misses, allocs_ok + allocs_err, frees_ok + frees_err));
                    return;
                }
            }
            Pool::FiveLockFree(_) | Pool::FiveMutex(_) => {
                // every block is free now: the bytes the pool reports as sitting in its free structures
                // are exactly the bytes it has carved so far
                let st = match &pool {
                    Pool::FiveLockFree(p) => p.stats(),
                    Pool::FiveMutex(p) => p.stats(),
                    _ => unreachable!(),
                };
                if frees_err == 0 && st.fragment_size != st.used_memory {
                    cx.violate("counters_do_not_add_up", &site_cnt, format!("every block has been freed, but fragment_size={} and used_memory={} ({} allocations, {} frees)", st.fragment_size, st.used_memory, allocs_ok, frees_ok));
                    return;
                }
            }
            _ => {}
        }
        // ---- drain: the free structures are well formed and serve every freed block at most once
        let site_drain = format!("{}.drain", kind.name());
        let known_blocks = ledger.lock().unwrap().ordinals.len();
        let sizes: Vec<usize> = if one_class { vec![size_fixed] } else { sizes_run.to_vec() };
        let mut drained: Vec<Blk> = vec![];
        let mut recovered = 0usize;
        // (blocks that a failed bulk request took and gave back are in the free structure without
        // the ledger ever having seen them: they look fresh)
        let unseen = ledger.lock().unwrap().bulk_errs as usize;
        'drain: for &size in &sizes {
            let mut fresh_seen = 0;
            for _ in 0..(known_blocks + 3 + unseen) {
                match pool.alloc(size) {
                    Ok(b) => {
                        let (addr, len, mem) = b.extent(size);
                        let mut l = ledger.lock().unwrap();
                        let was_known = l.ordinals.contains_key(&addr);
                        let serial = l.on_alloc(usize::MAX, addr, len, mem, &site_drain);
                        if let Some(v) = l.pending.take() {
                            drop(l);
                            cx.violate(&v.class, &site_drain, format!("while draining after quiescence: {}", v.detail));
                            drained.push(b);
                            break 'drain;
                        }
                        drop(l);
                        if mem {
                            unsafe { std::ptr::write_bytes(addr as *mut u8, serial, len) };
                        }
                        drained.push(b);
                        if was_known {
                            recovered += 1;
                        } else {
                            fresh_seen += 1;
                            if fresh_seen >= 2 + unseen {
                                break;
                            }
                        }
                    }
                    Err(_) => break,
                }
            }
        }
        if !cx.failed() {
            let l = ledger.lock().unwrap();
            if let Some(v) = check_patterns(&l, &site_drain) {
                drop(l);
                cx.violate(&v.class, &site_drain, v.detail);
            }
        }
        cx.probe_n("blocks_recovered_by_drain", recovered as u64);
        // lost blocks: only for pools whose free structure is global and is searched before fresh memory is carved
        // (SecureMemoryPool without per-thread caches: every freed chunk is on the shared stack, which is
        // searched before a new chunk is made)
        let secure_no_cache = kind == Kind::Secure && desc.contains("local_cache_size=0 ");
        if !cx.failed() && frees_err == 0 && ((matches!(kind, Kind::LockFree | Kind::FiveLockFree | Kind::FiveMutex) && one_class) || secure_no_cache) {
            let freed_now = ledger.lock().unwrap().freed.len();
            // requests above the five-level pools' max_fast_block_size (256) take the "huge" path
            let huge = matches!(kind, Kind::FiveLockFree | Kind::FiveMutex) && (size_fixed + 7) / 8 * 8 > 256;
            // ... and requests above LockFreeMemoryPool's fast-bin threshold (8192) its "skip list" path
            let skip = kind == Kind::LockFree && size_fixed > 8192;
            let site_drain = if huge { format!("{}.huge", site_drain) } else if skip { format!("{}.skip_list", site_drain) } else { site_drain.clone() };
            if freed_now > 0 {
                cx.violate("block_lost", &site_drain, format!("{} freed block(s) were never served again although the class was drained until fresh memory appeared", freed_now));
            }
        }
        // release what the drain took (keeps the pool's own Drop honest)
        for b in drained {
            let (addr, _, _) = b.extent(0);
            ledger.lock().unwrap().take(addr);
            let _ = pool.free(b);
        }
        // the fixed-capacity pool owns a fixed number of blocks and every one of them is free now:
        // with one size in use it must be able to hand out exactly that many again
        if let (Pool::Fixed(p), true, false) = (&pool, one_class && frees_err == 0, cx.failed()) {
            let total = p.total_capacity() / 64;
            let mut got: Vec<FixedCapacityAllocation> = vec![];
            let mut refusal = String::new();
            for _ in 0..total + 1 {
                match p.allocate(size_fixed) {
                    Ok(b) => got.push(b),
                    Err(e) => {
                        refusal = e.to_string();
                        break;
                    }
                }
            }
            if got.len() != total {
                cx.violate("block_lost", &format!("{}.capacity", kind.name()), format!("with every block freed the pool of {} blocks hands out {} ({})", total, got.len(), refusal.chars().take(60).collect::<String>()));
            }
            drop(got);
        }
    }
}

/// Sequential spill check for SecureMemoryPool: n chunks freed by one thread must all be
/// reusable by that thread (its cache plus the shared stack) before new memory is created.
struct SecureSpill;

impl Scenario for SecureSpill {
    fn name(&self) -> String {
        "SecureMemoryPool/seq-spill".into()
    }
    fn budget(&self, tier: Tier) -> u64 {
        match tier {
            Tier::Quick => 400,
            Tier::Thorough => 20_000,
        }
    }
    fn run(&self, cx: &mut Run) {
        let cfg = cx.src.chan("cfg");
        let cache = 1 + cfg.below(3) as usize;
        let n = 1 + cfg.below(5) as usize;
        let out: Arc<Mutex<(Vec<String>, Option<Violation>)>> = Arc::new(Mutex::new((vec![], None)));
        let out2 = out.clone();
        let body: e1::Body = Box::new(move |_| {
            let mut c = SecurePoolConfig::new(32, 64, 8).with_local_cache_size(cache);
            c.enable_huge_pages = false;
            c.enable_numa_awareness = false;
            c.enable_hot_cold_separation = false;
            let pool = SecureMemoryPool::new(c).expect("pool");
            let mut ev = vec![format!("local_cache_size={} n={}", cache, n)];
            let held: Vec<SecurePooledPtr> = (0..n).filter_map(|_| pool.allocate().ok()).collect();
            let got = held.len();
            drop(held);
            let before = pool.stats();
            let again: Vec<SecurePooledPtr> = (0..got).filter_map(|_| pool.allocate().ok()).collect();
            let after = pool.stats();
            ev.push(format!("allocated {}, freed {}, allocated {} again: pool_misses {} -> {}", got, got, again.len(), before.pool_misses, after.pool_misses));
            let mut v = None;
            if after.pool_misses != before.pool_misses {
                v = Some(Violation::new("block_lost", "SecureMemoryPool.spill", format!("{} chunks were freed on this thread (local_cache_size={}), but re-allocating {} created {} new chunk(s): freed chunks were lost", got, cache, got, after.pool_misses - before.pool_misses)));
            }
            drop(again);
            let mut g = out2.lock().unwrap();
            g.0 = ev;
            g.1 = v;
        });
        let sched = cx.src.chan("sched");
        let res = e1::run_threads(&sched, &E1Cfg { max_steps: 100_000, switch_num: 0, switch_den: 1, ..Default::default() }, vec![body], None);
        let g = out.lock().unwrap();
        for e in &g.0 {
            cx.ev(e);
        }
        cx.nontrivial = n > cache;
        cx.steps = n as u64 * 3;
        if let Some(v) = res.violation.or(g.1.clone()) {
            cx.violate(&v.class, &v.site, v.detail);
        }
    }
}

fn main() {
    let mut spec = CheckSpec::new(
        "C08",
        "exploration",
        "seeded schedules (E1 baton scheduler over real threads; scheduling point at every shimmed atomic load/store/RMW/CAS and lock of the pool modules) x seeded per-thread allocate/free/hand-off sequences; \
         non-trivial = at least one pre-emption between an atomic load and the same thread's next RMW/CAS/store on that address, or >= 2 context switches; distinct = distinct hash of (operation results by block ordinal, schedule trace)",
    );
    spec.assumptions = vec![
        "sequentially consistent interleavings only (no weak-memory reorderings)".into(),
        "non-atomic reads of free-list links inside blocks are not scheduling points (they sit between the shimmed load and CAS, which are)".into(),
        "DashMap and the thread_local crate inside SecureMemoryPool have no scheduling points".into(),
        "the global size-class pools are process-global state shared by all runs of a worker and are not exercised".into(),
    ];
    spec.components = vec![
        ("memory::secure_pool::SecureMemoryPool (+LockFreeStack, LocalCache)", "real"),
        ("memory::lockfree_pool::LockFreeMemoryPool", "real"),
        ("memory::five_level_pool::{LockFreePool, MutexBasedPool}", "real"),
        ("memory::fixed_capacity_pool::FixedCapacityMemoryPool", "real"),
        ("memory::pool::MemoryPool", "real"),
        ("OS threads", "real, one at a time under the baton scheduler"),
        ("global size-class pools", "not run"),
    ];
    spec.init = zsim_props::install_hooks;
    for kind in [Kind::Secure, Kind::LockFree, Kind::FiveLockFree, Kind::FiveMutex, Kind::Fixed, Kind::Basic] {
        spec.scenarios.push(Box::new(PoolScenario { kind }));
    }
    spec.scenarios.push(Box::new(SecureSpill));
    zsim_core::driver::main(spec);
}
