//! C15 — decoders and loaders reject malformed bytes with an error, never a crash.
//!
//! Engine E4 with the "damaged stored bytes" case generator: every run takes ONE parser of
//! the scenario's family, lets the REAL encoder produce a valid encoding of a seeded value,
//! and then feeds the parser
//!   (1) the intact encoding,
//!   (2) EVERY truncation of it (all lengths up to 4 KiB, then every 512-byte boundary +-1),
//!   (2b) every one of its first HDR_STEP bytes exactly one up and one down (count/index/length
//!       fields become count+-1: the `>` vs `>=` mistakes),
//!   (3) a seeded list of damaged copies (substitute 0x00/0xFF/bit flips/random/+-1, maximise
//!       aligned and unaligned 2/4/8-byte windows and var-ints, plausible-but-large length
//!       values, appended garbage, zero-filled tails, bytes deleted / inserted in the middle,
//!       the image once more behind itself, 1-3 of these combined),
//! each with the expected-length argument equal to / below / above the truth where the API
//! takes one.
//!
//! Execution (DESIGN 3.6 step 3): the worker only PLANS the run (encoder + case list); all cases
//! are executed by a case-runner child (`c15 c15child ...`, same binary, same tapes) under the
//! inherited 2 GiB address-space limit, a per-case CPU budget (RLIMIT_CPU) and a wall-clock
//! backstop.  The child reports one line per finished case; a case that kills it is known
//! exactly, the batch resumes after it.  Panics are caught per case inside the child.
//!
//! Oracle, exactly the property statement: `Ok(anything)` and `Err` pass.  Violations:
//!   panic        site = zipora source location (or innermost zipora function + message class
//!                when the panic is raised inside std, e.g. `capacity overflow`)
//!   alloc_limit  the process died on a failed allocation; site = innermost zipora function
//!                that requested it (captured by an allocator wrapper in the child)
//!   crash:SIG..  / stack_overflow / hang (CPU budget or wall backstop exceeded); site = parser
//! A run collects every finding of its cases and reports one of them (seeded pick), so a frequent
//! finding does not hide a rare one in the same run for good.
//!
//! Sessions (`*/session`, `*/stream`): the "parser" is ONE reader object and a seeded script of
//! calls that is carried on after every refused call (the property covers the calls made on an
//! object after it returned Err), with every accessor of the reader called after every step.
//! Stateful decoders (`&mut self`) are one object for all images of a run.

use std::cell::RefCell;
use std::collections::{BTreeMap, BTreeSet, HashMap, HashSet};
use std::io::Cursor;
use std::panic::{catch_unwind, AssertUnwindSafe};
use std::path::PathBuf;
use std::rc::Rc;
use std::sync::Arc;

use zsim_core::rng::Rng;
use zsim_core::{Chan, CheckSpec, Run, Scenario, Tier};

// ---------------------------------------------------------------------------------------
// engine

/// Decode one (possibly damaged) image with one expected-length argument.
/// Returns true for `Ok(..)`, false for `Err(..)`.  Panics are caught by the engine.
type Dec = Box<dyn Fn(&[u8], usize) -> bool>;

struct Prepared {
    /// parser under test, e.g. `HuffmanTree::deserialize`
    target: String,
    /// valid encoding produced by the real encoder
    bytes: Vec<u8>,
    /// the true expected-length argument, if the API takes one
    truth: Option<usize>,
    /// is Ok-vs-Err a function of the bytes alone (false where the parser iterates a
    /// RandomState HashMap, so the verdict may differ between processes; then Ok/Err is
    /// not written into the event trace)
    stable: bool,
    decode: Dec,
}

struct Scratch {
    dir: PathBuf,
}

impl Scratch {
    fn new(seed: u64) -> Scratch {
        let dir = std::env::temp_dir().join(format!("zsim-c15-{:016x}-{}", seed, std::process::id()));
        let _ = std::fs::remove_dir_all(&dir);
        let _ = std::fs::create_dir_all(&dir);
        Scratch { dir }
    }
    fn path(&self, name: &str) -> PathBuf {
        self.dir.join(name)
    }
    fn put(&self, name: &str, bytes: &[u8]) -> PathBuf {
        let p = self.path(name);
        let _ = std::fs::write(&p, bytes);
        p
    }
}

impl Drop for Scratch {
    fn drop(&mut self) {
        let _ = std::fs::remove_dir_all(&self.dir);
    }
}

type Prep = fn(&Chan, &Rc<Scratch>) -> Result<Prepared, String>;

struct Family {
    name: &'static str,
    quick: u64,
    thorough: u64,
    /// planned damaged-copy operations per run
    ops: u64,
    /// expensive parser (tens of ms per call): truncations are tried with the true length argument only
    slow: bool,
    /// how many leading bytes are each tried one up and one down (HDR_STEP; HDR_STEP_SLOW for expensive parsers;
    /// 0 for the FSE frames: their first field is the unvalidated output size of a known finding, and every
    /// step of its upper bytes is a 65 K .. 16 M symbol decode)
    hdr: usize,
    prepare: Prep,
}

const ZIPORA_DIRS: [&str; 22] = [
    "algorithms", "blob_store", "cache", "compression", "concurrency", "config", "containers", "dev_infrastructure", "entropy", "error", "error_recovery", "ffi", "fsa", "hash_map", "io", "memory", "simd", "string", "succinct", "statistics",
    "system", "thread",
];

/// Stable identity of a panic: the zipora source location if the panic was raised there,
/// otherwise (panic raised inside std/alloc on behalf of the parser) parser + message class.
fn panic_site(target: &str, loc: &str, msg: &str) -> String {
    if is_zipora_loc(loc) {
        return loc.to_string();
    }
    // the child reports `fn:<innermost zipora function>` for panics raised inside std/alloc
    let target = match loc.strip_prefix("fn:") {
        Some(f) if !f.is_empty() => f.to_string(),
        _ => coarse(target),
    };
    let m: String = msg.chars().take(48).map(|c| if c.is_ascii_digit() { '#' } else if c == ' ' { '_' } else { c }).collect();
    format!("{}!{}", target, m)
}

fn trunc_points(n: usize) -> Vec<usize> {
    let mut v: Vec<usize> = (0..n.min(4097)).collect();
    if n > 4097 {
        let mut k = 4096 + 512;
        while k < n + 512 {
            for c in [k - 1, k, k + 1] {
                if c > 4096 && c < n {
                    v.push(c);
                }
            }
            k += 512;
        }
        v.dedup();
    }
    v
}

const KINDS: [&str; 17] = ["sub00", "subFF", "flip7", "rand", "flipbit", "maxwin", "maxwin_u", "bigwin", "maxvar", "append", "trunc", "zerotail", "inc", "dec", "delete", "insert", "selfcat"];
/// `CaseSpec::kind` of the intact image and of an enumerated truncation
const K_INTACT: usize = KINDS.len();
const K_TRUNC: usize = KINDS.len() + 1;
/// ... and of an enumerated off-by-one step of a header byte
const K_STEP: usize = KINDS.len() + 2;
/// the first HDR_STEP bytes of every image are each tried one up and one down (expensive parsers: HDR_STEP_SLOW)
const HDR_STEP: usize = 16;
const HDR_STEP_SLOW: usize = 6;

fn apply_one(v: &mut Vec<u8>, kind: usize, pos_raw: u64, aux: u64, val: u64) -> String {
    let n = v.len();
    let pos = if n == 0 { 0 } else { (pos_raw % n as u64) as usize };
    match kind {
        0 | 1 | 2 | 3 | 4 => {
            if n == 0 {
                return format!("{}@-", KINDS[kind]);
            }
            v[pos] = match kind {
                0 => 0x00,
                1 => 0xFF,
                2 => v[pos] ^ 0x80,
                3 => val as u8,
                _ => v[pos] ^ (1 << (aux % 8)),
            };
            format!("{}@{}", KINDS[kind], pos)
        }
        5 | 6 | 7 => {
            let w = if kind == 7 { [4usize, 8][(aux % 2) as usize] } else { [2usize, 4, 8][(aux % 3) as usize] };
            if n < w {
                return format!("{}{}@-", KINDS[kind], w);
            }
            let p = if kind == 5 { ((pos_raw % (n / w) as u64) as usize) * w } else { (pos_raw % (n - w + 1) as u64) as usize };
            if kind == 7 {
                let big: u64 = [0x7FFF_FFFF, 1 << 28, 0x0100_0000, 0xFFFF, 0x7FFF_FFFF_FFFF_FFFF, 1 << 33][(val % 6) as usize];
                let le = big.to_le_bytes();
                for i in 0..w {
                    v[p + i] = le[i];
                }
                format!("bigwin{}@{}={:#x}", w, p, if w == 4 { big & 0xFFFF_FFFF } else { big })
            } else {
                for i in 0..w {
                    v[p + i] = 0xFF;
                }
                format!("{}{}@{}", KINDS[kind], w, p)
            }
        }
        8 => {
            // a maximal var-int written over the bytes at pos
            let k = [1usize, 2, 5, 9, 10][(aux % 5) as usize];
            for i in 0..k {
                let b = if i + 1 < k { 0xFF } else if k == 10 { 0x01 } else { 0x7F };
                if pos + i < v.len() {
                    v[pos + i] = b;
                } else {
                    v.push(b);
                }
            }
            format!("maxvar{}@{}", k, pos)
        }
        9 => {
            let k = 1 + (aux % 40) as usize;
            let mut r = Rng::new(val);
            let fill = val % 3;
            for _ in 0..k {
                v.push(match fill {
                    0 => r.below(256) as u8,
                    1 => 0xFF,
                    _ => 0x00,
                });
            }
            format!("append{}x{}", k, ["rnd", "FF", "00"][fill as usize])
        }
        10 => {
            v.truncate(pos);
            format!("trunc@{}", pos)
        }
        11 => {
            for b in v.iter_mut().skip(pos) {
                *b = 0;
            }
            format!("zerotail@{}", pos)
        }
        // off-by-one values: a count, index or length field becomes exactly one more / one less
        12 | 13 => {
            if n == 0 {
                return format!("{}@-", KINDS[kind]);
            }
            v[pos] = if kind == 12 { v[pos].wrapping_add(1) } else { v[pos].wrapping_sub(1) };
            format!("{}@{}", KINDS[kind], pos)
        }
        // bytes lost in the middle: everything behind them moves to lower offsets
        14 => {
            if n == 0 {
                return "delete@-".to_string();
            }
            let k = (1 + (aux % 8) as usize).min(n - pos);
            v.drain(pos..pos + k);
            format!("delete{}@{}", k, pos)
        }
        // bytes gained in the middle (a duplicated chunk, zeros or ones): everything behind them moves up
        15 => {
            let k = 1 + (aux % 8) as usize;
            let fill = (val % 3) as usize;
            let ins: Vec<u8> = match fill {
                0 => (0..k).map(|i| v.get(pos + i).copied().unwrap_or(0)).collect(),
                1 => vec![0x00; k],
                _ => vec![0xFF; k],
            };
            v.splice(pos..pos, ins);
            format!("insert{}x{}@{}", k, ["dup", "00", "FF"][fill], pos)
        }
        // a second frame straight behind the first: the whole image (or its first `pos` bytes) once more
        _ => {
            let m = if aux % 2 == 0 { n } else { pos };
            let head = v[..m].to_vec();
            v.extend_from_slice(&head);
            format!("selfcat{}", m)
        }
    }
}

/// op = [a, b, c, d] (20 bits each): a = how many mutations (bits 0-2), their kinds (5 bits each,
/// bits 3-17) and the length argument (bits 18-19); b = position; c = window/length choice;
/// d = byte value / garbage seed.
fn mutate(orig: &[u8], op: [u64; 4]) -> (Vec<u8>, String, usize, u64) {
    let [a, b, c, d] = op;
    let nsel = a & 7;
    let nmut = if nsel <= 4 { 1 } else if nsel <= 6 { 2 } else { 3 };
    let mut v = orig.to_vec();
    let mut desc = String::new();
    let mut first_kind = 0;
    for j in 0..nmut {
        let kind = (((a >> (3 + 5 * j)) & 31) % KINDS.len() as u64) as usize;
        if j == 0 {
            first_kind = kind;
        }
        // half of the damage goes to the first 96 bytes, where headers and length fields live
        let pos = if (b >> 19) & 1 == 1 && v.len() > 96 { (b & 0x7FFFF) % 96 } else { b.wrapping_add(j * (c | 1).wrapping_mul(7919)) };
        let aux = c >> (2 * j);
        let val = d.wrapping_add(j * 977);
        if j > 0 {
            desc.push('+');
        }
        desc.push_str(&apply_one(&mut v, kind, pos, aux, val));
    }
    (v, desc, first_kind, (a >> 18) & 3)
}


// ---- where did a failed allocation / foreign panic come from? ---------------------------
//
// The case-runner child wraps the system allocator: when an allocation FAILS (address-space
// limit), the innermost zipora function on the stack is written to stdout before std aborts
// the process, so an `alloc_limit` death gets the requesting function as its site.

struct ProbeAlloc;

static PROBE_ARMED: std::sync::atomic::AtomicBool = std::sync::atomic::AtomicBool::new(false);
static IS_CHILD: std::sync::atomic::AtomicBool = std::sync::atomic::AtomicBool::new(false);

thread_local! {
    static IN_PROBE: std::cell::Cell<bool> = const { std::cell::Cell::new(false) };
}

/// First stack frame that belongs to zipora (symbol names only; the build has no line info).
fn first_zipora_frame() -> Option<String> {
    let bt = std::backtrace::Backtrace::force_capture().to_string();
    for line in bt.lines() {
        let l = line.trim_start();
        let Some(k) = l.find(": ") else { continue };
        if !l[..k].chars().all(|c| c.is_ascii_digit()) || k == 0 {
            continue;
        }
        let sym = &l[k + 2..];
        if !sym.contains("zipora::") || sym.starts_with("c15::") || sym.contains("zsim_") {
            continue;
        }
        // drop the hash suffix and closure noise
        let mut s = sym.to_string();
        if let Some(h) = s.rfind("::h") {
            if s.len() - h == 19 && s[h + 3..].chars().all(|c| c.is_ascii_hexdigit()) {
                s.truncate(h);
            }
        }
        let s = s.replace("::{{closure}}", "").replace(' ', "");
        return Some(s);
    }
    None
}

/// Symbolising a backtrace costs ~40 ms per process; the same failing call path recurs thousands of
/// times.  Raw return addresses (cheap) relative to the image base are hashed and the answer is kept
/// in a small append-only file next to the scratch directories, keyed by the executable's identity.
fn zipora_frame_cached() -> Option<String> {
    let mut buf = [std::ptr::null_mut::<libc::c_void>(); 48];
    let n = unsafe { libc::backtrace(buf.as_mut_ptr(), buf.len() as libc::c_int) } as usize;
    let base = families as usize;
    let mut h: u64 = 0xcbf2_9ce4_8422_2325;
    let mut own = 0;
    for a in buf.iter().take(n) {
        // frames of this executable only (shared libraries are mapped at unrelated random bases)
        let rel = (*a as usize).wrapping_sub(base) as i64;
        if rel.unsigned_abs() < (32 << 20) {
            h = (h ^ rel as u64).wrapping_mul(0x0000_0100_0000_01B3).rotate_left(17);
            own += 1;
        }
    }
    let n = own;
    let exe = std::env::current_exe().ok()?;
    let md = std::fs::metadata(&exe).ok()?;
    let mt = md.modified().ok().and_then(|t| t.duration_since(std::time::UNIX_EPOCH).ok()).map(|d| d.as_nanos()).unwrap_or(0);
    let cache = std::env::temp_dir().join(format!("zsim-c15-symcache-{}-{}.txt", md.len(), mt));
    let key = format!("{:016x}\t", h);
    if n >= 4 {
        if let Ok(t) = std::fs::read_to_string(&cache) {
            for l in t.lines() {
                if let Some(v) = l.strip_prefix(&key) {
                    return if v.is_empty() { None } else { Some(v.to_string()) };
                }
            }
        }
    }
    let f = first_zipora_frame();
    if n >= 4 {
        use std::io::Write;
        if let Ok(mut fh) = std::fs::OpenOptions::new().create(true).append(true).open(&cache) {
            let _ = fh.write_all(format!("{}{}\n", key, f.clone().unwrap_or_default()).as_bytes());
        }
    }
    f
}

fn probe_oom(size: usize) {
    if !PROBE_ARMED.load(std::sync::atomic::Ordering::Relaxed) {
        return;
    }
    let again = IN_PROBE.try_with(|c| c.replace(true)).unwrap_or(true);
    if again {
        return;
    }
    let frame = zipora_frame_cached().unwrap_or_default();
    let line = format!("A\t{}\t{}\n", size, frame);
    unsafe {
        libc::write(1, line.as_ptr() as *const libc::c_void, line.len());
    }
    let _ = IN_PROBE.try_with(|c| c.set(false));
}

/// A single request of this size while parsing an image of at most a few hundred KiB is
/// answered like the address-space limit would answer a slightly larger one: with failure.
/// (Keeps "decompression bombs" from writing a gigabyte before they hit the 2 GiB limit.)
const SINGLE_REQUEST_CAP: usize = 128 << 20;

fn over_cap(size: usize) -> bool {
    size >= SINGLE_REQUEST_CAP && PROBE_ARMED.load(std::sync::atomic::Ordering::Relaxed)
}

unsafe impl std::alloc::GlobalAlloc for ProbeAlloc {
    unsafe fn alloc(&self, l: std::alloc::Layout) -> *mut u8 {
        if over_cap(l.size()) {
            probe_oom(l.size());
            return std::ptr::null_mut();
        }
        let p = unsafe { std::alloc::System.alloc(l) };
        if p.is_null() {
            probe_oom(l.size());
        }
        p
    }
    unsafe fn alloc_zeroed(&self, l: std::alloc::Layout) -> *mut u8 {
        if over_cap(l.size()) {
            probe_oom(l.size());
            return std::ptr::null_mut();
        }
        let p = unsafe { std::alloc::System.alloc_zeroed(l) };
        if p.is_null() {
            probe_oom(l.size());
        }
        p
    }
    unsafe fn realloc(&self, ptr: *mut u8, l: std::alloc::Layout, new_size: usize) -> *mut u8 {
        if over_cap(new_size) {
            probe_oom(new_size);
            return std::ptr::null_mut();
        }
        let p = unsafe { std::alloc::System.realloc(ptr, l, new_size) };
        if p.is_null() {
            probe_oom(new_size);
        }
        p
    }
    unsafe fn dealloc(&self, ptr: *mut u8, l: std::alloc::Layout) {
        unsafe { std::alloc::System.dealloc(ptr, l) }
    }
}

#[global_allocator]
static GLOBAL: ProbeAlloc = ProbeAlloc;

fn is_zipora_loc(loc: &str) -> bool {
    if let Some(rest) = loc.strip_prefix("src/") {
        let first = rest.split(|c| c == '/' || c == '.').next().unwrap_or("");
        return ZIPORA_DIRS.contains(&first);
    }
    false
}

/// `Parser[config]::method<Type>` -> `Parser::method` (fallback identity of a process death)
fn coarse(target: &str) -> String {
    let mut out = String::new();
    let mut depth = 0i32;
    for c in target.chars() {
        match c {
            '[' | '<' | '(' => depth += 1,
            ']' | '>' | ')' => depth -= 1,
            _ if depth == 0 => out.push(c),
            _ => {}
        }
    }
    out
}

// ---- case plan: identical in the worker and in the case-runner child -----------------

#[derive(Clone)]
enum Img {
    Intact,
    Trunc(usize),
    /// byte at this offset one up (true) / one down (false)
    Step(usize, bool),
    /// the little-endian u32 at this offset set to this (small) value and the image cut at its
    /// end by the difference: a length field that is consistent with a shortened last block
    TrimFix(usize, u32),
    /// byte at this offset set to zero (an interior count field emptied)
    Zero(usize),
    Mut([u64; 4]),
}

struct CaseSpec {
    desc: String,
    /// index into KINDS, or K_INTACT, or K_TRUNC, or K_STEP
    kind: usize,
    img: Img,
    len: usize,
    lab: &'static str,
}

struct Plan {
    p: Prepared,
    lens: Vec<(usize, &'static str)>,
    cases: Vec<CaseSpec>,
    n_trunc: usize,
    n_step: usize,
    n_ops: u64,
    pick: usize,
}

enum PlanErr {
    Refused(String),
    EncoderPanicked(String),
}

fn take_panic() -> (String, String) {
    // worker/eval/shrink processes: the driver's hook fills LAST_PANIC; the child fills CHILD_PANIC
    if let Some(x) = zsim_core::e1::LAST_PANIC.with(|l| l.borrow_mut().take()) {
        return x;
    }
    CHILD_PANIC.with(|l| l.borrow_mut().take()).unwrap_or_else(|| ("<unknown>".into(), "<no message>".into()))
}

thread_local! {
    static CHILD_PANIC: RefCell<Option<(String, String)>> = const { RefCell::new(None) };
    /// what a session scenario does with each image (its fixed call script); printed once per run
    static PLAN_NOTE: RefCell<String> = const { RefCell::new(String::new()) };
}

thread_local! {
    /// offsets of interior count/length fields that the family's own `prepare` located in the valid
    /// image (nested records behind the header); each is tried one up, one down and zeroed (step 2d)
    static FIELD_OFFS: RefCell<Vec<usize>> = const { RefCell::new(Vec::new()) };
}

fn set_fields(v: Vec<usize>) {
    FIELD_OFFS.with(|f| *f.borrow_mut() = v);
}

fn set_note(s: String) {
    PLAN_NOTE.with(|n| *n.borrow_mut() = s);
}

/// Draw everything the run needs from the source, in a fixed order.
fn plan(src: &mut zsim_core::Source, fam: &Family, scratch: &Rc<Scratch>) -> Result<Plan, PlanErr> {
    let cfg = src.chan("cfg");
    // if the ENCODER takes the process down, the driver's confirming child shows this line
    if !IS_CHILD.load(std::sync::atomic::Ordering::Relaxed) {
        eprintln!("E4 run: {} encoding a seeded value", fam.name);
    }
    // drawn first so that nothing later shifts it: which of the run's distinct findings is reported
    let pick = cfg.below(1 << 16) as usize;
    set_note(String::new());
    set_fields(Vec::new());
    // zipora's FSE encoder prints debugging lines to stdout; stdout is where the driver (rehash, eval)
    // and the case-runner child report, so it is pointed at /dev/null while the encoder runs
    let prep = {
        use std::io::Write;
        let _ = std::io::stdout().flush();
        let saved = unsafe { libc::dup(1) };
        let null = unsafe { libc::open(b"/dev/null\0".as_ptr() as *const libc::c_char, libc::O_WRONLY) };
        if saved >= 0 && null >= 0 {
            unsafe { libc::dup2(null, 1) };
        }
        let r = catch_unwind(AssertUnwindSafe(|| (fam.prepare)(&cfg, scratch)));
        let _ = std::io::stdout().flush();
        if saved >= 0 && null >= 0 {
            unsafe { libc::dup2(saved, 1) };
        }
        unsafe {
            if saved >= 0 {
                libc::close(saved);
            }
            if null >= 0 {
                libc::close(null);
            }
        }
        r
    };
    let p = match prep {
        Ok(Ok(p)) => p,
        Ok(Err(e)) => return Err(PlanErr::Refused(e.chars().take(120).collect())),
        Err(_) => {
            let (loc, msg) = take_panic();
            return Err(PlanErr::EncoderPanicked(format!("{}: {}", loc, msg.chars().take(120).collect::<String>())));
        }
    };
    let n = p.bytes.len();
    let lens: Vec<(usize, &'static str)> = match p.truth {
        Some(t) => {
            let below = [t.saturating_sub(1), t / 2, 1.min(t), 0][cfg.below(4) as usize];
            let above = [t + 1, t * 2 + 1, t + 1000][cfg.below(3) as usize];
            vec![(t, "eq"), (below, "below"), (above, "above")]
        }
        None => vec![(0, "-")],
    };
    let mut cases = vec![];
    // (1) the intact encoding, every length argument
    for &(len, lab) in &lens {
        cases.push(CaseSpec { desc: "intact".into(), kind: K_INTACT, img: Img::Intact, len, lab });
    }
    // (2) every truncation (expensive parsers: with the true length argument only)
    let cuts = trunc_points(n);
    for &cut in &cuts {
        for &(len, lab) in lens.iter().take(if fam.slow { 1 } else { 3 }) {
            cases.push(CaseSpec { desc: format!("trunc@{}", cut), kind: K_TRUNC, img: Img::Trunc(cut), len, lab });
        }
    }
    let n_trunc = cases.len() - lens.len();
    // (2b) count, index and length fields sit at the front: every one of the first bytes exactly one up
    //      and exactly one down (a field becomes count, count+1, index-1 ...), with the true length argument
    let hdr = n.min(fam.hdr);
    for pos in 0..hdr {
        for up in [true, false] {
            cases.push(CaseSpec { desc: format!("{}@{}", if up { "inc" } else { "dec" }, pos), kind: K_STEP, img: Img::Step(pos, up), len: lens[0].0, lab: lens[0].1 });
        }
    }
    let mut n_step = 2 * hdr;
    // (2c) a length field made consistent with a shortened tail: each 4-aligned u32 among the first
    //      24 bytes that could be the size of the last block is set to 1 and to 3, and the image loses
    //      that many bytes at its end (sums of sizes still match the total length exactly)
    for off in (0..24usize).step_by(4) {
        if off + 4 > n {
            break;
        }
        let old = u32::from_le_bytes([p.bytes[off], p.bytes[off + 1], p.bytes[off + 2], p.bytes[off + 3]]);
        for t in [1u32, 3] {
            if old > t && ((old - t) as usize) < n - (off + 4) {
                cases.push(CaseSpec { desc: format!("trimfix{}@{}", t, off), kind: K_STEP, img: Img::TrimFix(off, t), len: lens[0].0, lab: lens[0].1 });
                n_step += 1;
            }
        }
    }
    // (2d) interior count/length fields of nested records (located by the family's prepare): the first
    //      byte of each one up, one down and zeroed, with the true length argument
    let fields: Vec<usize> = FIELD_OFFS.with(|f| f.borrow().clone());
    for &pos in fields.iter().filter(|&&q| q >= hdr && q < n).take(16) {
        for up in [true, false] {
            cases.push(CaseSpec { desc: format!("field-{}@{}", if up { "inc" } else { "dec" }, pos), kind: K_STEP, img: Img::Step(pos, up), len: lens[0].0, lab: lens[0].1 });
            n_step += 1;
        }
        if p.bytes[pos] > 1 {
            cases.push(CaseSpec { desc: format!("field-zero@{}", pos), kind: K_STEP, img: Img::Zero(pos), len: lens[0].0, lab: lens[0].1 });
            n_step += 1;
        }
    }
    // (3) seeded damaged copies
    let mut ops = src.ops("ops", fam.ops);
    let mut n_ops = 0;
    while let Some(op) = ops.next() {
        let (_img, desc, kind, lensel) = mutate(&p.bytes, op);
        let tries: Vec<(usize, &'static str)> = if lensel == 3 { lens.clone() } else { vec![lens[(lensel as usize) % lens.len()]] };
        for (len, lab) in tries {
            cases.push(CaseSpec { desc: format!("m{} {}", n_ops, desc), kind, img: Img::Mut(op), len, lab });
        }
        n_ops += 1;
    }
    Ok(Plan { p, lens, cases, n_trunc, n_step, n_ops, pick })
}

fn image(p: &Prepared, img: &Img) -> Vec<u8> {
    match img {
        Img::Intact => p.bytes.clone(),
        Img::Trunc(c) => p.bytes[..*c].to_vec(),
        Img::Step(pos, up) => {
            let mut v = p.bytes.clone();
            v[*pos] = if *up { v[*pos].wrapping_add(1) } else { v[*pos].wrapping_sub(1) };
            v
        }
        Img::TrimFix(off, t) => {
            let mut v = p.bytes.clone();
            let old = u32::from_le_bytes([v[*off], v[*off + 1], v[*off + 2], v[*off + 3]]);
            let cut = (old - *t) as usize;
            let n = v.len();
            v.truncate(n - cut);
            v[*off..*off + 4].copy_from_slice(&t.to_le_bytes());
            v
        }
        Img::Zero(pos) => {
            let mut v = p.bytes.clone();
            v[*pos] = 0;
            v
        }
        Img::Mut(op) => mutate(&p.bytes, *op).0,
    }
}

// ---- case-runner child (DESIGN 3.6 step 3) ---------------------------------------------
//
// `c15 c15child <scenario> <tapes.json> <start> <n_cases> <image_len>`: rebuilds the plan from
// the tapes, runs cases start.. in order, one result line per finished case on stdout:
//   `R <idx> o` | `R <idx> e` | `R <idx> p\t<location>\t<message>`   (and `A\t<size>\t<function>` when an allocation failed)
// A case that kills the process leaves no line; the worker sees how far the child got.

fn child_main(fams: &[Family], a: &[String]) -> ! {
    let bad = |m: &str| -> ! {
        println!("MISMATCH {}", m);
        std::process::exit(3)
    };
    if a.len() < 5 {
        bad("usage");
    }
    let fam = match fams.iter().find(|f| f.name == a[0]) {
        Some(f) => f,
        None => bad("no such scenario"),
    };
    let rec: serde_json::Value = match std::fs::read_to_string(&a[1]).ok().and_then(|t| serde_json::from_str(&t).ok()) {
        Some(v) => v,
        None => bad("tapes file"),
    };
    let start: usize = a[2].parse().unwrap_or(0);
    let want_cases: usize = a[3].parse().unwrap_or(usize::MAX);
    let want_len: usize = a[4].parse().unwrap_or(usize::MAX);
    zsim_props::install_hooks();
    std::panic::set_hook(Box::new(|info| {
        let loc = info
            .location()
            .map(|l| {
                let f = l.file();
                let f = match f.find("/src/") {
                    Some(k) => &f[k + 1..],
                    None => f,
                };
                format!("{}:{}", f, l.line())
            })
            .unwrap_or_else(|| "<unknown>".into());
        let msg = if let Some(s) = info.payload().downcast_ref::<&str>() {
            s.to_string()
        } else if let Some(s) = info.payload().downcast_ref::<String>() {
            s.clone()
        } else {
            "<non-string panic>".to_string()
        };
        let msg: String = msg.chars().take(300).map(|c| if c == '\t' || c == '\n' { ' ' } else { c }).collect();
        let loc = if is_zipora_loc(&loc) { loc } else { format!("fn:{}", zipora_frame_cached().unwrap_or_default()) };
        CHILD_PANIC.with(|l| *l.borrow_mut() = Some((loc, msg)));
    }));
    let seed = rec["seed"].as_u64().unwrap_or(0);
    let mut src = zsim_core::Source::from_tapes(seed, &rec["tapes"]);
    IS_CHILD.store(true, std::sync::atomic::Ordering::Relaxed);
    let scratch = Rc::new(Scratch::new(seed));
    let pl = match plan(&mut src, fam, &scratch) {
        Ok(pl) => pl,
        Err(_) => bad("plan failed in the child"),
    };
    if pl.cases.len() != want_cases || pl.p.bytes.len() != want_len {
        bad(&format!("child planned {} cases over {} bytes, worker {} over {}", pl.cases.len(), pl.p.bytes.len(), want_cases, want_len));
    }
    let timing = std::env::var("C15_TIMING").is_ok();
    let t0 = std::time::Instant::now();
    // from here on a failed (or absurdly large) allocation is reported with its requesting function
    PROBE_ARMED.store(true, std::sync::atomic::Ordering::Relaxed);
    for i in start..pl.cases.len() {
        let c = &pl.cases[i];
        let img = image(&pl.p, &c.img);
        arm_cpu_limit();
        let r = catch_unwind(AssertUnwindSafe(|| (pl.p.decode)(&img, c.len)));
        match r {
            Ok(true) => println!("R {} o", i),
            Ok(false) => println!("R {} e", i),
            Err(_) => {
                let (loc, msg) = take_panic();
                println!("R {} p\t{}\t{}", i, loc, msg);
            }
        }
    }
    if timing {
        eprintln!("C15_TIMING {} {} cases={} us_per_case={:.1}", fam.name, pl.p.target, pl.cases.len() - start, t0.elapsed().as_micros() as f64 / (pl.cases.len() - start).max(1) as f64);
    }
    drop(pl);
    drop(scratch);
    std::process::exit(0);
}

/// One case may use CASE_CPU_SECS (+ up to 1 s of rounding) of CPU; beyond that SIGXCPU ends the child.
/// CPU time rather than wall time, so that the verdict does not depend on how busy the machine is.
const CASE_CPU_SECS: u64 = 3;

fn arm_cpu_limit() {
    unsafe {
        let mut ru: libc::rusage = std::mem::zeroed();
        libc::getrusage(libc::RUSAGE_SELF, &mut ru);
        let used = (ru.ru_utime.tv_sec + ru.ru_stime.tv_sec) as u64 + 1;
        let lim = libc::rlimit { rlim_cur: (used + CASE_CPU_SECS) as libc::rlim_t, rlim_max: libc::RLIM_INFINITY };
        libc::setrlimit(libc::RLIMIT_CPU, &lim);
    }
}

#[derive(Clone, PartialEq)]
enum Res {
    Ok,
    Err,
    Panic(String, String),
    /// the case killed the child: (class, requesting zipora function if known, detail)
    Died(String, String, String),
}

/// wall-clock backstop for a case that blocks without using CPU
const CASE_HANG_SECS: u64 = 30;
const MAX_DEATHS_PER_RUN: usize = 2;

fn sig_name(s: i32) -> String {
    match s {
        libc::SIGSEGV => "SIGSEGV".into(),
        libc::SIGBUS => "SIGBUS".into(),
        libc::SIGABRT => "SIGABRT".into(),
        libc::SIGILL => "SIGILL".into(),
        libc::SIGFPE => "SIGFPE".into(),
        libc::SIGKILL => "SIGKILL".into(),
        x => format!("SIG{}", x),
    }
}

/// Run all cases in child processes; a death is attributed to exactly one case and the
/// batch resumes after it.  `None` = the child could not be driven (harness trouble).
fn run_cases_in_children(fam: &Family, seed: u64, tapes: &serde_json::Value, n_cases: usize, image_len: usize, scratch: &Scratch) -> Option<Vec<Res>> {
    use std::os::unix::process::ExitStatusExt;
    use std::process::{Command, Stdio};
    let exe = std::env::current_exe().ok()?;
    let tapes_path = scratch.path("tapes.json");
    std::fs::write(&tapes_path, serde_json::to_vec(&serde_json::json!({"seed": seed, "tapes": tapes})).ok()?).ok()?;
    let out_path = scratch.path("child.out");
    let err_path = scratch.path("child.err");
    let mut res: Vec<Res> = Vec::with_capacity(n_cases);
    let mut deaths = 0;
    while res.len() < n_cases {
        let start = res.len();
        let out = std::fs::File::create(&out_path).ok()?;
        let err = std::fs::File::create(&err_path).ok()?;
        let mut child = Command::new(&exe)
            .arg("c15child")
            .arg(fam.name)
            .arg(&tapes_path)
            .arg(start.to_string())
            .arg(n_cases.to_string())
            .arg(image_len.to_string())
            .env("RUST_BACKTRACE", "0")
            .stdin(Stdio::null())
            .stdout(Stdio::from(out))
            .stderr(Stdio::from(err))
            .spawn()
            .ok()?;
        let pid = child.id();
        let mut last_size = 0u64;
        let mut last_change = std::time::Instant::now();
        let mut polls = 0u64;
        let status = loop {
            match child.try_wait() {
                Ok(Some(s)) => break Some(s),
                Ok(None) => {
                    polls += 1;
                    if polls % 256 == 0 {
                        let sz = std::fs::metadata(&out_path).map(|m| m.len()).unwrap_or(0);
                        if sz != last_size {
                            last_size = sz;
                            last_change = std::time::Instant::now();
                        } else if last_change.elapsed().as_secs() >= CASE_HANG_SECS {
                            let _ = child.kill();
                            let _ = child.wait();
                            break None;
                        }
                    }
                    std::thread::sleep(std::time::Duration::from_micros(if polls < 40 { 100 } else { 500 }));
                }
                Err(_) => return None,
            }
        };
        // the dead child's scratch directory
        let _ = std::fs::remove_dir_all(std::env::temp_dir().join(format!("zsim-c15-{:016x}-{}", seed, pid)));
        let text = std::fs::read_to_string(&out_path).unwrap_or_default();
        if text.starts_with("MISMATCH") {
            eprintln!("c15: {}", text.trim());
            return None;
        }
        let mut pending_alloc = String::new();
        for line in text.lines() {
            if let Some(a) = line.strip_prefix("A\t") {
                // an allocation failed inside the case that is running now
                pending_alloc = a.splitn(2, '\t').nth(1).unwrap_or("").to_string();
                continue;
            }
            // anything else on stdout is zipora's own chatter (fse.rs prints while encoding)
            let Some(line) = line.strip_prefix("R ") else { continue };
            let mut it = line.splitn(2, ' ');
            let idx: usize = match it.next().and_then(|x| x.parse().ok()) {
                Some(i) => i,
                None => break, // a torn last line
            };
            if idx != res.len() {
                break;
            }
            let rest = it.next().unwrap_or("");
            let r = if rest == "o" {
                Res::Ok
            } else if rest == "e" {
                Res::Err
            } else if let Some(pm) = rest.strip_prefix("p\t") {
                let mut f = pm.splitn(2, '\t');
                Res::Panic(f.next().unwrap_or("<unknown>").to_string(), f.next().unwrap_or("").to_string())
            } else {
                break;
            };
            pending_alloc.clear(); // the case survived its failed allocation (graceful Err)
            res.push(r);
        }
        let clean = matches!(status, Some(s) if s.success());
        if clean && std::env::var("C15_TIMING").is_ok() {
            for l in std::fs::read_to_string(&err_path).unwrap_or_default().lines().filter(|l| l.starts_with("C15_TIMING")) {
                eprintln!("{}", l);
            }
        }
        if clean && res.len() == n_cases {
            break;
        }
        if clean && res.len() == start {
            return None; // exited 0 without progress: cannot happen, do not loop
        }
        if res.len() >= n_cases {
            break;
        }
        if clean {
            continue;
        }
        // the case after the last reported one killed the child
        let stderr_text = std::fs::read_to_string(&err_path).unwrap_or_default();
        for l in stderr_text.lines().filter(|l| l.starts_with("C15_TIMING")) {
            eprintln!("{}", l);
        }
        let tail: String = stderr_text.lines().rev().take(3).collect::<Vec<_>>().into_iter().rev().collect::<Vec<_>>().join(" | ").chars().take(300).collect();
        // keep the text free of checkout-specific paths: `/any/where/src/x.rs` -> `src/x.rs`
        let tail: String = tail.split(' ').map(|w| match w.find("/src/") { Some(k) if w.starts_with('/') => &w[k + 1..], _ => w }).collect::<Vec<_>>().join(" ");
        let (class, detail) = match status {
            None => ("hang".to_string(), format!("no result within {} s", CASE_HANG_SECS)),
            Some(s) => match s.signal() {
                Some(_) if stderr_text.contains("memory allocation of") => {
                    ("alloc_limit".to_string(), stderr_text.lines().find(|l| l.contains("memory allocation of")).unwrap_or("").chars().take(200).collect())
                }
                Some(_) if stderr_text.contains("has overflowed its stack") => ("stack_overflow".to_string(), tail),
                Some(libc::SIGXCPU) => ("hang".to_string(), format!("more than {} s of CPU spent on this one case", CASE_CPU_SECS)),
                Some(sig) => (format!("crash:{}", sig_name(sig)), tail),
                None => (format!("crash:exit{}", s.code().unwrap_or(-1)), tail),
            },
        };
        let hang = class == "hang";
        let frame = if class == "alloc_limit" { pending_alloc.clone() } else { String::new() };
        res.push(Res::Died(class, frame, detail));
        deaths += 1;
        if hang || deaths >= MAX_DEATHS_PER_RUN {
            break; // the remaining cases of this run are not executed
        }
    }
    Some(res)
}

fn engine(cx: &mut Run, fam: &Family) {
    let scratch = Rc::new(Scratch::new(cx.src.seed));
    let pl = match plan(&mut cx.src, fam, &scratch) {
        Ok(pl) => pl,
        Err(PlanErr::Refused(e)) => {
            cx.ev(format!("encoder refused the seeded value: {}", e));
            cx.probe("encoder_refused");
            return;
        }
        Err(PlanErr::EncoderPanicked(e)) => {
            // the ENCODER panicked on a valid value: not what C15 is about; recorded, not judged
            cx.ev(format!("encoder panicked at {}", e));
            cx.probe("encoder_panicked");
            return;
        }
    };
    let p = &pl.p;
    cx.ev(format!("{}: valid encoding of {} bytes, length args {:?}", p.target, p.bytes.len(), pl.lens));
    let note = PLAN_NOTE.with(|n| n.borrow().clone());
    if !note.is_empty() {
        cx.ev(format!("each image gets: {}", note));
    }
    let tapes = cx.src.tapes();
    let res = match run_cases_in_children(fam, cx.src.seed, &tapes, pl.cases.len(), p.bytes.len(), &scratch) {
        Some(r) => r,
        None => {
            cx.ev("case-runner child could not be driven; run abandoned");
            cx.probe("child_trouble");
            cx.abandoned = true;
            return;
        }
    };
    // findings: (class, site) -> (descriptor of first case, message, count)
    let mut finds: BTreeMap<(String, String), (String, String, u64)> = BTreeMap::new();
    let (mut ok, mut err, mut npanic, mut ndied) = (0u64, 0u64, 0u64, 0u64);
    let (mut t_ok, mut t_err, mut t_bad) = (0u64, 0u64, 0u64);
    let (mut s_ok, mut s_err, mut s_bad) = (0u64, 0u64, 0u64);
    let n_lens = pl.lens.len();
    for (i, c) in pl.cases.iter().enumerate() {
        let Some(r) = res.get(i) else { break };
        let what = format!("{} arg={}:{}", c.desc, c.lab, c.len);
        let (outcome, cls): (String, &str) = match r {
            Res::Ok => {
                ok += 1;
                (if p.stable { "ok".into() } else { "no-crash".into() }, if p.stable { "ok" } else { "no-crash" })
            }
            Res::Err => {
                err += 1;
                (if p.stable { "err".into() } else { "no-crash".into() }, if p.stable { "err" } else { "no-crash" })
            }
            Res::Panic(loc, msg) => {
                npanic += 1;
                let site = panic_site(&p.target, loc, msg);
                let e = finds.entry(("panic".to_string(), site.clone())).or_insert_with(|| (what.clone(), msg.clone(), 0));
                e.2 += 1;
                (format!("PANIC {}", site), "panic")
            }
            Res::Died(class, frame, detail) => {
                ndied += 1;
                let site = if frame.is_empty() { coarse(&p.target) } else { frame.clone() };
                let e = finds.entry((class.clone(), site)).or_insert_with(|| (what.clone(), detail.clone(), 0));
                e.2 += 1;
                (format!("DIED {}", class), "died")
            }
        };
        if c.kind == K_TRUNC {
            // truncations: one summary line, plus a line for each of the first few failures
            match r {
                Res::Ok => t_ok += 1,
                Res::Err => t_err += 1,
                _ => {
                    t_bad += 1;
                    if t_bad <= 8 {
                        cx.ev(format!("{} -> {}", what, outcome));
                    }
                }
            }
            cx.trace.feed(match r {
                Res::Ok if p.stable => 1,
                Res::Err if p.stable => 2,
                Res::Ok | Res::Err => 3,
                Res::Panic(..) => 4,
                Res::Died(..) => 5,
            });
        } else if c.kind == K_STEP {
            // header steps: summarised like the truncations
            match r {
                Res::Ok => s_ok += 1,
                Res::Err => s_err += 1,
                _ => {
                    s_bad += 1;
                    if s_bad <= 8 {
                        cx.ev(format!("{} -> {}", what, outcome));
                    }
                }
            }
            cx.trace.feed(match r {
                Res::Ok if p.stable => 11,
                Res::Err if p.stable => 12,
                Res::Ok | Res::Err => 13,
                Res::Panic(..) => 14,
                Res::Died(..) => 15,
            });
        } else {
            cx.ev(format!("{} -> {}", what, outcome));
            let kname = if c.kind == K_INTACT { "intact" } else { KINDS[c.kind] };
            cx.cell(format!("{}/{}/{}", p.target, kname, cls));
        }
        if i + 1 == n_lens + pl.n_trunc && pl.n_trunc > 0 {
            if p.stable {
                cx.ev(format!("truncations: {} cases (every length x args): ok={} err={} crashed={}", pl.n_trunc, t_ok, t_err, t_bad));
            } else {
                cx.ev(format!("truncations: {} cases (every length x args): no-crash={} crashed={}", pl.n_trunc, t_ok + t_err, t_bad));
            }
            cx.cell(format!("{}/trunc/{}", p.target, if t_bad > 0 { "crashed" } else { "clean" }));
        }
        if i + 1 == n_lens + pl.n_trunc + pl.n_step && pl.n_step > 0 {
            if p.stable {
                cx.ev(format!("header bytes one up / one down and trimmed length fields: {} cases: ok={} err={} crashed={}", pl.n_step, s_ok, s_err, s_bad));
            } else {
                cx.ev(format!("header bytes one up / one down and trimmed length fields: {} cases: no-crash={} crashed={}", pl.n_step, s_ok + s_err, s_bad));
            }
            cx.cell(format!("{}/hdrstep/{}", p.target, if s_bad > 0 { "crashed" } else if s_ok > 0 && s_err > 0 { "mixed" } else { "clean" }));
        }
    }
    let executed = res.len() as u64;
    if res.len() < pl.cases.len() {
        cx.ev(format!("run cut after {} of {} cases", res.len(), pl.cases.len()));
    }
    cx.steps = executed;
    cx.nontrivial = executed > n_lens as u64;
    cx.probe_n("cases", executed);
    cx.probe_n("truncation_cases", pl.n_trunc as u64);
    cx.probe_n("header_step_cases", pl.n_step as u64);
    cx.probe_n("mutation_ops", pl.n_ops);
    if p.stable {
        cx.probe_n("cases_ok", ok);
        cx.probe_n("cases_err", err);
    } else {
        cx.probe_n("cases_no_crash_unstable_verdict", ok + err);
    }
    cx.probe_n("cases_panicked", npanic);
    cx.probe_n("cases_killed_the_process", ndied);
    for ((class, _), e) in &finds {
        if class != "panic" {
            cx.fault(class);
            let _ = e;
        }
    }
    if !finds.is_empty() {
        let keys: Vec<&(String, String)> = finds.keys().collect();
        let k = keys[pl.pick % keys.len()];
        let (desc, msg, count) = &finds[k];
        cx.violate(
            &k.0,
            &k.1,
            format!("{} on [{}] (image of {} bytes): {} ({} cases with this identity; {} distinct identities, {} panics and {} process deaths in this run of {} cases)", p.target, desc, p.bytes.len(), msg, count, keys.len(), npanic, ndied, executed),
        );
    }
}

impl Scenario for Family {
    fn name(&self) -> String {
        self.name.to_string()
    }
    fn budget(&self, tier: Tier) -> u64 {
        match tier {
            Tier::Quick => self.quick,
            Tier::Thorough => self.thorough,
        }
    }
    fn run(&self, cx: &mut Run) {
        engine(cx, self)
    }
}

// ---------------------------------------------------------------------------------------
// seeded values

const TEXT: &[u8] = b"the quick brown fox jumps over the lazy dog. the quick brown fox jumps again and again. ";

fn payload_len(cfg: &Chan, lens: &[usize]) -> Vec<u8> {
    let kind = cfg.below(6);
    let len = *cfg.pick(lens);
    let mut r = Rng::new(cfg.below(1 << 30));
    let mut v = Vec::with_capacity(len);
    match kind {
        0 => {
            let k = 2 + r.below(3);
            let base = r.below(200) as u8;
            for _ in 0..len {
                v.push(base + r.below(k) as u8);
            }
        }
        1 => {
            let off = r.below(TEXT.len() as u64) as usize;
            for i in 0..len {
                let c = TEXT[(off + i) % TEXT.len()];
                v.push(if r.below(29) == 0 { r.below(256) as u8 } else { c });
            }
        }
        2 => {
            for _ in 0..len {
                v.push(r.below(256) as u8);
            }
        }
        3 => {
            let c = r.below(256) as u8;
            v.resize(len, c);
        }
        4 => {
            for i in 0..len {
                v.push(if i < 256 { i as u8 } else { r.below(256) as u8 });
            }
        }
        _ => {
            while v.len() < len {
                let c = r.below(256) as u8;
                let run = 1 + r.below(40) as usize;
                for _ in 0..run.min(len - v.len()) {
                    v.push(c);
                }
            }
        }
    }
    v
}

fn payload(cfg: &Chan) -> Vec<u8> {
    payload_len(cfg, &[1, 2, 3, 8, 17, 40, 64, 100, 101, 130, 257, 300, 700, 0, 128, 256])
}

fn es<E: std::fmt::Display>(e: E) -> String {
    e.to_string()
}

// ---------------------------------------------------------------------------------------
// Huffman

use zipora::entropy::huffman::{ContextualHuffmanDecoder, ContextualHuffmanEncoder, HuffmanDecoder, HuffmanEncoder, HuffmanOrder, HuffmanTree, InterleavingFactor};

/// `HuffmanTree::serialize` walks a RandomState HashMap; put the entries into symbol order so
/// that the valid encoding is the same in every process (any order is a valid encoding).
fn canon_huff_tree(ser: &[u8]) -> Vec<u8> {
    if ser.len() < 2 {
        return ser.to_vec();
    }
    let cnt = u16::from_le_bytes([ser[0], ser[1]]) as usize;
    let mut ents: Vec<&[u8]> = vec![];
    let mut off = 2;
    for _ in 0..cnt {
        if off + 2 > ser.len() {
            return ser.to_vec();
        }
        let l = ser[off + 1] as usize;
        let end = off + 2 + (l + 7) / 8;
        if end > ser.len() {
            return ser.to_vec();
        }
        ents.push(&ser[off..end]);
        off = end;
    }
    ents.sort_by_key(|e| e[0]);
    let mut out = ser[..2].to_vec();
    for e in ents {
        out.extend_from_slice(e);
    }
    out.extend_from_slice(&ser[off..]);
    out
}


/// `HuffmanTree::deserialize` rebuilds the decoding tree by walking a RandomState HashMap and
/// refuses "code collisions" it meets on the way, so for a code table that is NOT prefix-free
/// both its verdict and the tree it returns depend on the process.  This predicate (a pure
/// function of the bytes, mirroring the wire format) says whether the table is order-proof:
/// `None` = the bytes do not even parse (zipora refuses them, whatever the order).
/// The harness only goes on to USE a deserialised tree when its table is order-proof; that keeps
/// every crash verdict a function of the image alone.
fn huff_table_order_proof(ser: &[u8]) -> Option<bool> {
    if ser.len() < 2 {
        return None;
    }
    let cnt = u16::from_le_bytes([ser[0], ser[1]]) as usize;
    let mut codes: BTreeMap<u8, Vec<bool>> = BTreeMap::new();
    let mut off = 2;
    for _ in 0..cnt {
        if off + 2 > ser.len() {
            return None;
        }
        let sym = ser[off];
        let l = ser[off + 1] as usize;
        off += 2;
        let nb = (l + 7) / 8;
        if off + nb > ser.len() {
            return None;
        }
        let code: Vec<bool> = (0..l).map(|i| (ser[off + i / 8] >> (i % 8)) & 1 == 1).collect();
        codes.insert(sym, code); // a repeated symbol: the later entry wins, in zipora too
        off += nb;
    }
    if codes.len() <= 1 {
        return Some(true);
    }
    let cs: Vec<&Vec<bool>> = codes.values().collect();
    for (i, a) in cs.iter().enumerate() {
        if a.is_empty() {
            return Some(false);
        }
        for b in cs.iter().skip(i + 1) {
            let k = a.len().min(b.len());
            if a[..k] == b[..k] {
                return Some(false); // equal, or one a prefix of the other
            }
        }
    }
    Some(true)
}

/// The same question for a serialised ContextualHuffmanEncoder (every embedded table).
fn ctx_huff_order_proof(ser: &[u8]) -> Option<bool> {
    let rd = |o: usize| -> Option<usize> { ser.get(o..o.checked_add(4)?).map(|b| u32::from_le_bytes([b[0], b[1], b[2], b[3]]) as usize) };
    if ser.is_empty() || ser[0] > 2 {
        return None;
    }
    let trees = rd(1)?;
    let ctxs = rd(5)?;
    let mut off = 9usize;
    for _ in 0..ctxs {
        if off + 8 > ser.len() {
            return None;
        }
        off += 8;
    }
    let mut all = true;
    for _ in 0..trees {
        let sz = rd(off)?;
        off += 4;
        if off.checked_add(sz)? > ser.len() {
            return None;
        }
        match huff_table_order_proof(&ser[off..off + sz]) {
            None => return None,
            Some(false) => all = false,
            Some(true) => {}
        }
        off += sz;
    }
    Some(all)
}

/// ... and for the HuffmanCompressor frame: tree_size(4) tree orig_size(4) data
fn huff_frame_order_proof(b: &[u8]) -> Option<bool> {
    if b.len() < 8 {
        return None;
    }
    let ts = u32::from_le_bytes([b[0], b[1], b[2], b[3]]) as usize;
    if b.len() < 8usize.checked_add(ts)? {
        return None;
    }
    huff_table_order_proof(&b[4..4 + ts])
}

/// Offsets of the size field and of the symbol-count field of the first `max_trees` per-context trees
/// in a serialised contextual Huffman model (same walk as `canon_ctx_huff`).
fn ctx_huff_fields(ser: &[u8], max_trees: usize) -> Vec<usize> {
    let rd = |o: usize| -> Option<usize> { ser.get(o..o + 4).map(|b| u32::from_le_bytes([b[0], b[1], b[2], b[3]]) as usize) };
    let (Some(trees), Some(ctxs)) = (rd(1), rd(5)) else { return vec![] };
    let mut off = 9usize.saturating_add(ctxs.saturating_mul(8));
    let mut out = vec![];
    for _ in 0..trees.min(max_trees) {
        let Some(sz) = rd(off) else { break };
        if off + 4 + sz > ser.len() {
            break;
        }
        out.push(off);
        if sz >= 2 {
            // u16 symbol count: both bytes (a full 256-symbol tree stores 0x0100)
            out.push(off + 4);
            out.push(off + 5);
        }
        off += 4 + sz;
    }
    out
}

/// Same for `ContextualHuffmanEncoder::serialize`: context map entries by context, trees canonical.
fn canon_ctx_huff(ser: &[u8]) -> Vec<u8> {
    // Not only the entry order: new_order1/new_order2 number the per-context trees in HashMap
    // iteration order.  Renumber them by ascending context (tree 0, the order-0 tree, stays 0).
    let rd = |o: usize| -> Option<usize> { ser.get(o..o + 4).map(|b| u32::from_le_bytes([b[0], b[1], b[2], b[3]]) as usize) };
    let (Some(trees), Some(ctxs)) = (rd(1), rd(5)) else { return ser.to_vec() };
    let mut off = 9;
    if off + ctxs * 8 > ser.len() {
        return ser.to_vec();
    }
    let mut ents: Vec<(u32, usize)> = (0..ctxs).map(|i| (rd(off + i * 8).unwrap() as u32, rd(off + i * 8 + 4).unwrap())).collect();
    ents.sort();
    off += ctxs * 8;
    let mut blobs: Vec<Vec<u8>> = vec![];
    for _ in 0..trees {
        let Some(sz) = rd(off) else { return ser.to_vec() };
        if off + 4 + sz > ser.len() {
            return ser.to_vec();
        }
        blobs.push(canon_huff_tree(&ser[off + 4..off + 4 + sz]));
        off += 4 + sz;
    }
    let mut map: Vec<Option<usize>> = vec![None; trees];
    let mut next = 0;
    if trees > 0 {
        map[0] = Some(0);
        next = 1;
    }
    for &(_, old) in &ents {
        if old < trees && map[old].is_none() {
            map[old] = Some(next);
            next += 1;
        }
    }
    for m in map.iter_mut() {
        if m.is_none() {
            *m = Some(next);
            next += 1;
        }
    }
    let mut out = ser[..9].to_vec();
    for &(c, old) in &ents {
        out.extend_from_slice(&c.to_le_bytes());
        let n = if old < trees { map[old].unwrap() } else { old };
        out.extend_from_slice(&(n as u32).to_le_bytes());
    }
    let mut placed: Vec<&Vec<u8>> = vec![&blobs[0]; trees.max(1)];
    for (old, b) in blobs.iter().enumerate() {
        placed[map[old].unwrap()] = b;
    }
    for b in placed.iter().take(trees) {
        out.extend_from_slice(&(b.len() as u32).to_le_bytes());
        out.extend_from_slice(b);
    }
    out.extend_from_slice(&ser[off..]);
    out
}

fn prep_huffman_tree(cfg: &Chan, _s: &Rc<Scratch>) -> Result<Prepared, String> {
    let data = payload(cfg);
    let enc = HuffmanEncoder::new(&data).map_err(es)?;
    let coded = enc.encode(&data).map_err(es)?;
    let bytes = canon_huff_tree(&enc.tree().serialize());
    let n = data.len();
    Ok(Prepared {
        target: "HuffmanTree::deserialize".into(),
        bytes,
        truth: None,
        stable: false,
        decode: Box::new(move |b, _| {
            let order_proof = huff_table_order_proof(b) == Some(true);
            match HuffmanTree::deserialize(b) {
                Ok(t) => {
                    let _ = t.max_code_length();
                    let _ = t.get_code(b.first().copied().unwrap_or(0));
                    // use the tree the way a reader would: decode the (valid) payload with it
                    if order_proof {
                        let _ = HuffmanDecoder::new(t).decode(&coded, n);
                    }
                    true
                }
                Err(_) => false,
            }
        }),
    })
}

fn prep_huffman_decode(cfg: &Chan, _s: &Rc<Scratch>) -> Result<Prepared, String> {
    let data = payload(cfg);
    let enc = HuffmanEncoder::new(&data).map_err(es)?;
    let bytes = enc.encode(&data).map_err(es)?;
    let dec = HuffmanDecoder::new(HuffmanTree::from_data(&data).map_err(es)?);
    Ok(Prepared { target: "HuffmanDecoder::decode".into(), bytes, truth: Some(data.len()), stable: true, decode: Box::new(move |b, len| dec.decode(b, len).is_ok()) })
}

fn order_of(k: u64) -> (HuffmanOrder, &'static str) {
    match k {
        0 => (HuffmanOrder::Order0, "Order0"),
        1 => (HuffmanOrder::Order1, "Order1"),
        _ => (HuffmanOrder::Order2, "Order2"),
    }
}

fn prep_ctx_huffman_deser(cfg: &Chan, _s: &Rc<Scratch>) -> Result<Prepared, String> {
    let (order, oname) = order_of(cfg.below(3));
    // Order-1/2 encoders serialise one 256-symbol tree per context (hundreds of KiB): keep the value small
    let data = match order {
        HuffmanOrder::Order0 => payload_len(cfg, &[1, 2, 3, 8, 17, 40, 64, 100, 130, 257]),
        HuffmanOrder::Order1 => payload_len(cfg, &[1, 2, 3, 8, 17, 40, 64]),
        HuffmanOrder::Order2 => payload_len(cfg, &[1, 2, 3, 8, 17, 40]),
    };
    let enc = ContextualHuffmanEncoder::new(&data, order).map_err(es)?;
    let coded = enc.encode(&data).map_err(es)?;
    let x2 = if order == HuffmanOrder::Order1 { enc.encode_x2(&data).ok() } else { None };
    let bytes = canon_ctx_huff(&enc.serialize());
    set_fields(ctx_huff_fields(&bytes, 4));
    let n = data.len();
    Ok(Prepared {
        target: format!("ContextualHuffmanEncoder::deserialize[{}]", oname),
        bytes,
        truth: None,
        stable: false,
        decode: Box::new(move |b, _| {
            let order_proof = ctx_huff_order_proof(b) == Some(true);
            match ContextualHuffmanEncoder::deserialize(b) {
                Ok(e) => {
                    let _ = e.tree_count();
                    if order_proof {
                        if let Some(x) = &x2 {
                            let _ = e.decode_x2(x, n);
                        }
                        let _ = ContextualHuffmanDecoder::new(e).decode(&coded, n);
                    }
                    true
                }
                Err(_) => false,
            }
        }),
    })
}

fn prep_ctx_huffman_decode(cfg: &Chan, _s: &Rc<Scratch>) -> Result<Prepared, String> {
    let (order, oname) = order_of(cfg.below(3));
    let data = payload_len(cfg, &[1, 2, 3, 8, 17, 40, 64, 100, 130, 257]);
    let enc = ContextualHuffmanEncoder::new(&data, order).map_err(es)?;
    let bytes = enc.encode(&data).map_err(es)?;
    let dec = ContextualHuffmanDecoder::new(enc);
    Ok(Prepared { target: format!("ContextualHuffmanDecoder::decode[{}]", oname), bytes, truth: Some(data.len()), stable: true, decode: Box::new(move |b, len| dec.decode(b, len).is_ok()) })
}

fn prep_huffman_interleaved(cfg: &Chan, _s: &Rc<Scratch>) -> Result<Prepared, String> {
    let (f, fname) = [(InterleavingFactor::X1, "X1"), (InterleavingFactor::X2, "X2"), (InterleavingFactor::X4, "X4"), (InterleavingFactor::X8, "X8")][cfg.below(4) as usize];
    // every decode_xn call rebuilds a 257 x 4096 decode table (~35 ms): small values, few cases
    let data = payload_len(cfg, &[1, 2, 3, 5, 8, 13]);
    let enc = ContextualHuffmanEncoder::new(&data, HuffmanOrder::Order1).map_err(es)?;
    let bytes = enc.encode_with_interleaving(&data, f).map_err(es)?;
    Ok(Prepared {
        target: format!("ContextualHuffmanEncoder::decode_with_interleaving[{}]", fname),
        bytes,
        truth: Some(data.len()),
        stable: true,
        decode: Box::new(move |b, len| enc.decode_with_interleaving(b, len, f).is_ok()),
    })
}

// ---------------------------------------------------------------------------------------
// FSE

use zipora::compression::dict_zip::compression_types as pz;
use zipora::entropy::fse::{fse_decompress, fse_decompress_with_config, fse_unzip, FseConfig, FseDecoder, FseEncoder};

fn prep_fse(cfg: &Chan, _s: &Rc<Scratch>) -> Result<Prepared, String> {
    let which = cfg.below(5);
    let (conf, cname) = match which {
        0 => (FseConfig::default(), "default"),
        1 => (FseConfig::fast_compression(), "fast"),
        2 => (FseConfig::realtime(), "realtime"),
        3 => (FseConfig { parallel_blocks: Some(2), block_size: 128, ..FseConfig::default() }, "parallel"),
        _ => (FseConfig { table_log: 9, adaptive: false, ..FseConfig::default() }, "log9"),
    };
    let data = payload_len(cfg, &[3, 40, 99, 100, 101, 130, 257, 300, 700]);
    let mut enc = FseEncoder::new(conf.clone()).map_err(es)?;
    let bytes = enc.compress(&data).map_err(es)?;
    let via = cfg.below(5);
    let target = format!("{}[{}]", ["FseDecoder::decompress", "fse_decompress", "FseDecoder(reused)::decompress", "fse_decompress_with_config", "fse_unzip"][via as usize], cname);
    // via 2: ONE decoder object decodes every image of the run, whatever the earlier calls returned
    let shared = RefCell::new(FseDecoder::with_config(conf.clone()).map_err(es)?);
    let calls = std::cell::Cell::new(0u32);
    Ok(Prepared {
        target,
        bytes,
        truth: None,
        stable: true,
        decode: Box::new(move |b, _| match via {
            0 => match FseDecoder::with_config(conf.clone()) {
                Ok(mut d) => d.decompress(b).is_ok(),
                Err(_) => false,
            },
            1 => fse_decompress(b).is_ok(),
            2 => {
                let mut d = shared.borrow_mut();
                calls.set(calls.get() + 1);
                if calls.get() % 4 == 0 {
                    d.reset();
                }
                d.decompress(b).is_ok()
            }
            3 => fse_decompress_with_config(b, conf.clone()).is_ok(),
            _ => fse_unzip(b).is_ok(),
        }),
    })
}

fn prep_pz_fse(cfg: &Chan, _s: &Rc<Scratch>) -> Result<Prepared, String> {
    let (conf, cname) = match cfg.below(3) {
        0 => (pz::FseConfig::default(), "default"),
        1 => (pz::FseConfig::for_pa_zip(), "pa_zip"),
        _ => (pz::FseConfig::fast_pa_zip(), "fast_pa_zip"),
    };
    let data = payload_len(cfg, &[3, 17, 31, 32, 40, 100, 130, 257, 300]);
    let via = cfg.below(4);
    match via {
        3 => {
            // ONE compressor object decodes every image of the run (decompress takes &mut self)
            let mut c = pz::FseCompressor::with_config(conf.clone()).map_err(es)?;
            let bytes = c.compress(&data).map_err(es)?;
            let c = RefCell::new(c);
            let calls = std::cell::Cell::new(0u32);
            Ok(Prepared {
                target: format!("dict_zip::FseCompressor(reused)::decompress[{}]", cname),
                bytes,
                truth: None,
                stable: true,
                decode: Box::new(move |b, _| {
                    let mut c = c.borrow_mut();
                    calls.set(calls.get() + 1);
                    if calls.get() % 4 == 0 {
                        let _ = c.reset();
                    }
                    let ok = c.decompress(b).is_ok();
                    let _ = c.stats().is_some();
                    ok
                }),
            })
        }
        0 => {
            let bytes = pz::apply_fse_compression(&data, &conf).map_err(es)?;
            Ok(Prepared { target: format!("remove_fse_compression[{}]", cname), bytes, truth: None, stable: true, decode: Box::new(move |b, _| pz::remove_fse_compression(b, &conf).is_ok()) })
        }
        1 => {
            let bytes = pz::apply_fse_compression(&data, &pz::FseConfig::for_pa_zip()).map_err(es)?;
            Ok(Prepared {
                target: "fse_unzip_reference".into(),
                bytes,
                truth: Some(data.len()),
                stable: true,
                decode: Box::new(move |b, len| {
                    let mut out = vec![0u8; len];
                    pz::fse_unzip_reference(b, &mut out).is_ok()
                }),
            })
        }
        _ => {
            let mut c = pz::FseCompressor::with_config(conf.clone()).map_err(es)?;
            let bytes = c.compress(&data).map_err(es)?;
            Ok(Prepared {
                target: format!("dict_zip::FseCompressor::decompress[{}]", cname),
                bytes,
                truth: None,
                stable: true,
                decode: Box::new(move |b, _| match pz::FseCompressor::with_config(conf.clone()) {
                    Ok(mut c) => c.decompress(b).is_ok(),
                    Err(_) => false,
                }),
            })
        }
    }
}

// ---------------------------------------------------------------------------------------
// rANS

use zipora::entropy::rans::{ParallelVariant, ParallelX1, ParallelX2, ParallelX4, ParallelX8, Rans64Decoder, Rans64Encoder};

fn prep_rans_p<P: ParallelVariant + 'static>(data: Vec<u8>, name: &str) -> Result<Prepared, String> {
    let mut f = [0u32; 256];
    for &b in &data {
        f[b as usize] += 1;
    }
    let enc = Rans64Encoder::<P>::new(&f).map_err(es)?;
    let bytes = enc.encode(&data).map_err(es)?;
    let dec = Rans64Decoder::<P>::new(&enc);
    Ok(Prepared { target: format!("Rans64Decoder<{}>::decode", name), bytes, truth: Some(data.len()), stable: true, decode: Box::new(move |b, len| dec.decode(b, len).is_ok()) })
}

fn prep_rans(cfg: &Chan, _s: &Rc<Scratch>) -> Result<Prepared, String> {
    let v = cfg.below(4);
    let data = payload_len(cfg, &[1, 2, 3, 7, 8, 9, 17, 40, 100, 130, 257, 300]);
    match v {
        0 => prep_rans_p::<ParallelX1>(data, "X1"),
        1 => prep_rans_p::<ParallelX2>(data, "X2"),
        2 => prep_rans_p::<ParallelX4>(data, "X4"),
        _ => prep_rans_p::<ParallelX8>(data, "X8"),
    }
}

// ---------------------------------------------------------------------------------------
// entropy::dictionary

use zipora::entropy::dictionary::{Dictionary, DictionaryCompressor, DictionaryEntry, OptimizedDictionaryCompressor};

fn canon_dictionary(ser: &[u8]) -> Vec<u8> {
    if ser.len() < 4 {
        return ser.to_vec();
    }
    let cnt = u32::from_le_bytes([ser[0], ser[1], ser[2], ser[3]]) as usize;
    let mut ents: Vec<&[u8]> = vec![];
    let mut off = 4;
    for _ in 0..cnt {
        if off + 2 > ser.len() {
            return ser.to_vec();
        }
        let l = u16::from_le_bytes([ser[off], ser[off + 1]]) as usize;
        let end = off + 2 + l + 8;
        if end > ser.len() {
            return ser.to_vec();
        }
        ents.push(&ser[off..end]);
        off = end;
    }
    ents.sort();
    let mut out = ser[..4].to_vec();
    for e in ents {
        out.extend_from_slice(e);
    }
    out
}

fn text_payload(cfg: &Chan) -> Vec<u8> {
    // repetitive enough for the LZ-style compressors to emit matches
    let reps = 1 + cfg.below(4) as usize;
    let base = payload_len(cfg, &[8, 17, 40, 64, 100]);
    let mut v = vec![];
    for i in 0..=reps {
        v.extend_from_slice(&base);
        v.push(i as u8);
    }
    v
}

fn prep_dictionary(cfg: &Chan, _s: &Rc<Scratch>) -> Result<Prepared, String> {
    match cfg.below(3) {
        0 => {
            let mut d = Dictionary::new();
            let mut r = Rng::new(cfg.below(1 << 30));
            let k = cfg.below(6);
            for i in 0..k {
                let l = r.below(12) as usize;
                let seq: Vec<u8> = (0..l).map(|_| b'a' + r.below(4) as u8).chain([i as u8]).collect();
                d.insert(seq, DictionaryEntry::new(r.below(5000) as u32, 1 + r.below(300) as u32));
            }
            let bytes = canon_dictionary(&d.serialize());
            Ok(Prepared {
                target: "entropy::Dictionary::deserialize".into(),
                bytes,
                truth: None,
                stable: true,
                decode: Box::new(|b, _| match Dictionary::deserialize(b) {
                    Ok(d) => {
                        let _ = d.len();
                        true
                    }
                    Err(_) => false,
                }),
            })
        }
        1 => {
            let data = text_payload(cfg);
            let c = DictionaryCompressor::new(Dictionary::new());
            let bytes = c.compress(&data).map_err(es)?;
            Ok(Prepared { target: "DictionaryCompressor::decompress".into(), bytes, truth: None, stable: true, decode: Box::new(move |b, _| c.decompress(b).is_ok()) })
        }
        _ => {
            let data = text_payload(cfg);
            let c = OptimizedDictionaryCompressor::new(&data).map_err(es)?;
            let bytes = c.compress(&data).map_err(es)?;
            Ok(Prepared { target: "OptimizedDictionaryCompressor::decompress".into(), bytes, truth: None, stable: true, decode: Box::new(move |b, _| c.decompress(b).is_ok()) })
        }
    }
}

// ---------------------------------------------------------------------------------------
// compression::Compressor implementations

use zipora::compression::{Algorithm, Compressor, CompressorFactory};

fn prep_compressor(cfg: &Chan, _s: &Rc<Scratch>) -> Result<Prepared, String> {
    let (alg, aname, stable) = match cfg.below(8) {
        0 => (Algorithm::None, "NoCompressor", true),
        1 => (Algorithm::Zstd(1 + cfg.below(3) as i32 * 4), "ZstdCompressor", true),
        2 => (Algorithm::Huffman, "HuffmanCompressor", false),
        3 => (Algorithm::Rans, "RansCompressor", true),
        4 => (Algorithm::Dictionary, "DictCompressor", true),
        5 => (Algorithm::SimdLz77, "SimdLz77Compressor(as Compressor)", true),
        6 => (Algorithm::Hybrid, "HybridCompressor", false),
        _ => (Algorithm::Lz4, "Lz4Compressor", true),
    };
    let data = if cfg.below(2) == 0 { payload(cfg) } else { text_payload(cfg) };
    let c: Box<dyn Compressor> = CompressorFactory::create(alg, Some(&data)).map_err(es)?;
    let mut bytes = c.compress(&data).map_err(es)?;
    // the Huffman framing embeds HuffmanTree::serialize (HashMap order): canonicalise the tree part
    let canon_at = |bytes: &mut Vec<u8>, at: usize| {
        if bytes.len() >= at + 4 {
            let ts = u32::from_le_bytes([bytes[at], bytes[at + 1], bytes[at + 2], bytes[at + 3]]) as usize;
            if bytes.len() >= at + 4 + ts {
                let c = canon_huff_tree(&bytes[at + 4..at + 4 + ts]);
                bytes[at + 4..at + 4 + ts].copy_from_slice(&c);
            }
        }
    };
    match alg {
        Algorithm::Huffman => canon_at(&mut bytes, 0),
        Algorithm::Hybrid if bytes.first() == Some(&0) && c.decompress(&bytes).is_ok() => canon_at(&mut bytes, 1),
        _ => {}
    }
    let is_huff = matches!(alg, Algorithm::Huffman);
    let is_hybrid = matches!(alg, Algorithm::Hybrid);
    Ok(Prepared {
        target: format!("{}::decompress", aname),
        bytes,
        truth: None,
        stable,
        decode: Box::new(move |b, _| {
            // a damaged Huffman frame whose code table is not prefix-free decodes (or not) depending on
            // HashMap order: such an image is only handed to HuffmanTree::deserialize, not decoded further
            let frame = if is_huff { Some(b) } else if is_hybrid && b.first() == Some(&0) { Some(&b[1..]) } else { None };
            if let Some(f) = frame {
                if !f.is_empty() && huff_frame_order_proof(f) == Some(false) {
                    let ts = u32::from_le_bytes([f[0], f[1], f[2], f[3]]) as usize;
                    return HuffmanTree::deserialize(&f[4..4 + ts]).is_ok();
                }
            }
            c.decompress(b).is_ok()
        }),
    })
}

// ---------------------------------------------------------------------------------------
// SIMD LZ77 and PA-Zip match streams

use zipora::compression::simd_lz77::{compress_with_simd_lz77, decompress_with_simd_lz77, SimdLz77Compressor, SimdLz77CompressorX1, SimdLz77CompressorX2, SimdLz77CompressorX4, SimdLz77CompressorX8, SimdLz77Config};

fn prep_simd_lz77(cfg: &Chan, _s: &Rc<Scratch>) -> Result<Prepared, String> {
    let data = text_payload(cfg);
    let which = cfg.below(9);
    // every compressor object is REUSED for all images of the run (decompress takes &mut self)
    macro_rules! fixed {
        ($T:ident) => {{
            let mut c = $T::new().map_err(es)?;
            let bytes = c.compress(&data).map_err(es)?;
            let c = RefCell::new(c);
            return Ok(Prepared {
                target: format!("{}::decompress", stringify!($T)),
                bytes,
                truth: None,
                stable: true,
                decode: Box::new(move |b, _| {
                    let mut c = c.borrow_mut();
                    let ok = c.decompress(b).is_ok();
                    let _ = c.stats().compression_ratio();
                    ok
                }),
            });
        }};
    }
    match which {
        3 => fixed!(SimdLz77CompressorX2),
        4 => fixed!(SimdLz77CompressorX1),
        5 => fixed!(SimdLz77CompressorX4),
        6 => fixed!(SimdLz77CompressorX8),
        7 => {
            // the process-wide instance behind a Mutex
            let bytes = compress_with_simd_lz77(&data).map_err(es)?;
            return Ok(Prepared { target: "decompress_with_simd_lz77(global)".into(), bytes, truth: None, stable: true, decode: Box::new(move |b, _| decompress_with_simd_lz77(b).is_ok()) });
        }
        _ => {}
    }
    let (conf, cname) = match which {
        0 => (SimdLz77Config::default(), "default"),
        1 => (SimdLz77Config::low_latency(), "low_latency"),
        2 => (SimdLz77Config::high_performance(), "high_performance"),
        _ => (SimdLz77Config::maximum_parallelism(), "maximum_parallelism"),
    };
    let mut c = SimdLz77Compressor::with_config(conf).map_err(es)?;
    let bytes = if which == 8 { c.compress_with_dictionary(&data) } else { c.compress(&data) }.map_err(es)?;
    let c = RefCell::new(c);
    let calls = std::cell::Cell::new(0u32);
    Ok(Prepared {
        target: format!("SimdLz77Compressor::decompress[{}]", cname),
        bytes,
        truth: None,
        stable: true,
        decode: Box::new(move |b, _| {
            let mut c = c.borrow_mut();
            calls.set(calls.get() + 1);
            if calls.get() % 5 == 0 {
                c.reset_stats();
            }
            let ok = c.decompress(b).is_ok();
            let st = c.stats();
            let _ = (st.compression_ratio(), st.avg_decompression_throughput(), st.simd_acceleration_ratio());
            ok
        }),
    })
}

fn seeded_matches(cfg: &Chan) -> Vec<pz::Match> {
    let mut r = Rng::new(cfg.below(1 << 30));
    let k = 1 + cfg.below(12);
    let mut ms = vec![];
    for _ in 0..k {
        let m = match r.below(8) {
            0 => pz::Match::literal(1 + r.below(32) as u8),
            1 => pz::Match::global(r.below(1 << 20) as u32, 6 + r.below(300) as u16),
            2 => pz::Match::rle(r.below(256) as u8, 2 + r.below(32) as u8),
            3 => pz::Match::near_short(2 + r.below(8) as u8, 2 + r.below(4) as u8),
            4 => pz::Match::far1_short(2 + r.below(256) as u16, 2 + r.below(32) as u8),
            5 => pz::Match::far2_short(258 + r.below(65536) as u32, 2 + r.below(32) as u8),
            6 => pz::Match::far2_long(r.below(65536) as u16, 34 + r.below(40000) as u16),
            _ => pz::Match::far3_long(r.below(1 << 24) as u32, 34 + r.below(100000) as u32),
        };
        if let Ok(m) = m {
            ms.push(m);
        }
    }
    ms
}

fn prep_pz_matches(cfg: &Chan, _s: &Rc<Scratch>) -> Result<Prepared, String> {
    let ms = seeded_matches(cfg);
    let (bytes, _bits) = pz::encode_matches(&ms).map_err(es)?;
    let via = cfg.below(2);
    Ok(Prepared {
        target: if via == 0 { "compression_types::decode_matches".into() } else { "compression_types::decode_match".into() },
        bytes,
        truth: None,
        stable: true,
        decode: Box::new(move |b, _| {
            if via == 0 {
                pz::decode_matches(b).is_ok()
            } else {
                let mut rd = pz::BitReader::new(b);
                let mut ok = true;
                for _ in 0..64 {
                    if !rd.has_bits(3) {
                        break;
                    }
                    match pz::decode_match(&mut rd) {
                        Ok((m, _)) => {
                            let _ = (m.length(), m.distance(), pz::calculate_encoding_cost(&m));
                        }
                        Err(_) => {
                            ok = false;
                            break;
                        }
                    }
                }
                ok
            }
        }),
    })
}

use zipora::compression::dict_zip::{DictionaryBuilder as PzDictBuilder, DictionaryBuilderConfig, PaZipCompressor, PaZipCompressorConfig};
use zipora::memory::secure_pool::{SecureMemoryPool, SecurePoolConfig};

fn prep_pazip(cfg: &Chan, _s: &Rc<Scratch>) -> Result<Prepared, String> {
    let training = b"the quick brown fox jumps over the lazy dog. the quick brown fox jumps again.";
    let dc = DictionaryBuilderConfig { target_dict_size: 2048, max_dict_size: 4096, validate_result: true, use_parallel: false, ..Default::default() };
    let dict = PzDictBuilder::with_config(dc).build(training).map_err(es)?;
    let (conf, cname) = match cfg.below(3) {
        0 => (PaZipCompressorConfig::balanced(), "balanced"),
        1 => (PaZipCompressorConfig::fast_compression(), "fast"),
        _ => (PaZipCompressorConfig::reference_compliant(), "reference"),
    };
    let pool: Arc<SecureMemoryPool> = SecureMemoryPool::new(SecurePoolConfig::new(4096, 1024, 8)).map_err(es)?;
    let mut c = PaZipCompressor::new(dict, conf, pool).map_err(es)?;
    let data = if cfg.below(2) == 0 { text_payload(cfg) } else { payload_len(cfg, &[3, 17, 43, 100, 257]) };
    let mut bytes = vec![];
    c.compress(&data, &mut bytes).map_err(es)?;
    let c = RefCell::new(c);
    // the caller's output vector: fresh for every call, or ONE vector that keeps whatever the previous
    // (possibly refused) call left in it
    let keep_out = cfg.below(2) == 1;
    let kept: RefCell<Vec<u8>> = RefCell::new(b"left over from an earlier call".to_vec());
    Ok(Prepared {
        target: format!("PaZipCompressor::decompress[{}{}]", cname, if keep_out { ",out=reused" } else { "" }),
        bytes,
        truth: None,
        stable: true,
        decode: Box::new(move |b, _| {
            let mut c = c.borrow_mut();
            let ok = if keep_out {
                let mut out = kept.borrow_mut();
                c.decompress(b, &mut out).is_ok()
            } else {
                let mut out = vec![];
                c.decompress(b, &mut out).is_ok()
            };
            let _ = (c.stats().bytes_processed, c.validate().is_ok());
            ok
        }),
    })
}

// ---------------------------------------------------------------------------------------
// file / stream loaders

use zipora::blob_store::reorder_map::{ZReorderMap, ZReorderMapBuilder};
use zipora::blob_store::traits::BlobStore;
use zipora::blob_store::zip_offset::{ZipOffsetBlobStore, ZipOffsetBlobStoreConfig};
use zipora::memory::mmap_vec::{MmapVec, MmapVecConfig};

fn read_zip_offset(s: &ZipOffsetBlobStore) {
    use zipora::blob_store::traits::CompressedBlobStore;
    let _ = (s.compression_ratio(0), s.compressed_size(0), s.compression_stats());
    let _ = s.is_empty();
    let n = s.len();
    let _ = (s.memory_usage(), s.stats(), s.config().clone());
    for id in 0..(n.min(64) as u32 + 2) {
        let _ = s.contains(id);
        let _ = s.size(id);
        let _ = s.get(id);
    }
}

fn prep_zip_offset(cfg: &Chan, s: &Rc<Scratch>) -> Result<Prepared, String> {
    let (conf, cname) = match cfg.below(4) {
        0 => (ZipOffsetBlobStoreConfig::default(), "default"),
        1 => (ZipOffsetBlobStoreConfig::performance_optimized(), "performance"),
        2 => (ZipOffsetBlobStoreConfig::security_optimized(), "security"),
        _ => (ZipOffsetBlobStoreConfig::compression_optimized(), "compression"),
    };
    let store = ZipOffsetBlobStore::with_config(conf).map_err(es)?;
    let mut bytes = vec![];
    store.save_to_writer(&mut bytes).map_err(es)?;
    // save_to_writer of a store with k content bytes writes exactly: header(content_bytes = k),
    // the k bytes, padding to 16.  No public path fills a store (put is refused, the builder's
    // finish() is a placeholder), so that image is assembled here from the real header.
    let k = *cfg.pick(&[0usize, 0, 1, 15, 16, 17, 100, 600]);
    if k > 0 && bytes.len() >= 72 {
        bytes[64..72].copy_from_slice(&(k as u64).to_le_bytes());
        let mut r = Rng::new(cfg.below(1 << 30));
        for _ in 0..k {
            bytes.push(r.below(256) as u8);
        }
        while (bytes.len() - 128) % 16 != 0 {
            bytes.push(0);
        }
    }
    let via_file = cfg.below(2) == 1;
    let sc = s.clone();
    Ok(Prepared {
        target: format!("ZipOffsetBlobStore::{}[{},content={}]", if via_file { "load_from_file" } else { "load_from_reader" }, cname, k),
        bytes,
        truth: None,
        stable: true,
        decode: Box::new(move |b, _| {
            let r = if via_file {
                let p = sc.put("zip_offset.bin", b);
                ZipOffsetBlobStore::load_from_file(&p)
            } else {
                ZipOffsetBlobStore::load_from_reader(&mut Cursor::new(b))
            };
            match r {
                Ok(mut st) => {
                    read_zip_offset(&st);
                    // the same store once more through the sequential-access offset cache
                    st.enable_offset_cache();
                    read_zip_offset(&st);
                    true
                }
                Err(_) => false,
            }
        }),
    })
}

fn prep_reorder_map(cfg: &Chan, s: &Rc<Scratch>) -> Result<Prepared, String> {
    let sign: i64 = if cfg.below(2) == 0 { 1 } else { -1 };
    let mut r = Rng::new(cfg.below(1 << 30));
    let runs = cfg.below(6);
    let mut vals: Vec<usize> = vec![];
    for _ in 0..runs {
        let base = 1000 + r.below(1 << 30) as usize;
        let l = [1usize, 1, 2, 3, 127, 128, 300][r.below(7) as usize];
        for i in 0..l {
            vals.push(if sign > 0 { base + i } else { base - i });
        }
    }
    let p = s.path("reorder.build");
    let mut b = ZReorderMapBuilder::new(&p, vals.len(), sign).map_err(es)?;
    for &v in &vals {
        b.push(v).map_err(es)?;
    }
    b.finish().map_err(es)?;
    let bytes = std::fs::read(&p).map_err(es)?;
    let sc = s.clone();
    Ok(Prepared {
        target: format!("ZReorderMap::open[sign={}]", sign),
        bytes,
        truth: None,
        stable: true,
        decode: Box::new(move |b, _| {
            let p = sc.put("reorder.map", b);
            match ZReorderMap::open(&p) {
                Ok(mut m) => {
                    let _ = (m.size(), m.eof(), m.len());
                    // read the declared elements (capped: a damaged header may declare 10^17 of them)
                    let mut k = 0;
                    while k < 20_000 {
                        // index() and current() are documented for "not at EOF" only
                        if !m.eof() {
                            let _ = (m.index(), m.current());
                        }
                        if m.next().is_none() {
                            break;
                        }
                        let _ = (m.len(), m.size_hint());
                        k += 1;
                    }
                    // exhausted (or capped) iterator: asked again, then rewound, partly read, rewound again
                    let _ = (m.next(), m.eof(), m.len());
                    if m.rewind().is_ok() {
                        let _ = m.by_ref().take(3).count();
                        if !m.eof() {
                            let _ = (m.index(), m.current());
                        }
                        if m.rewind().is_ok() {
                            let _ = m.by_ref().take(100).count();
                            let _ = (m.eof(), m.len(), m.size_hint());
                        }
                    }
                    true
                }
                Err(_) => false,
            }
        }),
    })
}

fn prep_mmap_vec(cfg: &Chan, s: &Rc<Scratch>) -> Result<Prepared, String> {
    let cap = *cfg.pick(&[1usize, 4, 16, 64]);
    let k = cfg.below(40) as usize;
    let wide = cfg.below(2) == 0;
    let p = s.path("mmapvec.build");
    let mk = MmapVecConfig { initial_capacity: cap, ..Default::default() };
    if wide {
        let mut v = MmapVec::<u64>::create(&p, mk).map_err(es)?;
        for i in 0..k {
            v.push(0xA000_0000_0000_0000 + i as u64).map_err(es)?;
        }
        v.sync().map_err(es)?;
    } else {
        let mut v = MmapVec::<u32>::create(&p, mk).map_err(es)?;
        for i in 0..k {
            v.push(0xB000_0000 + i as u32).map_err(es)?;
        }
        v.sync().map_err(es)?;
    }
    let bytes = std::fs::read(&p).map_err(es)?;
    let ro = cfg.below(2) == 1;
    let sc = s.clone();
    fn read_all<T: Copy + 'static>(v: &MmapVec<T>) {
        let n = v.len();
        let _ = (v.capacity(), v.is_empty(), v.memory_usage(), v.stats());
        let _ = v.get(0).is_some();
        if n > 0 {
            let _ = v.get(n - 1).is_some();
        }
        // everything the vector claims to hold, byte by byte
        let sl = v.as_slice();
        let raw = unsafe { std::slice::from_raw_parts(sl.as_ptr() as *const u8, std::mem::size_of_val(sl)) };
        let mut acc = 0u64;
        for &b in raw {
            acc = acc.wrapping_mul(31).wrapping_add(b as u64);
        }
        std::hint::black_box(acc);
        let mut it = v.into_iter();
        let _ = (it.len(), it.size_hint());
        let mut cnt = 0usize;
        for x in it.by_ref() {
            std::hint::black_box(*x);
            cnt += 1;
        }
        let _ = (cnt, it.len(), it.next().is_none());
        let st = v.stats();
        let _ = (st.memory_efficiency(), st.wasted_space(), st.needs_compaction(0.5));
    }
    /// an accepted image goes on being used as a vector (the file is the harness's scratch copy)
    fn use_all<T: Copy + 'static>(v: &mut MmapVec<T>, fill: T) {
        let _ = v.push(fill);
        let _ = v.pop();
        if let Some(x) = v.get_mut(0) {
            *x = fill;
        }
        for x in v.as_mut_slice().iter_mut().take(4) {
            *x = fill;
        }
        let _ = v.reserve(3);
        let _ = v.extend([fill, fill, fill]);
        let n = v.len();
        let _ = v.truncate(n.saturating_sub(2));
        let _ = v.resize(n.min(64) + 1, fill);
        let _ = v.shrink_to_fit();
        let _ = v.sync();
        read_all(v);
        let _ = v.clear();
        let _ = v.push(fill);
        read_all(v);
    }
    Ok(Prepared {
        target: format!("MmapVec<{}>::open[{}]", if wide { "u64" } else { "u32" }, if ro { "read_only" } else { "default" }),
        bytes,
        truth: None,
        stable: true,
        decode: Box::new(move |b, _| {
            let p = sc.put("mmapvec.bin", b);
            let c = if ro { MmapVecConfig::read_only() } else { MmapVecConfig::default() };
            if wide {
                match MmapVec::<u64>::open(&p, c) {
                    Ok(mut v) => {
                        read_all(&v);
                        if !ro {
                            use_all(&mut v, 0xC000_0000_0000_0001);
                        }
                        true
                    }
                    Err(_) => false,
                }
            } else {
                match MmapVec::<u32>::open(&p, c) {
                    Ok(mut v) => {
                        read_all(&v);
                        if !ro {
                            use_all(&mut v, 0xC000_0001);
                        }
                        true
                    }
                    Err(_) => false,
                }
            }
        }),
    })
}

// ---------------------------------------------------------------------------------------
// io: var-ints, DataInput, complex types, smart pointers

use zipora::io::{
    ComplexSerialize, ComplexTypeConfig, ComplexTypeSerializer, DataInput, DataOutput, MmapDataInput, ReaderDataInput, SignedVarInt, SliceDataInput, SmartPtrConfig, SmartPtrSerializer, VarInt, VarIntEncoder, VarIntStrategy, VecDataOutput,
};

fn seeded_u64s(cfg: &Chan) -> Vec<u64> {
    let mut r = Rng::new(cfg.below(1 << 30));
    let k = *cfg.pick(&[0usize, 1, 2, 3, 4, 5, 9, 33]);
    let shape = cfg.below(4);
    let mut cur = r.below(1000);
    // shape 3: every value has the SAME byte width and the count fills whole groups of four (or one
    // more): the widest selector / tag of a grouped or prefix-coded form, right up to the last byte
    let width = [1u64, 2, 3, 4, 4, 4, 5, 8][r.below(8) as usize];
    let k = if shape == 3 { [4usize, 8, 12, 5, 9, 16][r.below(6) as usize] } else { k };
    (0..k)
        .map(|_| match shape {
            0 => {
                let bits = r.below(65);
                if bits == 0 { 0 } else if bits == 64 { u64::MAX - r.below(3) } else { (1u64 << bits) - 1 - r.below(2).min((1u64 << bits) - 1) }
            }
            1 => {
                cur += r.below(300);
                cur
            }
            2 => r.below(200),
            _ => {
                let lo = if width == 1 { 0 } else { 1u64 << (8 * (width - 1)) };
                let span = if width == 8 { u64::MAX - lo } else { (1u64 << (8 * width)) - lo };
                lo + r.below(span.min(1 << 40))
            }
        })
        .collect()
}

fn prep_var_int(cfg: &Chan, _s: &Rc<Scratch>) -> Result<Prepared, String> {
    let vals = seeded_u64s(cfg);
    match cfg.below(7) {
        5 | 6 => {
            // what a record reader does: decode at the cursor, advance by `consumed`; after a refusal
            // resynchronise one byte further on and go on decoding the SAME buffer
            let signed = cfg.below(2) == 1;
            let bytes = if signed { vals.iter().flat_map(|&v| <VarInt as SignedVarInt>::encode_signed((v as i64).wrapping_neg())).collect() } else { VarInt::encode_multiple(vals.iter().copied()) };
            Ok(Prepared {
                target: format!("VarInt::{}(chained)", if signed { "decode_signed" } else { "decode" }),
                bytes,
                truth: None,
                stable: true,
                decode: Box::new(move |b, _| {
                    let mut off = 0usize;
                    let mut all = true;
                    for _ in 0..200 {
                        let Some(rest) = b.get(off..) else { break };
                        if rest.is_empty() {
                            break;
                        }
                        let r = if signed { <VarInt as SignedVarInt>::decode_signed(rest).map(|(v, n)| (v as u64, n)) } else { VarInt::decode(rest) };
                        match r {
                            Ok((v, used)) => {
                                let _ = (VarInt::encoded_len(v), VarInt::fits_in_one_byte(v), VarInt::fits_in_two_bytes(v));
                                off = off.saturating_add(used.max(1));
                            }
                            Err(_) => {
                                all = false;
                                off += 1;
                            }
                        }
                    }
                    all
                }),
            })
        }
        0 => {
            let bytes = VarInt::encode(vals.first().copied().unwrap_or(300));
            Ok(Prepared { target: "VarInt::decode".into(), bytes, truth: None, stable: true, decode: Box::new(|b, _| VarInt::decode(b).is_ok()) })
        }
        1 => {
            let bytes = VarInt::encode_multiple(vals.iter().copied());
            Ok(Prepared { target: "VarInt::decode_multiple".into(), bytes, truth: None, stable: true, decode: Box::new(|b, _| VarInt::decode_multiple(b).is_ok()) })
        }
        2 => {
            let v = vals.first().copied().unwrap_or(7) as i64;
            let bytes = <VarInt as SignedVarInt>::encode_signed(if vals.len() % 2 == 0 { v } else { v.wrapping_neg() });
            Ok(Prepared { target: "VarInt::decode_signed".into(), bytes, truth: None, stable: true, decode: Box::new(|b, _| <VarInt as SignedVarInt>::decode_signed(b).is_ok()) })
        }
        3 => {
            let bytes = VarInt::encode_multiple(vals.iter().copied());
            Ok(Prepared {
                target: "VarInt::read_from(SliceDataInput)".into(),
                bytes,
                truth: None,
                stable: true,
                decode: Box::new(|b, _| {
                    let mut i = SliceDataInput::new(b);
                    let mut ok = true;
                    let mut guard = 0;
                    // a refused read does not end the session: the reader is asked again (bounded)
                    while i.has_more() && guard < 400 {
                        guard += 1;
                        if VarInt::read_from(&mut i).is_err() {
                            ok = false;
                        }
                        let _ = (i.pos(), i.remaining(), i.remaining_slice().len());
                    }
                    let _ = VarInt::read_from(&mut i).is_err();
                    let _ = (i.pos(), i.remaining(), i.remaining_slice().len());
                    ok
                }),
            })
        }
        _ => {
            let bytes = VarInt::encode_multiple(vals.iter().copied());
            Ok(Prepared {
                target: "ReaderDataInput::read_var_int".into(),
                bytes,
                truth: None,
                stable: true,
                decode: Box::new(|b, _| {
                    let mut i = ReaderDataInput::new(Cursor::new(b));
                    let mut ok = true;
                    let mut refused = 0;
                    for _ in 0..200 {
                        if i.read_var_int().is_err() {
                            ok = false;
                            refused += 1;
                            // asked again a few times after a refusal, then the session ends
                            if refused > 3 {
                                break;
                            }
                        }
                        let _ = i.pos();
                    }
                    ok
                }),
            })
        }
    }
}

fn prep_var_int_variants(cfg: &Chan, _s: &Rc<Scratch>) -> Result<Prepared, String> {
    let (st, sname) = [
        (VarIntStrategy::Leb128, "Leb128"),
        (VarIntStrategy::Zigzag, "Zigzag"),
        (VarIntStrategy::Delta, "Delta"),
        (VarIntStrategy::GroupVarint, "GroupVarint"),
        (VarIntStrategy::PrefixFree, "PrefixFree"),
        (VarIntStrategy::Compact, "Compact"),
        (VarIntStrategy::Simd, "Simd"),
    ][cfg.below(7) as usize];
    let e = VarIntEncoder::new(st);
    let vals = seeded_u64s(cfg);
    let ivals: Vec<i64> = vals.iter().enumerate().map(|(i, &v)| if i % 2 == 0 { (v >> 1) as i64 } else { -((v >> 1) as i64) }).collect();
    let form = cfg.below(6);
    let (bytes, fname): (Vec<u8>, &str) = match form {
        0 => (e.encode_u64(vals.first().copied().unwrap_or(5)).map_err(es)?, "decode_u64"),
        1 => (e.encode_i64(ivals.first().copied().unwrap_or(-5)).map_err(es)?, "decode_i64"),
        2 => (e.encode_u64_sequence(&vals).map_err(es)?, "decode_u64_sequence"),
        3 => (e.encode_i64_sequence(&ivals).map_err(es)?, "decode_i64_sequence"),
        // single values back to back, read with decode_*64 + `consumed`, going on after a refusal
        4 => {
            let mut v = vec![];
            for &x in vals.iter().take(9) {
                v.extend(e.encode_u64(x).map_err(es)?);
            }
            (v, "decode_u64(chained)")
        }
        _ => {
            let mut v = vec![];
            for &x in ivals.iter().take(9) {
                v.extend(e.encode_i64(x).map_err(es)?);
            }
            (v, "decode_i64(chained)")
        }
    };
    Ok(Prepared {
        target: format!("VarIntEncoder[{}]::{}", sname, fname),
        bytes,
        truth: None,
        stable: true,
        decode: Box::new(move |b, _| match form {
            0 => e.decode_u64(b).is_ok(),
            1 => e.decode_i64(b).is_ok(),
            2 => e.decode_u64_sequence(b).is_ok(),
            3 => e.decode_i64_sequence(b).is_ok(),
            _ => {
                let mut off = 0usize;
                let mut all = true;
                for _ in 0..100 {
                    let Some(rest) = b.get(off..) else { break };
                    if rest.is_empty() {
                        break;
                    }
                    let used = if form == 4 { e.decode_u64(rest).map(|x| x.1) } else { e.decode_i64(rest).map(|x| x.1) };
                    match used {
                        Ok(n) => off = off.saturating_add(n.max(1)),
                        Err(_) => {
                            all = false;
                            off += 1;
                        }
                    }
                }
                all
            }
        }),
    })
}

fn prep_data_input(cfg: &Chan, s: &Rc<Scratch>) -> Result<Prepared, String> {
    // a record written field by field with DataOutput, read back with the same schema
    let mut r = Rng::new(cfg.below(1 << 30));
    let nf = 1 + cfg.below(8) as usize;
    let schema: Vec<u8> = (0..nf).map(|_| r.below(7) as u8).collect();
    let mut o = VecDataOutput::new();
    for &f in &schema {
        match f {
            0 => o.write_u8(r.below(256) as u8),
            1 => o.write_u16(r.below(65536) as u16),
            2 => o.write_u32(r.below(1 << 32) as u32),
            3 => o.write_u64(r.next()),
            4 => o.write_var_int(r.next() >> r.below(64)),
            5 => {
                let l = r.below(40) as usize;
                let b: Vec<u8> = (0..l).map(|_| r.below(256) as u8).collect();
                o.write_length_prefixed_bytes(&b)
            }
            _ => {
                let l = r.below(30) as usize;
                let st: String = (0..l).map(|_| ['a', 'b', 'é', 'z', '0'][r.below(5) as usize]).collect();
                o.write_length_prefixed_string(&st)
            }
        }
        .map_err(es)?;
    }
    let bytes = o.into_vec();
    fn read_schema<I: DataInput>(i: &mut I, schema: &[u8]) -> bool {
        for &f in schema {
            let ok = match f {
                0 => i.read_u8().is_ok(),
                1 => i.read_u16().is_ok(),
                2 => i.read_u32().is_ok(),
                3 => i.read_u64().is_ok(),
                4 => i.read_var_int().is_ok(),
                5 => i.read_length_prefixed_bytes().is_ok(),
                _ => i.read_length_prefixed_string().is_ok(),
            };
            if !ok {
                return false;
            }
        }
        let _ = (i.position(), i.has_remaining());
        true
    }
    let via = cfg.below(3);
    let sc = s.clone();
    Ok(Prepared {
        target: format!("{}::read_*", ["SliceDataInput", "ReaderDataInput", "MmapDataInput"][via as usize]),
        bytes,
        truth: None,
        stable: true,
        decode: Box::new(move |b, _| match via {
            0 => read_schema(&mut SliceDataInput::new(b), &schema),
            1 => read_schema(&mut ReaderDataInput::new(Cursor::new(b)), &schema),
            _ => {
                let p = sc.put("data_input.bin", b);
                match MmapDataInput::open(&p) {
                    Ok(mut i) => read_schema(&mut i, &schema),
                    Err(_) => false,
                }
            }
        }),
    })
}

fn complex_case<T: ComplexSerialize + Clone + 'static>(cfg: &Chan, tname: &str, v: T) -> Result<Prepared, String> {
    let (conf, cname) = match cfg.below(5) {
        0 => (ComplexTypeConfig::new(), "metadata"),
        1 => (ComplexTypeConfig::fast(), "fast"),
        2 => (ComplexTypeConfig::compatible(), "compatible"),
        3 => (ComplexTypeConfig::safe(), "safe"),
        _ => (ComplexTypeConfig::compact(), "compact"),
    };
    let ser = ComplexTypeSerializer::new(conf);
    if cfg.below(3) == 0 {
        // 0 values (no metadata at all), 1, or several copies behind one count field
        let nb = *cfg.pick(&[1usize, 2, 3, 0]);
        let vs: Vec<T> = (0..nb).map(|_| v.clone()).collect();
        let bytes = ser.serialize_batch(&vs).map_err(es)?;
        return Ok(Prepared { target: format!("ComplexTypeSerializer[{}]::deserialize_batch<{}>[n={}]", cname, tname, nb), bytes, truth: None, stable: true, decode: Box::new(move |b, _| ser.deserialize_batch::<T>(b).is_ok()) });
    }
    let bytes = ser.serialize_to_bytes(&v).map_err(es)?;
    Ok(Prepared { target: format!("ComplexTypeSerializer[{}]::deserialize_from_bytes<{}>", cname, tname), bytes, truth: None, stable: true, decode: Box::new(move |b, _| ser.deserialize_from_bytes::<T>(b).is_ok()) })
}

fn prep_complex(cfg: &Chan, _s: &Rc<Scratch>) -> Result<Prepared, String> {
    let mut r = Rng::new(cfg.below(1 << 30));
    let mut st = |max: u64| -> String { (0..r.below(max)).map(|_| (b'a' + r.below(26) as u8) as char).collect() };
    let a = st(12);
    let b = st(5);
    let c = st(30);
    let x = cfg.below(1 << 20) as u32;
    match cfg.below(11) {
        0 => complex_case(cfg, "(u32,String)", (x, a)),
        1 => complex_case(cfg, "(u8,u16,u32,u64)", (x as u8, x as u16, x, (x as u64) << 20)),
        2 => complex_case(cfg, "[u32;4]", [x, x + 1, 7, 0u32]),
        3 => complex_case(cfg, "[String;3]", [a, b, c]),
        4 => complex_case(cfg, "Option<String>", if x % 3 == 0 { None } else { Some(a) }),
        5 => complex_case::<Result<u32, String>>(cfg, "Result<u32,String>", if x % 2 == 0 { Ok(x) } else { Err(a) }),
        6 => complex_case(cfg, "BTreeMap<String,u32>", BTreeMap::from([(a, x), (b, 1), (c, 2)])),
        7 => complex_case(cfg, "BTreeSet<u32>", BTreeSet::from([x, 1, 2, 3])),
        // one entry: a HashMap/HashSet with several would serialise in RandomState order
        8 => complex_case(cfg, "HashMap<u32,String>", HashMap::from([(x, a)])),
        9 => complex_case(cfg, "HashSet<String>", HashSet::from([a])),
        _ => complex_case(cfg, "(Vec<u32>,Option<String>,BTreeMap<String,u32>)", (vec![x, 2, 3], Some(a), BTreeMap::from([(b, x)]))),
    }
}

/// Maps and sets with more entries than the loaders' up-front capacity cap (4096 entries, 7168 in
/// hashbrown's terms): what a loader does with an overstated count field once that many entries
/// have really arrived.  The image is written from a BTreeMap / BTreeSet (same wire format, fixed
/// order) and read back as the hashed container.
fn prep_complex_large(cfg: &Chan, _s: &Rc<Scratch>) -> Result<Prepared, String> {
    let (conf, cname) = match cfg.below(3) {
        0 => (ComplexTypeConfig::fast(), "fast"),
        1 => (ComplexTypeConfig::compact(), "compact"),
        _ => (ComplexTypeConfig::new(), "metadata"),
    };
    let ser = ComplexTypeSerializer::new(conf);
    let n = *cfg.pick(&[7200u32, 7169, 8000, 4097]);
    let x = cfg.below(1 << 16) as u32;
    if cfg.below(2) == 0 {
        let m: BTreeMap<u32, u32> = (0..n).map(|i| (i.wrapping_mul(2654435761).wrapping_add(x), i)).collect();
        let bytes = ser.serialize_to_bytes(&m).map_err(es)?;
        Ok(Prepared { target: format!("ComplexTypeSerializer[{}]::deserialize_from_bytes<HashMap<u32,u32>>[{} entries]", cname, m.len()), bytes, truth: None, stable: true, decode: Box::new(move |b, _| ser.deserialize_from_bytes::<HashMap<u32, u32>>(b).is_ok()) })
    } else {
        let m: BTreeSet<u32> = (0..n).map(|i| i.wrapping_mul(2654435761).wrapping_add(x)).collect();
        let bytes = ser.serialize_to_bytes(&m).map_err(es)?;
        Ok(Prepared { target: format!("ComplexTypeSerializer[{}]::deserialize_from_bytes<HashSet<u32>>[{} entries]", cname, m.len()), bytes, truth: None, stable: true, decode: Box::new(move |b, _| ser.deserialize_from_bytes::<HashSet<u32>>(b).is_ok()) })
    }
}

fn prep_smart_ptr(cfg: &Chan, _s: &Rc<Scratch>) -> Result<Prepared, String> {
    let (conf, cname) = match cfg.below(4) {
        0 => (SmartPtrConfig::new(), "default"),
        1 => (SmartPtrConfig::performance_optimized(), "performance"),
        2 => (SmartPtrConfig::space_optimized(), "space"),
        _ => (SmartPtrConfig::robust(), "robust"),
    };
    let ser = SmartPtrSerializer::new(conf);
    let mut r = Rng::new(cfg.below(1 << 30));
    let a: String = (0..r.below(20)).map(|_| (b'a' + r.below(26) as u8) as char).collect();
    let x = r.below(1 << 32) as u32;
    macro_rules! case {
        ($T:ty, $P:ty, $name:expr, $v:expr) => {{
            let v: $P = $v;
            let bytes = ser.serialize_to_bytes::<$T, $P>(&v).map_err(es)?;
            Ok(Prepared { target: format!("SmartPtrSerializer[{}]::deserialize_from_bytes<{}>", cname, $name), bytes, truth: None, stable: true, decode: Box::new(move |b, _| ser.deserialize_from_bytes::<$T, $P>(b).is_ok()) })
        }};
    }
    match cfg.below(7) {
        0 => case!(String, Box<String>, "Box<String>", Box::new(a)),
        1 => case!(u32, Option<Box<u32>>, "Option<Box<u32>>", if x % 3 == 0 { None } else { Some(Box::new(x)) }),
        2 => case!(String, Rc<String>, "Rc<String>", Rc::new(a)),
        3 => case!(Vec<u32>, Arc<Vec<u32>>, "Arc<Vec<u32>>", Arc::new(vec![x, 1, 2])),
        4 => case!(Vec<Rc<String>>, Box<Vec<Rc<String>>>, "Box<Vec<Rc<String>>>", Box::new(vec![Rc::new(a.clone()), Rc::new(a)])),
        5 => case!(Vec<String>, Rc<Vec<String>>, "Rc<Vec<String>>", Rc::new(vec![a.clone(), a, String::new()])),
        _ => case!(Box<u64>, Arc<Box<u64>>, "Arc<Box<u64>>", Arc::new(Box::new(x as u64))),
    }
}

// ---------------------------------------------------------------------------------------
// text encodings

use zipora::string::{hex_decode, hex_decode_bytes, hex_decode_to_slice, hex_encode, hex_encode_upper, is_valid_hex};
use zipora::system::base64::{base64_decode_simd, AdaptiveBase64, Base64Config, SimdBase64Decoder};

fn prep_hex(cfg: &Chan, _s: &Rc<Scratch>) -> Result<Prepared, String> {
    let data = payload_len(cfg, &[0, 1, 2, 3, 8, 17, 40, 100]);
    let text = if cfg.below(2) == 0 { hex_encode(&data) } else { hex_encode_upper(&data) };
    let bytes = text.into_bytes();
    match cfg.below(3) {
        0 => Ok(Prepared {
            target: "hex_decode".into(),
            bytes,
            truth: None,
            stable: true,
            decode: Box::new(|b, _| {
                let s = String::from_utf8_lossy(b);
                let _ = is_valid_hex(&s);
                hex_decode(&s).is_ok()
            }),
        }),
        1 => Ok(Prepared { target: "hex_decode_bytes".into(), bytes, truth: None, stable: true, decode: Box::new(|b, _| hex_decode_bytes(b).is_ok()) }),
        _ => Ok(Prepared {
            target: "hex_decode_to_slice".into(),
            bytes,
            truth: Some(data.len()),
            stable: true,
            decode: Box::new(|b, len| {
                let mut out = vec![0u8; len];
                hex_decode_to_slice(b, &mut out).is_ok()
            }),
        }),
    }
}

fn prep_base64(cfg: &Chan, _s: &Rc<Scratch>) -> Result<Prepared, String> {
    let data = payload_len(cfg, &[0, 1, 2, 3, 4, 8, 17, 40, 100]);
    let conf = Base64Config { url_safe: cfg.below(2) == 1, padding: cfg.below(2) == 0, force_implementation: None };
    let name = format!("{}{}", if conf.url_safe { "url" } else { "std" }, if conf.padding { "" } else { "-nopad" });
    let codec = AdaptiveBase64::with_config(conf.clone());
    let bytes = codec.encode(&data).into_bytes();
    match cfg.below(3) {
        0 => Ok(Prepared { target: format!("AdaptiveBase64[{}]::decode", name), bytes, truth: None, stable: true, decode: Box::new(move |b, _| codec.decode(&String::from_utf8_lossy(b)).is_ok()) }),
        1 => {
            let d = SimdBase64Decoder::with_config(conf);
            Ok(Prepared { target: format!("SimdBase64Decoder[{}]::decode", name), bytes, truth: None, stable: true, decode: Box::new(move |b, _| d.decode(&String::from_utf8_lossy(b)).is_ok()) })
        }
        _ => Ok(Prepared { target: "base64_decode_simd".into(), bytes, truth: None, stable: true, decode: Box::new(|b, _| base64_decode_simd(&String::from_utf8_lossy(b)).is_ok()) }),
    }
}

// ---------------------------------------------------------------------------------------
// sessions: ONE reader / decoder object and a fixed script of calls that GOES ON after every
// refused call.  "Returns a value or an error, never a crash" holds for the calls made on the
// same object after an Err as well; every truncation length makes a different call of the
// script the first refused one, and everything behind it runs on an object that has refused.

use zipora::io::{from_file, from_reader, from_slice, DeserializationContext, NestedSerialize, SerializableType, SerializationContext, SmartPtrSerialize};

#[derive(Clone, Copy, Debug)]
enum InOp {
    U8,
    U16,
    U32,
    U64,
    Var,
    VarStatic,
    LpBytes,
    LpString,
    Bytes(usize),
    Vec(usize),
    Str(usize),
    Skip(usize),
    /// a length read from the input itself, then skip(length) - how a reader steps over a field it does not know
    SkipLp,
    /// a length read from the input itself, then read_vec(length)
    VecLp,
    /// skip / read_vec / read_bytes of (what is left + d) bytes: just inside, exactly at and just beyond the end
    SkipRel(i64),
    VecRel(i64),
    BytesRel(i64),
}

/// every accessor of the cursor, folded (so that nothing is optimised away)
trait Obs: DataInput {
    fn observe(&self) -> u64;
    fn rem(&self) -> Option<usize>;
}

fn fold_slice(s: &[u8]) -> u64 {
    (s.len() as u64) ^ ((s.first().copied().unwrap_or(0) as u64) << 32) ^ ((s.last().copied().unwrap_or(0) as u64) << 40)
}

impl<'a> Obs for SliceDataInput<'a> {
    fn observe(&self) -> u64 {
        let a = (self.pos() as u64) ^ ((self.remaining() as u64) << 16) ^ ((self.has_more() as u64) << 48);
        let b = self.position().unwrap_or(0) ^ ((self.has_remaining().unwrap_or(false) as u64) << 50);
        a ^ b ^ fold_slice(self.remaining_slice())
    }
    fn rem(&self) -> Option<usize> {
        Some(self.remaining())
    }
}

impl Obs for MmapDataInput {
    fn observe(&self) -> u64 {
        let a = (self.pos() as u64) ^ ((self.remaining() as u64) << 16) ^ ((self.is_empty() as u64) << 48) ^ ((self.len() as u64) << 8);
        let b = self.position().unwrap_or(0) ^ ((self.has_remaining().unwrap_or(false) as u64) << 50);
        a ^ b ^ fold_slice(self.remaining_slice()) ^ fold_slice(self.as_slice())
    }
    fn rem(&self) -> Option<usize> {
        Some(self.remaining())
    }
}

impl<R: std::io::Read> Obs for ReaderDataInput<R> {
    fn observe(&self) -> u64 {
        self.pos() ^ self.position().unwrap_or(0) ^ ((self.has_remaining().unwrap_or(false) as u64) << 50)
    }
    fn rem(&self) -> Option<usize> {
        None
    }
}

/// The whole script, whatever each call returns.  The verdict written into the trace: true = no call
/// that has a field behind it in the valid record was refused (calls without one are bound to be refused
/// somewhere; they are made all the same, they just do not count).
fn run_in_script<I: Obs>(i: &mut I, script: &[(InOp, bool)]) -> bool {
    let mut all = true;
    let mut acc = i.observe();
    for (op, backed) in script {
        // beyond the end for a reader that cannot say what is left: more than its 8 KiB skip chunk and read_vec's 64 KiB chunk
        let rel = |i: &I, d: i64| -> usize {
            match i.rem() {
                Some(r) => (r as i64 + d).max(0) as usize,
                None => 70_000,
            }
        };
        let ok = match *op {
            InOp::U8 => i.read_u8().is_ok(),
            InOp::U16 => i.read_u16().is_ok(),
            InOp::U32 => i.read_u32().is_ok(),
            InOp::U64 => i.read_u64().is_ok(),
            InOp::Var => i.read_var_int().is_ok(),
            InOp::VarStatic => VarInt::read_from(i).is_ok(),
            InOp::LpBytes => i.read_length_prefixed_bytes().is_ok(),
            InOp::LpString => i.read_length_prefixed_string().is_ok(),
            InOp::Bytes(k) => {
                let mut buf = vec![0u8; k];
                i.read_bytes(&mut buf).is_ok()
            }
            InOp::Vec(k) => i.read_vec(k).is_ok(),
            InOp::Str(k) => i.read_string(k).is_ok(),
            InOp::Skip(k) => i.skip(k).is_ok(),
            InOp::SkipLp => match i.read_var_int() {
                Ok(n) => i.skip(n as usize).is_ok(),
                Err(_) => false,
            },
            InOp::VecLp => match i.read_var_int() {
                Ok(n) => i.read_vec(n as usize).is_ok(),
                Err(_) => false,
            },
            InOp::SkipRel(d) => {
                let n = rel(i, d);
                i.skip(n).is_ok()
            }
            InOp::VecRel(d) => {
                let n = rel(i, d);
                i.read_vec(n).is_ok()
            }
            InOp::BytesRel(d) => {
                let mut buf = vec![0u8; rel(i, d)];
                i.read_bytes(&mut buf).is_ok()
            }
        };
        all &= ok || !*backed;
        acc = acc.wrapping_mul(31).wrapping_add(i.observe());
    }
    std::hint::black_box(acc);
    all
}

fn prep_input_session(cfg: &Chan, s: &Rc<Scratch>) -> Result<Prepared, String> {
    let mut r = Rng::new(cfg.below(1 << 30));
    let n_ops = 3 + cfg.below(12) as usize;
    let ks = [0usize, 1, 2, 3, 8, 33];
    let ds = [-1i64, 0, 1, 7];
    let mut script: Vec<(InOp, bool)> = vec![];
    let mut o = VecDataOutput::new();
    for _ in 0..n_ops {
        let k = *cfg.pick(&ks);
        let op = match cfg.below(20) {
            0 => InOp::U8,
            1 => InOp::U16,
            2 => InOp::U32,
            3 => InOp::U64,
            4 => InOp::Var,
            5 => InOp::VarStatic,
            6 => InOp::LpBytes,
            7 => InOp::LpString,
            8 => InOp::Bytes(k),
            9 => InOp::Vec(k),
            10 => InOp::Str(k),
            11 | 12 | 13 => InOp::Skip(k),
            14 | 15 => InOp::SkipLp,
            16 => InOp::VecLp,
            17 => InOp::SkipRel(*cfg.pick(&ds)),
            18 => InOp::VecRel(*cfg.pick(&ds)),
            _ => InOp::BytesRel(*cfg.pick(&ds)),
        };
        // one call in six has no field behind it in the valid record: everything after it reads misaligned
        let backed = (cfg.below(6) != 0 || script.len() < 2) && !matches!(op, InOp::SkipRel(_) | InOp::VecRel(_) | InOp::BytesRel(_));
        script.push((op, backed));
        if !backed {
            continue;
        }
        let raw = |r: &mut Rng, k: usize| -> Vec<u8> { (0..k).map(|_| r.below(256) as u8).collect() };
        match op {
            InOp::U8 => o.write_u8(r.below(256) as u8),
            InOp::U16 => o.write_u16(r.below(65536) as u16),
            InOp::U32 => o.write_u32(r.below(1 << 32) as u32),
            InOp::U64 => o.write_u64(r.next()),
            InOp::Var | InOp::VarStatic => o.write_var_int(r.next() >> r.below(64)),
            InOp::LpBytes => o.write_length_prefixed_bytes(&raw(&mut r, k)),
            InOp::LpString => {
                let st: String = (0..k).map(|_| ['a', 'b', 'é', 'z', '0'][r.below(5) as usize]).collect();
                o.write_length_prefixed_string(&st)
            }
            InOp::Bytes(k) | InOp::Vec(k) | InOp::Skip(k) => o.write_bytes(&raw(&mut r, k)),
            InOp::Str(k) => o.write_bytes(&(0..k).map(|_| b'a' + r.below(26) as u8).collect::<Vec<u8>>()),
            InOp::SkipLp | InOp::VecLp => o.write_length_prefixed_bytes(&raw(&mut r, k)),
            InOp::SkipRel(_) | InOp::VecRel(_) | InOp::BytesRel(_) => Ok(()),
        }
        .map_err(es)?;
    }
    let bytes = o.into_vec();
    let via = cfg.below(7);
    let vname = ["SliceDataInput::new", "from_slice", "ReaderDataInput::new(Cursor)", "from_reader(&[u8])", "MmapDataInput::open", "from_file", "SliceDataInput::new"][via as usize];
    // two more calls behind the last field of the record
    script.push((InOp::U8, false));
    script.push((InOp::Skip(1), false));
    set_note(format!(
        "[{}] (~ = no field behind it in the valid record), observers (pos/remaining/remaining_slice/has_more/position/has_remaining/len/as_slice) after every call",
        script.iter().map(|(op, b)| format!("{}{:?}", if *b { "" } else { "~" }, op)).collect::<Vec<_>>().join(", ")
    ));
    let sc = s.clone();
    Ok(Prepared {
        target: format!("{}::session", vname),
        bytes,
        truth: None,
        stable: true,
        decode: Box::new(move |b, _| match via {
            0 | 6 => run_in_script(&mut SliceDataInput::new(b), &script),
            1 => run_in_script(&mut from_slice(b), &script),
            2 => {
                let mut i = ReaderDataInput::new(Cursor::new(b));
                let ok = run_in_script(&mut i, &script);
                let _ = i.into_inner().position();
                ok
            }
            3 => {
                let mut i = from_reader(b);
                let ok = run_in_script(&mut i, &script);
                let _ = i.into_inner().len();
                ok
            }
            _ => {
                let p = sc.put("session_input.bin", b);
                let opened = if via == 4 { MmapDataInput::open(&p) } else { from_file(&p) };
                match opened {
                    Ok(mut i) => run_in_script(&mut i, &script),
                    Err(_) => false,
                }
            }
        }),
    })
}

// ---- PA-Zip BitReader: decode_match / read_bits on ONE reader, going on after a refusal

#[derive(Clone, Copy, Debug)]
enum BrOp {
    Match,
    Bits(u8),
    Has(u8),
}

fn prep_bit_reader_session(cfg: &Chan, _s: &Rc<Scratch>) -> Result<Prepared, String> {
    let ms = seeded_matches(cfg);
    let (bytes, _bits) = pz::encode_matches(&ms).map_err(es)?;
    let n_ops = 6 + cfg.below(26) as usize;
    let widths = [0u8, 1, 2, 3, 5, 8, 13, 16, 24, 31, 32, 33, 64, 255];
    let script: Vec<BrOp> = (0..n_ops)
        .map(|_| match cfg.below(10) {
            0..=4 => BrOp::Match,
            5..=7 => BrOp::Bits(*cfg.pick(&widths)),
            _ => BrOp::Has(*cfg.pick(&widths)),
        })
        .collect();
    set_note(format!("{:?}, has_bits(1)/bit_position() after every call", script));
    Ok(Prepared {
        target: "compression_types::BitReader::session".into(),
        bytes,
        truth: None,
        stable: true,
        decode: Box::new(move |b, _| {
            let mut rd = pz::BitReader::new(b);
            let mut all = true;
            let mut acc = 0u64;
            for op in &script {
                let data_left = rd.has_bits(3);
                let ok = match *op {
                    BrOp::Match => match pz::decode_match(&mut rd) {
                        Ok((m, bits)) => {
                            acc ^= (m.length() as u64) ^ ((m.distance() as u64) << 20) ^ ((pz::calculate_encoding_cost(&m) as u64) << 40) ^ bits as u64;
                            let _ = m.validate().is_ok();
                            true
                        }
                        Err(_) => false,
                    },
                    BrOp::Bits(n) => rd.read_bits(n).map(|v| acc ^= v as u64).is_ok(),
                    BrOp::Has(n) => {
                        acc ^= rd.has_bits(n) as u64;
                        true
                    }
                };
                // verdict for the trace: a record refused although there were bits left = malformed content seen
                all &= ok || !data_left || !matches!(op, BrOp::Match);
                acc = acc.wrapping_mul(31) ^ (rd.has_bits(1) as u64) ^ ((rd.bit_position() as u64) << 1);
            }
            std::hint::black_box(acc);
            all
        }),
    })
}

// ---- smart pointers: a STREAM of pointers read with one shared DeserializationContext
//      (back references to earlier objects), going on after a refused item

#[derive(Clone, Copy, Debug)]
enum PtrStep {
    Strong,
    Weak,
    Clear,
    Lookup(u32),
}

fn prep_smart_ptr_stream(cfg: &Chan, _s: &Rc<Scratch>) -> Result<Prepared, String> {
    use std::rc::Weak as RcWeak;
    use std::sync::Weak as ArcWeak;
    let detect = cfg.below(4) != 0;
    let mut r = Rng::new(cfg.below(1 << 30));
    let pool_n = 1 + cfg.below(3) as usize;
    let n_items = 2 + cfg.below(5) as usize;
    // (which pooled object, 0 = strong / 1 = weak to a live object / 2 = dangling weak)
    let items: Vec<(usize, u64)> = (0..n_items).map(|_| (cfg.below(pool_n as u64) as usize, [0, 0, 0, 1, 2][cfg.below(5) as usize])).collect();
    let mut script: Vec<PtrStep> = items.iter().map(|&(_, f)| if f == 0 { PtrStep::Strong } else { PtrStep::Weak }).collect();
    // look-ups and a clear() of the shared context somewhere in between; two more reads behind the last item
    for _ in 0..cfg.below(3) {
        let at = cfg.below(script.len() as u64 + 1) as usize;
        script.insert(at, if cfg.below(3) == 0 { PtrStep::Clear } else { PtrStep::Lookup(cfg.below(5) as u32) });
    }
    let n_backed = script.len();
    script.push(PtrStep::Strong);
    script.push(PtrStep::Weak);
    let arc = cfg.below(2) == 1;
    set_note(format!("{:?} on one input and one DeserializationContext, every step whatever the previous returned", script));
    macro_rules! stream {
        ($P:ident, $W:ident, $T:ty, $mk:expr, $name:expr) => {{
            let pool: Vec<$P<$T>> = (0..pool_n).map(|k| $P::new($mk(k, &mut r))).collect();
            let mut sctx = if detect { SerializationContext::new() } else { SerializationContext::without_cycle_detection() };
            let mut o = VecDataOutput::new();
            for &(pi, form) in &items {
                match form {
                    0 => <$P<$T> as SmartPtrSerialize<$T>>::serialize_with_context(&pool[pi], &mut o, &mut sctx),
                    1 => <$W<$T> as SmartPtrSerialize<$T>>::serialize_with_context(&$P::downgrade(&pool[pi]), &mut o, &mut sctx),
                    _ => <$W<$T> as SmartPtrSerialize<$T>>::serialize_with_context(&$W::new(), &mut o, &mut sctx),
                }
                .map_err(es)?;
            }
            let bytes = o.into_vec();
            Ok(Prepared {
                target: format!("{}::deserialize_with_context(stream)[{}]", $name, if detect { "shared" } else { "no-sharing" }),
                bytes,
                truth: None,
                stable: true,
                decode: Box::new(move |b, _| {
                    let mut input = SliceDataInput::new(b);
                    let mut ctx: DeserializationContext<$P<$T>> = DeserializationContext::new();
                    let mut all = true;
                    let mut acc = 0u64;
                    for (k, st) in script.iter().enumerate() {
                        let ok = match *st {
                            PtrStep::Strong => match <$P<$T> as SmartPtrSerialize<$T>>::deserialize_with_context(&mut input, &mut ctx) {
                                Ok(p) => {
                                    acc ^= $P::strong_count(&p) as u64;
                                    true
                                }
                                Err(_) => false,
                            },
                            PtrStep::Weak => match <$W<$T> as SmartPtrSerialize<$T>>::deserialize_with_context(&mut input, &mut DeserializationContext::new()) {
                                Ok(w) => {
                                    acc ^= w.upgrade().is_some() as u64;
                                    true
                                }
                                Err(_) => false,
                            },
                            PtrStep::Clear => {
                                ctx.clear();
                                true
                            }
                            PtrStep::Lookup(id) => {
                                acc ^= ctx.get_object(id).map(|p| $P::strong_count(p)).unwrap_or(0) as u64;
                                true
                            }
                        };
                        // verdict for the trace: the items of the valid stream (the two reads behind it do not count)
                        all &= ok || k >= n_backed;
                        acc = acc.wrapping_mul(31).wrapping_add(input.observe());
                    }
                    std::hint::black_box(acc);
                    all
                }),
            })
        }};
    }
    if arc {
        stream!(Arc, ArcWeak, Vec<u32>, |k: usize, r: &mut Rng| -> Vec<u32> { (0..r.below(4)).map(|j| (k as u32) * 100 + j as u32).collect() }, "Arc<Vec<u32>>")
    } else {
        stream!(Rc, RcWeak, String, |k: usize, r: &mut Rng| -> String { (0..r.below(9)).map(|_| (b'a' + r.below(26) as u8) as char).chain(std::iter::once((b'0' + k as u8) as char)).collect() }, "Rc<String>")
    }
}

// ---- complex types: several values of different types back to back in ONE input, read with the
//      trait entry points (with metadata / nested with a depth / with an explicit version),
//      going on after a refused value

fn ct_write<T: ComplexSerialize>(v: &T, mode: u8, arg: u32, o: &mut VecDataOutput) {
    // a value the writer itself refuses (depth beyond max_depth) leaves no bytes: the reader is misaligned from there on
    let _ = match mode {
        0 => v.serialize_with_metadata(o),
        1 => v.serialize_nested(o, arg as usize),
        _ => v.serialize_data(o),
    };
}

fn ct_read<T: ComplexSerialize>(mode: u8, arg: u32, i: &mut SliceDataInput) -> bool {
    match mode {
        0 => T::deserialize_with_metadata(i).is_ok(),
        1 => <T as NestedSerialize>::deserialize_nested(i, arg as usize).is_ok(),
        _ => T::deserialize_with_version(i, arg).is_ok(),
    }
}

type CtTuple12 = (u8, i8, u16, i16, u32, i32, u64, i64, bool, String, u8, u8);

fn prep_complex_stream(cfg: &Chan, _s: &Rc<Scratch>) -> Result<Prepared, String> {
    let mut r = Rng::new(cfg.below(1 << 30));
    let n_items = 2 + cfg.below(5) as usize;
    let names = ["()", "tuple12", "[i16;5]", "Option<bool>", "Result<i64,String>", "BTreeMap<i32,Vec<u8>>", "BTreeSet<String>", "Option<Vec<String>>", "[String;2]", "(Vec<u32>,Option<String>)"];
    // (type, mode, depth or version)
    let items: Vec<(u8, u8, u32)> = (0..n_items)
        .map(|_| {
            let mode = cfg.below(3) as u8;
            let arg = if mode == 1 { *cfg.pick(&[0u32, 5, 1000, 1001]) } else { *cfg.pick(&[1u32, 1, 0, 2, u32::MAX]) };
            (cfg.below(10) as u8, mode, arg)
        })
        .collect();
    let mut st = |r: &mut Rng, max: u64| -> String { (0..r.below(max)).map(|_| (b'a' + r.below(26) as u8) as char).collect() };
    let mut o = VecDataOutput::new();
    for &(t, mode, arg) in &items {
        let x = r.below(1 << 32);
        match t {
            0 => ct_write(&(), mode, arg, &mut o),
            1 => {
                let v: CtTuple12 = (x as u8, x as i8, x as u16, x as i16, x as u32, x as i32, x << 13, -(x as i64), x % 2 == 0, st(&mut r, 9), 7, 8);
                ct_write(&v, mode, arg, &mut o)
            }
            2 => ct_write(&[x as i16, -1, 0, i16::MIN, 5], mode, arg, &mut o),
            3 => ct_write(&(if x % 3 == 0 { None } else { Some(x % 2 == 0) }), mode, arg, &mut o),
            4 => ct_write::<Result<i64, String>>(&(if x % 2 == 0 { Ok(-(x as i64)) } else { Err(st(&mut r, 9)) }), mode, arg, &mut o),
            5 => ct_write(&BTreeMap::from([(x as i32, vec![1u8, 2, 3]), (-1, vec![]), (7, vec![x as u8])]), mode, arg, &mut o),
            6 => ct_write(&BTreeSet::from([st(&mut r, 9), st(&mut r, 3), String::new()]), mode, arg, &mut o),
            7 => ct_write(&(if x % 4 == 0 { None } else { Some(vec![st(&mut r, 9), String::new()]) }), mode, arg, &mut o),
            8 => ct_write(&[st(&mut r, 9), st(&mut r, 20)], mode, arg, &mut o),
            _ => ct_write(&(vec![x as u32, 2, 3], if x % 2 == 0 { Some(st(&mut r, 9)) } else { None }), mode, arg, &mut o),
        }
    }
    let bytes = o.into_vec();
    let mut script = items.clone();
    let n_backed = script.len();
    // two more values are asked for behind the last one
    script.push((cfg.below(10) as u8, 0, 1));
    script.push((cfg.below(10) as u8, 2, 1));
    set_note(format!(
        "{} on one SliceDataInput, every value whatever the previous returned",
        script.iter().map(|&(t, m, a)| format!("{}{}", names[t as usize], match m { 0 => "+meta".to_string(), 1 => format!("+nested@{}", a), _ => format!("+v{}", a) })).collect::<Vec<_>>().join(", ")
    ));
    Ok(Prepared {
        target: "ComplexSerialize::deserialize_*(stream)".into(),
        bytes,
        truth: None,
        stable: true,
        decode: Box::new(move |b, _| {
            let mut i = SliceDataInput::new(b);
            let mut all = true;
            let mut acc = 0u64;
            for (k, &(t, mode, arg)) in script.iter().enumerate() {
                let ok = match t {
                    0 => ct_read::<()>(mode, arg, &mut i),
                    1 => ct_read::<CtTuple12>(mode, arg, &mut i),
                    2 => ct_read::<[i16; 5]>(mode, arg, &mut i),
                    3 => ct_read::<Option<bool>>(mode, arg, &mut i),
                    4 => ct_read::<Result<i64, String>>(mode, arg, &mut i),
                    5 => ct_read::<BTreeMap<i32, Vec<u8>>>(mode, arg, &mut i),
                    6 => ct_read::<BTreeSet<String>>(mode, arg, &mut i),
                    7 => ct_read::<Option<Vec<String>>>(mode, arg, &mut i),
                    8 => ct_read::<[String; 2]>(mode, arg, &mut i),
                    _ => ct_read::<(Vec<u32>, Option<String>)>(mode, arg, &mut i),
                };
                // verdict for the trace: the values of the valid stream (the two behind it do not count)
                all &= ok || k >= n_backed;
                acc = acc.wrapping_mul(31).wrapping_add(i.observe());
            }
            // and plain elements straight from the same input
            let _ = (<u16 as SerializableType>::deserialize(&mut i).is_ok(), <String as SerializableType>::deserialize(&mut i).is_ok(), <Vec<i8> as SerializableType>::deserialize(&mut i).is_ok());
            acc ^= i.observe();
            std::hint::black_box(acc);
            all
        }),
    })
}

// ---------------------------------------------------------------------------------------

fn families() -> Vec<Family> {
    vec![
        Family { name: "huffman/tree-deserialize", quick: 300, thorough: 18000, ops: 40, slow: false, hdr: HDR_STEP, prepare: prep_huffman_tree },
        Family { name: "huffman/decode", quick: 300, thorough: 18000, ops: 40, slow: false, hdr: HDR_STEP, prepare: prep_huffman_decode },
        Family { name: "huffman/contextual-deserialize", quick: 32, thorough: 1920, ops: 24, slow: false, hdr: HDR_STEP, prepare: prep_ctx_huffman_deser },
        Family { name: "huffman/contextual-decode", quick: 120, thorough: 7200, ops: 32, slow: false, hdr: HDR_STEP, prepare: prep_ctx_huffman_decode },
        Family { name: "huffman/interleaved-decode", quick: 24, thorough: 1440, ops: 8, slow: true, hdr: HDR_STEP_SLOW, prepare: prep_huffman_interleaved },
        Family { name: "fse/decompress", quick: 200, thorough: 12000, ops: 40, slow: false, hdr: 0, prepare: prep_fse },
        Family { name: "fse/dict_zip-wrappers", quick: 200, thorough: 12000, ops: 40, slow: false, hdr: 0, prepare: prep_pz_fse },
        Family { name: "rans/decode", quick: 300, thorough: 18000, ops: 40, slow: false, hdr: HDR_STEP, prepare: prep_rans },
        Family { name: "dictionary/entropy", quick: 200, thorough: 12000, ops: 40, slow: false, hdr: HDR_STEP, prepare: prep_dictionary },
        Family { name: "compressor/decompress", quick: 300, thorough: 18000, ops: 40, slow: false, hdr: HDR_STEP, prepare: prep_compressor },
        Family { name: "simd_lz77/decompress", quick: 200, thorough: 12000, ops: 40, slow: false, hdr: HDR_STEP, prepare: prep_simd_lz77 },
        Family { name: "pa_zip/match-stream", quick: 300, thorough: 18000, ops: 48, slow: false, hdr: HDR_STEP, prepare: prep_pz_matches },
        Family { name: "pa_zip/decompress", quick: 150, thorough: 9000, ops: 48, slow: false, hdr: HDR_STEP, prepare: prep_pazip },
        Family { name: "var_int/decode", quick: 400, thorough: 24000, ops: 48, slow: false, hdr: HDR_STEP, prepare: prep_var_int },
        Family { name: "var_int_variants/decode", quick: 2000, thorough: 40000, ops: 48, slow: false, hdr: HDR_STEP, prepare: prep_var_int_variants },
        Family { name: "data_input/read", quick: 400, thorough: 24000, ops: 48, slow: false, hdr: HDR_STEP, prepare: prep_data_input },
        Family { name: "complex_types/deserialize", quick: 500, thorough: 30000, ops: 48, slow: false, hdr: HDR_STEP, prepare: prep_complex },
        Family { name: "complex_types/large-maps", quick: 32, thorough: 1920, ops: 24, slow: true, hdr: HDR_STEP, prepare: prep_complex_large },
        Family { name: "smart_ptr/deserialize", quick: 400, thorough: 24000, ops: 48, slow: false, hdr: HDR_STEP, prepare: prep_smart_ptr },
        Family { name: "hex/decode", quick: 200, thorough: 12000, ops: 32, slow: false, hdr: HDR_STEP, prepare: prep_hex },
        Family { name: "base64/decode", quick: 200, thorough: 12000, ops: 32, slow: false, hdr: HDR_STEP, prepare: prep_base64 },
        Family { name: "reorder_map/open", quick: 900, thorough: 54_000, ops: 40, slow: false, hdr: HDR_STEP, prepare: prep_reorder_map },
        Family { name: "zip_offset/load", quick: 100, thorough: 6000, ops: 40, slow: false, hdr: HDR_STEP, prepare: prep_zip_offset },
        Family { name: "mmap_vec/open", quick: 80, thorough: 4800, ops: 40, slow: false, hdr: HDR_STEP, prepare: prep_mmap_vec },
        // sessions: one object, a fixed call script that goes on after every refusal
        Family { name: "data_input/session", quick: 400, thorough: 24000, ops: 48, slow: false, hdr: HDR_STEP, prepare: prep_input_session },
        Family { name: "pa_zip/bit-reader-session", quick: 200, thorough: 12000, ops: 48, slow: false, hdr: HDR_STEP, prepare: prep_bit_reader_session },
        Family { name: "smart_ptr/stream", quick: 250, thorough: 15000, ops: 48, slow: false, hdr: HDR_STEP, prepare: prep_smart_ptr_stream },
        Family { name: "complex_types/stream", quick: 250, thorough: 15000, ops: 48, slow: false, hdr: HDR_STEP, prepare: prep_complex_stream },
    ]
}

fn main() {
    let args: Vec<String> = std::env::args().skip(1).collect();
    if args.first().map(|s| s.as_str()) == Some("c15child") {
        child_main(&families(), &args[1..]);
    }
    let mut spec = CheckSpec::new(
        "C15",
        "fault_enumeration",
        "per run: one parser, one valid encoding produced by the real encoder from a seeded value; EVERY truncation length of that image is tried (all lengths up to 4 KiB, then every 512-byte boundary +-1) \
         every one of the first 16 bytes one up and one down (6 for the 35 ms-per-call interleaved decoder, none for the FSE frames), \
         and a seeded list of damaged copies (byte substitution, bit flips, +-1, maximised 2/4/8-byte windows and var-ints, plausible large lengths, appended garbage, zero tails, bytes deleted or \
         inserted in the middle, the image repeated behind itself, 1-3 combined), each with the \
         expected-length argument equal/below (incl. 0)/above the truth where the API takes one; which values and which non-truncation damages are tried is seeded search. \
         session scenarios (data_input/session, pa_zip/bit-reader-session, smart_ptr/stream, complex_types/stream): the parser under test is ONE reader object plus a seeded script of calls that is \
         carried on after every refused call, with every accessor of the reader called after every step; stateful decoders (SIMD-LZ77, PA-Zip, FSE reused variants) are one object for all images of a run. \
         non-trivial = at least one damaged image was parsed; distinct = distinct hash of (parser, image size, per-case outcome trace)",
    );
    spec.assumptions = vec![
        "cases are damaged copies of valid encodings (storage/transport damage); arbitrary byte strings with no valid encoding behind them are not enumerated".into(),
        "the expected-length argument is a caller-chosen, plausible value (truth, truth-1, truth/2, truth+1, 2*truth+1, truth+1000); huge caller-supplied lengths are not tried".into(),
        "the build has debug assertions and overflow checks on (zsim profile): arithmetic overflow and debug_assert! failures on damaged input surface as panics; in a plain release build the same inputs wrap silently".into(),
        "HuffmanTree::deserialize rebuilds its tree by walking a RandomState HashMap: for a damaged code table that is not prefix-free its verdict and result differ between processes. Its Ok/Err is therefore not part of the event trace, and a deserialised tree is only USED further (decoding) when the table in the image is prefix-free (a pure function of the bytes), which keeps every crash verdict a function of the image".into(),
        "allocation: the 2 GiB address-space limit applies to the case-runner child; in addition a single request of >= 128 MiB made while parsing an image of at most a few hundred KiB is answered with failure straight away (ZstdCompressor's fixed 100 MB output bound passes)".into(),
        "time: one case may use 3 s (+ <1 s rounding) of CPU (RLIMIT_CPU) and 30 s of wall clock; beyond that it is a hang".into(),
        "after 2 process deaths in one run (or one hang) the remaining cases of that run are not executed".into(),
        "sessions: a length a script passes to skip/read_vec/read_bytes is a small constant, what is left +-1/+7, or a var-int the same reader has just returned (a field being stepped over); ReaderDataInput is driven over in-memory readers only (no I/O faults)".into(),
        "objects a loader accepted are used further (ZReorderMap iterated/rewound, ZipOffsetBlobStore read with and without its offset cache, a writable MmapVec pushed to, truncated, resized, cleared); index()/current() of ZReorderMap only while !eof() as documented".into(),
        "src/ffi/c_api.rs is compiled only under the non-default `ffi` feature and is not exercised; blob_store/sorted_uint_vec.rs has no byte loader".into(),
    ];
    spec.components = vec![
        ("entropy::{huffman,fse,rans,dictionary} encoders and decoders", "real"),
        ("compression::{Compressor impls, simd_lz77, dict_zip::{compressor,compression_types}}", "real"),
        ("blob_store::{zip_offset,reorder_map}, memory::mmap_vec (files in a per-run scratch directory)", "real"),
        ("io::{var_int,var_int_variants,complex_types,smart_ptr,data_input}, string::hex, system::base64", "real"),
        ("storage/transport damage", "simulated: truncation at every length, seeded byte/window/var-int damage of the stored image"),
    ];
    spec.init = zsim_props::install_hooks;
    spec.rlimit_as_mb = 2048;
    // a single case is watched by the worker (CASE_HANG_SECS); a run may contain up to MAX_DEATHS_PER_RUN slow deaths
    spec.hang_secs = 90;
    let fams = families();
    for f in fams {
        spec.scenarios.push(Box::new(f));
    }
    zsim_core::driver::main(spec);
}
