//! Glue between zipora's guarded seam (`zipora::verif`) and zsim-core.

use zipora::verif::{Hooks, MemEv, Op};

fn point(loc: &'static std::panic::Location<'static>, op: Op, addr: usize) {
    zsim_core::e1::point(loc.file(), loc.line(), op as u8, addr);
}
fn blocked(addr: usize) {
    zsim_core::e1::blocked(addr);
}
fn mem(ev: MemEv, addr: usize, tag: &'static str) {
    zsim_core::e1::mem(ev as u8, addr, tag);
}

/// Install the hook table into zipora (idempotent).
pub fn install_hooks() {
    zipora::verif::install(Hooks {
        point,
        blocked,
        mem,
        async_yields: zsim_core::hooks::async_yields,
        now_skew_ns: zsim_core::hooks::now_skew_ns,
        fault: zsim_core::hooks::fault,
    });
}
