//! E1 — seeded scheduler over real OS threads ("baton" scheduler).
//!
//! Exactly one registered thread runs at a time.  Every shimmed synchronisation operation
//! in the code under test calls `point()`, where the running thread asks the schedule
//! channel who runs next, hands the baton over and parks.  All cross-thread communication
//! therefore happens in a total order chosen by the tape: a run is a pure function of its
//! tapes (sequentially consistent interleavings only).
//!
//! Tape encoding of a scheduling decision with the current thread runnable:
//! 0 = keep running, k>0 = the k-th other runnable thread (ascending id).  Shrinking a
//! schedule tape towards zeros therefore removes context switches.

use crate::run::Violation;
use crate::source::Chan;
use std::any::Any;
use std::cell::{Cell, RefCell};
use std::collections::HashMap;
use std::panic::{catch_unwind, resume_unwind, AssertUnwindSafe};
use std::sync::atomic::{AtomicBool, Ordering};
use std::sync::{Arc, Condvar, Mutex};

pub const OP_LOAD: u8 = 0;
pub const OP_STORE: u8 = 1;
pub const OP_RMW: u8 = 2;
pub const OP_CAS: u8 = 3;
pub const OP_LOCK: u8 = 4;
pub const OP_READ: u8 = 6;
pub const OP_WRITE: u8 = 7;
pub const OP_AFTER: u8 = 9;
pub const OP_NAMES: [&str; 10] = ["load", "store", "rmw", "cas", "lock", "try_lock", "read", "write", "other", "(done)"];

/// Payload used to unwind simulated threads when a run is cut short.
pub struct SimAbort;

#[derive(Clone, Copy, PartialEq, Eq, Debug)]
enum Status {
    Ready,
    Blocked,
    Done,
}

pub type Body = Box<dyn FnOnce(usize) + Send + 'static>;
/// Evaluated while every simulated thread is parked.  Must not take locks that the code
/// under test may hold.  Returns the violated (class, site, detail).
pub type Invariant = Box<dyn FnMut() -> Option<Violation> + Send + 'static>;

/// How scheduling decisions are *generated* (replay only reads the tape, whatever the strategy was).
#[derive(Clone, Debug, PartialEq)]
pub enum Strategy {
    /// at every point: keep running with probability 1 - switch_num/switch_den, else a uniformly chosen other thread
    Random,
    /// PCT-style: random thread priorities, run the highest-priority runnable thread, and at `depth`
    /// random steps (within the first `horizon` steps) demote the running thread below everybody
    Pct { depth: u32, horizon: u64 },
}

#[derive(Clone, Debug)]
pub struct E1Cfg {
    pub strategy: Strategy,
    pub max_steps: u64,
    /// probability (num/den) of a context switch at a point where the current thread could continue
    pub switch_num: u64,
    pub switch_den: u64,
}

impl Default for E1Cfg {
    fn default() -> Self {
        E1Cfg { strategy: Strategy::Random, max_steps: 4000, switch_num: 1, switch_den: 3 }
    }
}

/// Swarm choice of a scheduling strategy for one run.
pub fn draw_cfg(cfg: &Chan, max_steps: u64) -> E1Cfg {
    // switch probability per scheduling point from 1/2 down to 1/100 ("sticky" runs: one thread does
    // whole operations while another sits inside a window); PCT change points anywhere in the first
    // 20 .. 1000 steps
    let den = *cfg.pick(&[2u64, 3, 5, 10, 30, 100]);
    let strategy = if cfg.chance(1, 3) { Strategy::Pct { depth: 1 + cfg.below(3) as u32, horizon: *cfg.pick(&[20u64, 60, 150, 400, 1000]) } } else { Strategy::Random };
    E1Cfg { strategy, max_steps, switch_num: 1, switch_den: den }
}

#[derive(Debug, Default)]
pub struct E1Result {
    pub steps: u64,
    pub switches: u64,
    /// context switches placed between an atomic load and the following RMW/CAS/store of the same thread on the same address
    pub window_preempts: u64,
    pub violation: Option<Violation>,
    pub abandoned: bool,
    pub hash: u64,
    /// (thread, file, line, op) of the first steps, for the human-readable trace
    pub log: Vec<(u8, &'static str, u32, u8)>,
    pub lock_waits: u64,
}

struct St {
    status: Vec<Status>,
    started: Vec<bool>,
    parked_forever: Vec<bool>,
    current: usize,
    step: u64,
    switches: u64,
    window_preempts: u64,
    lock_waits: u64,
    /// rounds of "everybody blocked, let the waiters retry" since the last real progress
    stall_rounds: u32,
    cfg: E1Cfg,
    sched: Chan,
    last: Vec<(u8, usize)>,
    log: Vec<(u8, &'static str, u32, u8)>,
    hash: u64,
    inv: Option<Invariant>,
    violation: Option<Violation>,
    abort: bool,
    abandoned: bool,
    /// PCT state (generation only)
    prio: Vec<i64>,
    change_points: Vec<u64>,
    low_water: i64,
}

struct Shared {
    m: Mutex<St>,
    cv: Condvar,
}

const NONE: usize = usize::MAX;

/// Registered first on every simulated thread, hence destroyed last (std runs TLS
/// destructors in reverse registration order): thread-local destructors of the code under
/// test (token caches, pool caches) still run *with the baton*, and only then does the
/// thread report itself done.
struct MeGuard {
    sh: Arc<Shared>,
    id: usize,
    panic: Option<Violation>,
}

impl Drop for MeGuard {
    fn drop(&mut self) {
        self.sh.finish(self.id, self.panic.take());
    }
}

thread_local! {
    static ME: RefCell<Option<MeGuard>> = const { RefCell::new(None) };
    static SUSPEND: Cell<u32> = const { Cell::new(0) };
    /// set once the thread body has returned: TLS destructors must not be unwound
    static NO_UNWIND: Cell<bool> = const { Cell::new(false) };
}

fn must_not_unwind() -> bool {
    std::thread::panicking() || NO_UNWIND.with(|c| c.get())
}

/// Run `f` with scheduling points disabled on this thread (harness bookkeeping that calls
/// into shimmed code, e.g. reading counters inside an invariant).
pub fn suspended<R>(f: impl FnOnce() -> R) -> R {
    SUSPEND.with(|s| s.set(s.get() + 1));
    let r = f();
    SUSPEND.with(|s| s.set(s.get() - 1));
    r
}

pub fn in_sim() -> bool {
    ME.try_with(|m| m.try_borrow().map(|g| g.is_some()).unwrap_or(false)).unwrap_or(false)
}

fn me() -> Option<(Arc<Shared>, usize)> {
    if SUSPEND.with(|s| s.get()) > 0 {
        return None;
    }
    ME.try_with(|m| m.try_borrow().ok().and_then(|g| g.as_ref().map(|g| (g.sh.clone(), g.id)))).ok().flatten()
}

/// Hook: a shimmed synchronisation operation is about to run.
pub fn point(file: &'static str, line: u32, op: u8, addr: usize) {
    if let Some((sh, id)) = me() {
        sh.step(id, file, line, op, addr, false);
    }
}

/// Hook: the calling thread failed to take a lock.
pub fn blocked(_addr: usize) {
    match me() {
        Some((sh, id)) => sh.step(id, "<blocked>", 0, 8, 0, true),
        None => std::thread::yield_now(),
    }
}

/// Stop the calling simulated thread for good because continuing would perform an invalid
/// access: unwind when that is possible; otherwise (inside a destructor that must not
/// unwind) report the thread done and park it forever (the OS thread is leaked).
pub fn abort_current_thread(v: Violation) {
    let who = ME.try_with(|m| m.try_borrow().ok().and_then(|g| g.as_ref().map(|g| (g.sh.clone(), g.id)))).ok().flatten();
    let Some((sh, id)) = who else { return };
    {
        let mut st = sh.m.lock().unwrap();
        if st.violation.is_none() {
            st.violation = Some(v);
        }
        st.abort = true;
        if must_not_unwind() {
            st.parked_forever[id] = true;
        }
    }
    if !must_not_unwind() {
        resume_unwind(Box::new(SimAbort));
    }
    sh.finish(id, None);
    loop {
        std::thread::park();
    }
}

/// Explicit scheduling point for harness code (e.g. between two API calls).
pub fn harness_point(line: u32) {
    point("<harness>", line, 8, 0);
}

impl Shared {
    fn pick(st: &mut St, me: usize, me_ready: bool) -> Option<usize> {
        let others: Vec<usize> = (0..st.status.len()).filter(|&i| i != me && st.status[i] == Status::Ready).collect();
        if let Strategy::Pct { .. } = st.cfg.strategy {
            // demotion points
            if me_ready && st.change_points.contains(&st.step) {
                st.low_water -= 1;
                st.prio[me] = st.low_water;
            }
            let mut cands: Vec<usize> = vec![];
            if me_ready {
                cands.push(me);
            }
            cands.extend(others.iter().cloned());
            if cands.is_empty() {
                return None;
            }
            if cands.len() == 1 {
                return Some(cands[0]);
            }
            let best = (0..cands.len()).max_by_key(|&k| st.prio[cands[k]]).unwrap() as u64;
            let c = st.sched.decide(cands.len() as u64, |_| best);
            return Some(cands[c as usize]);
        }
        if me_ready {
            if others.is_empty() {
                return Some(me);
            }
            let c = st.sched.biased_zero(1 + others.len() as u64, st.cfg.switch_num, st.cfg.switch_den);
            Some(if c == 0 { me } else { others[(c - 1) as usize] })
        } else {
            match others.len() {
                0 => None,
                1 => Some(others[0]),
                n => Some(others[st.sched.below(n as u64) as usize]),
            }
        }
    }

    /// The next thread after `not` (cyclically) that is not done (used while aborting, no tape
    /// draw).  Cyclic order matters: two threads blocked on a lock held by a third must not
    /// hand the baton back and forth between themselves.
    fn any_live(st: &St, not: usize) -> Option<usize> {
        let n = st.status.len();
        (1..n).map(|k| (not + k) % n).find(|&i| st.status[i] != Status::Done)
    }

    fn step(self: &Arc<Self>, me: usize, file: &'static str, line: u32, op: u8, addr: usize, is_blocked: bool) {
        let mut st = self.m.lock().unwrap();
        debug_assert_eq!(st.current, me, "thread ran without the baton");
        if st.abort {
            if !is_blocked {
                if must_not_unwind() {
                    return; // unwinding: Drop code runs straight through
                }
                drop(st);
                resume_unwind(Box::new(SimAbort));
            }
            // blocked while aborting: let the others unwind and release what they hold
            match Self::any_live(&st, me) {
                Some(n) => {
                    st.current = n;
                    self.cv.notify_all();
                    while st.current != me {
                        st = self.cv.wait(st).unwrap();
                    }
                    return;
                }
                None => {
                    eprintln!("zsim e1: lock can never be acquired while aborting (leaked guard?)");
                    std::process::exit(2);
                }
            }
        }
        if check_mem_flag() {
            if let Some(v) = take_mem_violation() {
                st.violation = Some(v);
                st.abort = true;
                drop(st);
                if must_not_unwind() {
                    return;
                }
                resume_unwind(Box::new(SimAbort));
            }
        }
        st.step += 1;
        st.hash = (st.hash ^ ((me as u64) << 40 | (line as u64) << 8 | op as u64)).wrapping_mul(0x0000_0100_0000_01B3).rotate_left(27);
        if st.log.len() < 400 {
            st.log.push((me as u8, file, line, op));
        }
        if st.step > st.cfg.max_steps {
            st.abandoned = true;
            st.abort = true;
            drop(st);
            if must_not_unwind() {
                return;
            }
            resume_unwind(Box::new(SimAbort));
        }
        // progress by `me`: lock waiters may retry.  An attempt to take a lock (the point before
        // it, or the failed attempt itself) is not progress: two waiters would otherwise wake
        // each other for ever while the holder, of lower priority, never runs.
        let lock_attempt = op == OP_LOCK || op == OP_READ || op == OP_WRITE;
        if !is_blocked && !lock_attempt {
            st.stall_rounds = 0;
            for i in 0..st.status.len() {
                if i != me && st.status[i] == Status::Blocked {
                    st.status[i] = Status::Ready;
                }
            }
        }
        // invariants, with every thread parked
        if let Some(mut inv) = st.inv.take() {
            let r = suspended(|| inv());
            st.inv = Some(inv);
            if let Some(v) = r {
                st.violation = Some(v);
                st.abort = true;
                drop(st);
                if must_not_unwind() {
                    return;
                }
                resume_unwind(Box::new(SimAbort));
            }
        }
        if is_blocked {
            st.lock_waits += 1;
            st.status[me] = Status::Blocked;
        }
        let mut next = Self::pick(&mut st, me, !is_blocked);
        if next.is_none() && st.stall_rounds <= 2 * st.status.len() as u32 {
            // nobody is runnable, but a release of a lock is not observable: let every waiter
            // try once more; only rounds of retries without any progress in between are a deadlock
            let mut any = false;
            for i in 0..st.status.len() {
                if i != me && st.status[i] == Status::Blocked {
                    st.status[i] = Status::Ready;
                    any = true;
                }
            }
            if any {
                st.stall_rounds += 1;
                next = Self::pick(&mut st, me, false);
            }
        }
        let next = match next {
            Some(n) => n,
            None => {
                // everybody else is done or blocked and so am I
                st.violation = Some(Violation::new("deadlock", "e1.scheduler", format!("thread {} blocked with no runnable thread", me)));
                st.abort = true;
                st.status[me] = Status::Ready;
                drop(st);
                if must_not_unwind() {
                    std::process::exit(2);
                }
                resume_unwind(Box::new(SimAbort));
            }
        };
        if next != me {
            st.switches += 1;
            let (lop, laddr) = st.last[me];
            if !is_blocked && lop == OP_LOAD && laddr == addr && addr != 0 && (op == OP_CAS || op == OP_RMW || op == OP_STORE || op == OP_AFTER) {
                st.window_preempts += 1;
            }
            st.current = next;
            self.cv.notify_all();
            while st.current != me {
                st = self.cv.wait(st).unwrap();
            }
            if st.abort && !must_not_unwind() {
                drop(st);
                resume_unwind(Box::new(SimAbort));
            }
        }
        if !is_blocked {
            if op != OP_AFTER {
                st.last[me] = (op, addr);
            }
        } else if st.status[me] == Status::Blocked {
            st.status[me] = Status::Ready;
        }
    }

    fn finish(self: &Arc<Self>, me: usize, panic: Option<Violation>) {
        let mut st = self.m.lock().unwrap();
        st.status[me] = Status::Done;
        if let Some(v) = panic {
            if st.violation.is_none() {
                st.violation = Some(v);
            }
            st.abort = true;
        }
        for i in 0..st.status.len() {
            if st.status[i] == Status::Blocked {
                st.status[i] = Status::Ready;
            }
        }
        if !st.abort {
            if let Some(mut inv) = st.inv.take() {
                let r = suspended(|| inv());
                st.inv = Some(inv);
                if let Some(v) = r {
                    st.violation = Some(v);
                    st.abort = true;
                }
            }
        }
        let next = if st.abort { Self::any_live(&st, me) } else { Self::pick(&mut st, me, false) };
        st.current = next.unwrap_or(NONE);
        self.cv.notify_all();
    }
}

/// Location of the most recent panic on this thread (set by the hook installed by the driver).
thread_local! {
    pub static LAST_PANIC: RefCell<Option<(String, String)>> = const { RefCell::new(None) };
}

pub fn panic_violation(payload: &Box<dyn Any + Send>) -> Option<Violation> {
    if payload.is::<SimAbort>() {
        return None;
    }
    let (loc, msg) = LAST_PANIC.with(|l| l.borrow_mut().take()).unwrap_or_else(|| ("<unknown>".into(), "<no message>".into()));
    Some(Violation::new("panic", &loc, msg))
}

/// Run the bodies as simulated threads under the schedule channel.  Blocks until all are done.
pub fn run_threads(sched: &Chan, cfg: &E1Cfg, bodies: Vec<Body>, inv: Option<Invariant>) -> E1Result {
    let n = bodies.len();
    let sh = Arc::new(Shared {
        m: Mutex::new(St {
            status: vec![Status::Ready; n],
            started: vec![false; n],
            parked_forever: vec![false; n],
            current: NONE,
            step: 0,
            switches: 0,
            window_preempts: 0,
            lock_waits: 0,
            stall_rounds: 0,
            cfg: cfg.clone(),
            sched: sched.clone(),
            last: vec![(8, 0); n],
            log: Vec::new(),
            hash: 0,
            inv,
            violation: None,
            abort: false,
            abandoned: false,
            prio: vec![],
            change_points: vec![],
            low_water: 0,
        }),
        cv: Condvar::new(),
    });
    if let Strategy::Pct { depth, horizon } = cfg.strategy {
        let mut st = sh.m.lock().unwrap();
        // priorities: a random permutation, drawn through the tape so that replay sees the same values
        let mut order: Vec<usize> = (0..n).collect();
        for i in (1..n).rev() {
            let j = sched.below(i as u64 + 1) as usize;
            order.swap(i, j);
        }
        st.prio = vec![0; n];
        for (rank, &t) in order.iter().enumerate() {
            st.prio[t] = (n - rank) as i64;
        }
        st.change_points = (0..depth).map(|_| 1 + sched.below(horizon.max(1))).collect();
    }
    let mut handles = Vec::new();
    for (i, body) in bodies.into_iter().enumerate() {
        let sh2 = sh.clone();
        let h = std::thread::Builder::new()
            .name(format!("sim{}", i))
            .stack_size(512 * 1024)
            .spawn(move || {
                ME.with(|m| *m.borrow_mut() = Some(MeGuard { sh: sh2.clone(), id: i, panic: None }));
                // wait for the first baton
                let run_body = {
                    let mut st = sh2.m.lock().unwrap();
                    st.started[i] = true;
                    sh2.cv.notify_all();
                    while st.current != i {
                        st = sh2.cv.wait(st).unwrap();
                    }
                    !st.abort
                };
                let mut pv = None;
                if run_body {
                    let r = catch_unwind(AssertUnwindSafe(|| body(i)));
                    if let Err(p) = r {
                        pv = panic_violation(&p);
                    }
                }
                // thread-local destructors of the code under test run after this closure,
                // still under the scheduler; MeGuard (destroyed last) then calls finish()
                NO_UNWIND.with(|c| c.set(true));
                ME.with(|m| {
                    if let Some(g) = m.borrow_mut().as_mut() {
                        g.panic = pv;
                    }
                });
            })
            .expect("spawn sim thread");
        handles.push(h);
    }
    {
        let mut st = sh.m.lock().unwrap();
        while !st.started.iter().all(|&b| b) {
            st = sh.cv.wait(st).unwrap();
        }
        // first thread to run
        let first = if n == 1 { 0 } else { st.sched.below(n as u64) as usize };
        st.current = first;
        sh.cv.notify_all();
        while !st.status.iter().all(|&s| s == Status::Done) {
            st = sh.cv.wait(st).unwrap();
        }
    }
    let parked: Vec<bool> = sh.m.lock().unwrap().parked_forever.clone();
    for (i, h) in handles.into_iter().enumerate() {
        if !parked[i] {
            let _ = h.join();
        }
    }
    let mut st = sh.m.lock().unwrap();
    if st.violation.is_none() {
        if let Some(v) = take_mem_violation() {
            st.violation = Some(v);
        }
    }
    E1Result {
        steps: st.step,
        switches: st.switches,
        window_preempts: st.window_preempts,
        violation: st.violation.take(),
        abandoned: st.abandoned,
        hash: st.hash,
        log: std::mem::take(&mut st.log),
        lock_waits: st.lock_waits,
    }
}

pub fn render_log(log: &[(u8, &'static str, u32, u8)], max: usize) -> Vec<String> {
    log.iter()
        .take(max)
        .map(|(t, f, l, o)| {
            let f = f.rsplit('/').next().unwrap_or(f);
            format!("t{} {}:{} {}", t, f, l, OP_NAMES.get(*o as usize).copied().unwrap_or("?"))
        })
        .collect()
}

// ---------------------------------------------------------------------------------------
// simulated heap liveness (born / died / touch)

struct MemReg {
    live: HashMap<usize, &'static str>,
    dead: HashMap<usize, &'static str>,
    violation: Option<Violation>,
}

static MEM_FLAG: AtomicBool = AtomicBool::new(false);
static MEM: Mutex<Option<MemReg>> = Mutex::new(None);

fn check_mem_flag() -> bool {
    MEM_FLAG.load(Ordering::Relaxed)
}

pub fn mem_reset() {
    let mut g = MEM.lock().unwrap();
    *g = Some(MemReg { live: HashMap::new(), dead: HashMap::new(), violation: None });
    MEM_FLAG.store(false, Ordering::Relaxed);
}

pub fn take_mem_violation() -> Option<Violation> {
    let mut g = MEM.lock().unwrap();
    MEM_FLAG.store(false, Ordering::Relaxed);
    g.as_mut().and_then(|r| r.violation.take())
}

pub const MEM_BORN: u8 = 0;
pub const MEM_DIED: u8 = 1;
pub const MEM_TOUCH: u8 = 2;

/// Hook: lifetime probe.  `touch` of an address that was born and has died (and has not been
/// born again since) is a use-after-free observation.  Addresses never seen are ignored.
pub fn mem(ev: u8, addr: usize, tag: &'static str) {
    let mut g = MEM.lock().unwrap();
    let Some(r) = g.as_mut() else { return };
    match ev {
        MEM_BORN => {
            r.dead.remove(&addr);
            r.live.insert(addr, tag);
        }
        MEM_DIED => {
            if r.live.remove(&addr).is_some() {
                r.dead.insert(addr, tag);
            }
        }
        _ => {
            if !r.live.contains_key(&addr) {
                if let Some(t) = r.dead.get(&addr) {
                    let v = Violation::new("use_after_free", tag, format!("touch of dead object (born as {})", t));
                    if in_sim() {
                        drop(g);
                        abort_current_thread(v);
                        return;
                    }
                    if r.violation.is_none() {
                        r.violation = Some(v);
                        MEM_FLAG.store(true, Ordering::Relaxed);
                    }
                }
            }
        }
    }
}

pub fn mem_live_count(tag: &str) -> usize {
    let g = MEM.lock().unwrap();
    g.as_ref().map(|r| r.live.values().filter(|t| **t == tag).count()).unwrap_or(0)
}
