//! Pluggable decision hooks for the non-scheduler seams (faults, async yields, clock skew).
//! A scenario installs closures for the duration of one run; without them every hook
//! answers "nothing unusual".

use std::sync::atomic::{AtomicU64, Ordering};
use std::sync::Mutex;

type FaultFn = Box<dyn FnMut(&'static str) -> bool + Send>;
type YieldFn = Box<dyn FnMut(&'static str) -> u32 + Send>;

static FAULT: Mutex<Option<FaultFn>> = Mutex::new(None);
static YIELDS: Mutex<Option<YieldFn>> = Mutex::new(None);
static SKEW_NS: AtomicU64 = AtomicU64::new(0);
type SkewFn = Box<dyn FnMut() -> u64 + Send>;
static SKEW_FN: Mutex<Option<SkewFn>> = Mutex::new(None);

pub fn set_fault(f: Option<FaultFn>) {
    *FAULT.lock().unwrap() = f;
}
pub fn set_yields(f: Option<YieldFn>) {
    *YIELDS.lock().unwrap() = f;
}
/// Closure called at every shimmed clock read; returns extra nanoseconds to add to the skew (monotone).
pub fn set_skew_fn(f: Option<SkewFn>) {
    *SKEW_FN.lock().unwrap() = f;
}
pub fn reset() {
    set_fault(None);
    set_yields(None);
    set_skew_fn(None);
    SKEW_NS.store(0, Ordering::SeqCst);
}

pub fn fault(site: &'static str) -> bool {
    match FAULT.try_lock() {
        Ok(mut g) => match g.as_mut() {
            Some(f) => f(site),
            None => false,
        },
        Err(_) => false,
    }
}
pub fn async_yields(site: &'static str) -> u32 {
    match YIELDS.try_lock() {
        Ok(mut g) => match g.as_mut() {
            Some(f) => f(site),
            None => 0,
        },
        Err(_) => 0,
    }
}
pub fn now_skew_ns() -> u64 {
    if let Ok(mut g) = SKEW_FN.try_lock() {
        if let Some(f) = g.as_mut() {
            let add = f();
            if add > 0 {
                SKEW_NS.fetch_add(add, Ordering::SeqCst);
            }
        }
    }
    SKEW_NS.load(Ordering::SeqCst)
}
pub fn add_skew_ns(ns: u64) {
    SKEW_NS.fetch_add(ns, Ordering::SeqCst);
}
