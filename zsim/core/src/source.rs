//! The single source of every random decision of a run.
//!
//! A `Source` is a set of named channels.  In *generate* mode a channel draws from a PRNG
//! derived from (run seed, channel name) and records what it returned; in *replay* mode it
//! reads a recorded tape instead (clamping to the requested range, 0 when exhausted).  The
//! tapes are therefore the whole replay file, and shrinking is editing tapes.
//!
//! Channels are separate so that deleting an operation from the workload tape does not
//! shift the meaning of every later scheduling or fault decision.

use crate::rng::{hash_str, mix, Rng};
use serde_json::{json, Map, Value};
use std::collections::BTreeMap;
use std::sync::{Arc, Mutex};

struct ChanInner {
    rng: Rng,
    replay: bool,
    tape: Vec<u64>,
    pos: usize,
    out: Vec<u64>,
    stride: usize,
}

#[derive(Clone)]
pub struct Chan(Arc<Mutex<ChanInner>>);

impl Chan {
    fn new_gen(seed: u64, stride: usize) -> Chan {
        Chan(Arc::new(Mutex::new(ChanInner { rng: Rng::new(seed), replay: false, tape: vec![], pos: 0, out: vec![], stride })))
    }
    fn new_replay(tape: Vec<u64>, stride: usize) -> Chan {
        Chan(Arc::new(Mutex::new(ChanInner { rng: Rng::new(0), replay: true, tape, pos: 0, out: vec![], stride })))
    }
    /// Is this channel replaying a tape?
    pub fn is_replay(&self) -> bool {
        self.0.lock().unwrap().replay
    }
    /// In replay mode: are there recorded values left?
    pub fn exhausted(&self) -> bool {
        let c = self.0.lock().unwrap();
        c.replay && c.pos >= c.tape.len()
    }
    pub fn set_stride(&self, s: usize) {
        self.0.lock().unwrap().stride = s.max(1);
    }
    fn draw(&self, n: u64, gen: impl FnOnce(&mut Rng) -> u64) -> u64 {
        let mut c = self.0.lock().unwrap();
        let n = n.max(1);
        let v = if c.replay {
            let v = c.tape.get(c.pos).copied().unwrap_or(0);
            c.pos += 1;
            if v >= n { n - 1 } else { v }
        } else {
            let v = gen(&mut c.rng);
            debug_assert!(v < n);
            v
        };
        c.out.push(v);
        v
    }
    /// A decision in 0..n computed by `f` in generate mode (it may use the PRNG or ignore it) and
    /// read from the tape in replay mode.
    pub fn decide(&self, n: u64, f: impl FnOnce(&mut Rng) -> u64) -> u64 {
        self.draw(n, |r| f(r).min(n.max(1) - 1))
    }
    /// Uniform in 0..n.
    pub fn below(&self, n: u64) -> u64 {
        self.draw(n, |r| r.below(n))
    }
    /// Uniform in lo..=hi.
    pub fn range(&self, lo: u64, hi: u64) -> u64 {
        lo + self.below(hi - lo + 1)
    }
    /// True with probability num/den.  The rare/faulty outcome should be `true`, so that
    /// shrinking towards 0 removes it.
    pub fn chance(&self, num: u64, den: u64) -> bool {
        self.draw(2, |r| if r.below(den.max(1)) < num { 1 } else { 0 }) == 1
    }
    /// 0 with probability 1 - num/den, otherwise uniform in 1..n. (n >= 1; returns 0 if n == 1)
    pub fn biased_zero(&self, n: u64, num: u64, den: u64) -> u64 {
        self.draw(n, |r| {
            if n <= 1 || r.below(den.max(1)) >= num {
                0
            } else {
                1 + r.below(n - 1)
            }
        })
    }
    /// Index chosen by weights.
    pub fn weighted(&self, w: &[u32]) -> usize {
        let total: u64 = w.iter().map(|&x| x as u64).sum();
        self.draw(w.len() as u64, |r| {
            let mut x = r.below(total.max(1));
            for (i, &wi) in w.iter().enumerate() {
                if x < wi as u64 {
                    return i as u64;
                }
                x -= wi as u64;
            }
            (w.len() - 1) as u64
        }) as usize
    }
    pub fn pick<'a, T>(&self, xs: &'a [T]) -> &'a T {
        &xs[self.below(xs.len() as u64) as usize]
    }
    /// Small numbers are likelier: geometric-ish in 0..n.
    pub fn small(&self, n: u64) -> u64 {
        self.draw(n, |r| {
            let a = r.below(n.max(1));
            let b = r.below(n.max(1));
            a.min(b)
        })
    }
    pub fn recorded(&self) -> Vec<u64> {
        self.0.lock().unwrap().out.clone()
    }
    fn stride(&self) -> usize {
        self.0.lock().unwrap().stride
    }
}

/// Operation stream: fixed stride of 4 values per operation; in replay mode the stream
/// ends when the tape ends, so deleting 4 aligned values deletes one operation.
pub struct Ops {
    chan: Chan,
    planned: u64,
    given: u64,
}

impl Ops {
    /// Like `next`, but in generate mode the four numbers come from `f` (a workload template or a
    /// biased draw); replay reads the tape as always.
    pub fn next_with(&mut self, f: impl FnOnce(&mut Rng) -> [u64; 4]) -> Option<[u64; 4]> {
        if self.chan.is_replay() {
            return self.next();
        }
        if self.given >= self.planned {
            return None;
        }
        self.given += 1;
        const M: u64 = 1 << 20;
        let mut vals: Option<[u64; 4]> = None;
        let mut out = [0u64; 4];
        let mut f = Some(f);
        for k in 0..4 {
            out[k] = self.chan.decide(M, |r| {
                if vals.is_none() {
                    vals = Some((f.take().unwrap())(r));
                }
                vals.unwrap()[k] % M
            });
        }
        Some(out)
    }
    pub fn next(&mut self) -> Option<[u64; 4]> {
        if self.chan.is_replay() {
            if self.chan.exhausted() {
                return None;
            }
        } else if self.given >= self.planned {
            return None;
        }
        self.given += 1;
        const M: u64 = 1 << 20;
        Some([self.chan.below(M), self.chan.below(M), self.chan.below(M), self.chan.below(M)])
    }
}

pub struct Source {
    pub seed: u64,
    replay: Option<BTreeMap<String, (usize, Vec<u64>)>>,
    chans: BTreeMap<String, Chan>,
}

impl Source {
    pub fn from_seed(seed: u64) -> Source {
        Source { seed, replay: None, chans: BTreeMap::new() }
    }
    pub fn from_tapes(seed: u64, tapes: &Value) -> Source {
        let mut m = BTreeMap::new();
        if let Some(o) = tapes.as_object() {
            for (k, v) in o {
                let stride = v.get("stride").and_then(|s| s.as_u64()).unwrap_or(1) as usize;
                let vals = v.get("v").and_then(|a| a.as_array()).map(|a| a.iter().map(|x| x.as_u64().unwrap_or(0)).collect()).unwrap_or_default();
                m.insert(k.clone(), (stride, vals));
            }
        }
        Source { seed, replay: Some(m), chans: BTreeMap::new() }
    }
    pub fn is_replay(&self) -> bool {
        self.replay.is_some()
    }
    /// Get (or create) a named channel.
    pub fn chan(&mut self, name: &str) -> Chan {
        if let Some(c) = self.chans.get(name) {
            return c.clone();
        }
        let c = match &self.replay {
            Some(m) => {
                let (stride, tape) = m.get(name).cloned().unwrap_or((1, vec![]));
                Chan::new_replay(tape, stride)
            }
            None => Chan::new_gen(mix(self.seed, hash_str(name)), 1),
        };
        self.chans.insert(name.to_string(), c.clone());
        c
    }
    /// An operation stream of `planned` operations (generate mode) on channel `name`.
    pub fn ops(&mut self, name: &str, planned: u64) -> Ops {
        let chan = self.chan(name);
        chan.set_stride(4);
        Ops { chan, planned, given: 0 }
    }
    /// What was actually consumed, as the canonical tapes of this run.
    pub fn tapes(&self) -> Value {
        let mut o = Map::new();
        for (k, c) in &self.chans {
            o.insert(k.clone(), json!({"stride": c.stride(), "v": c.recorded()}));
        }
        Value::Object(o)
    }
}
