//! Per-run context: the source of choices, the event trace, counters, the verdict.

use crate::source::Source;
use serde_json::{json, Value};
use std::collections::BTreeMap;

#[derive(Clone, Debug, PartialEq, Eq)]
pub struct Violation {
    /// which clause broke, e.g. `two_writers_live`, `panic`, `crash:SIGSEGV`
    pub class: String,
    /// invariant name or panic location `file:line`
    pub site: String,
    pub detail: String,
}

impl Violation {
    pub fn new(class: &str, site: &str, detail: impl Into<String>) -> Violation {
        Violation { class: class.to_string(), site: site.to_string(), detail: detail.into() }
    }
    pub fn to_json(&self) -> Value {
        json!({"class": self.class, "site": self.site, "detail": self.detail})
    }
    pub fn from_json(v: &Value) -> Option<Violation> {
        Some(Violation {
            class: v.get("class")?.as_str()?.to_string(),
            site: v.get("site")?.as_str()?.to_string(),
            detail: v.get("detail").and_then(|d| d.as_str()).unwrap_or("").to_string(),
        })
    }
}

pub type Counts = BTreeMap<String, u64>;

pub fn add_counts(into: &mut Counts, from: &Counts) {
    for (k, v) in from {
        *into.entry(k.clone()).or_insert(0) += v;
    }
}

pub const MAX_EVENTS_KEPT: usize = 300;

/// Event log: every event feeds the hash; only the first `MAX_EVENTS_KEPT` are kept as text.
#[derive(Clone, Debug, Default)]
pub struct Trace {
    pub hash: u64,
    pub n: u64,
    pub events: Vec<String>,
}

impl Trace {
    pub fn ev(&mut self, s: impl AsRef<str>) {
        let s = s.as_ref();
        let mut h = self.hash ^ 0x9E37_79B9_7F4A_7C15;
        for &c in s.as_bytes() {
            h ^= c as u64;
            h = h.wrapping_mul(0x0000_0100_0000_01B3);
        }
        self.hash = h.rotate_left(23).wrapping_add(self.n);
        self.n += 1;
        if self.events.len() < MAX_EVENTS_KEPT {
            self.events.push(s.to_string());
        }
    }
    /// Feed a number into the hash without keeping text (cheap; used for schedules).
    pub fn feed(&mut self, x: u64) {
        self.hash = (self.hash ^ x).wrapping_mul(0x0000_0100_0000_01B3).rotate_left(29);
        self.n += 1;
    }
}

pub struct Run {
    pub src: Source,
    pub trace: Trace,
    pub faults: Counts,
    pub probes: Counts,
    pub violation: Option<Violation>,
    /// the run exercised what the scenario calls non-trivial (see the check's `rule`)
    pub nontrivial: bool,
    /// hit a step/time cap and was cut; never a violation in itself
    pub abandoned: bool,
    /// scheduler steps (E1) or operations (E5)
    pub steps: u64,
    /// simulated milliseconds covered (E2)
    pub sim_ms: u64,
    /// additional key for distinctness (e.g. coverage cell); hashed with the trace
    pub cells: Vec<String>,
}

impl Run {
    pub fn new(src: Source) -> Run {
        Run { src, trace: Trace::default(), faults: Counts::new(), probes: Counts::new(), violation: None, nontrivial: false, abandoned: false, steps: 0, sim_ms: 0, cells: vec![] }
    }
    pub fn ev(&mut self, s: impl AsRef<str>) {
        self.trace.ev(s)
    }
    pub fn fault(&mut self, kind: &str) {
        *self.faults.entry(kind.to_string()).or_insert(0) += 1;
    }
    pub fn probe(&mut self, name: &str) {
        *self.probes.entry(name.to_string()).or_insert(0) += 1;
    }
    pub fn probe_n(&mut self, name: &str, n: u64) {
        *self.probes.entry(name.to_string()).or_insert(0) += n;
    }
    pub fn cell(&mut self, c: impl Into<String>) {
        self.cells.push(c.into());
    }
    /// Record the first violation of the run (later ones are ignored).
    pub fn violate(&mut self, class: &str, site: &str, detail: impl Into<String>) {
        if self.violation.is_none() {
            let v = Violation::new(class, site, detail);
            self.trace.ev(format!("VIOLATION {} @ {}: {}", v.class, v.site, v.detail));
            self.violation = Some(v);
        }
    }
    pub fn failed(&self) -> bool {
        self.violation.is_some()
    }
    pub fn outcome_json(&self) -> Value {
        json!({
            "violation": self.violation.as_ref().map(|v| v.to_json()),
            "hash": format!("{:016x}", self.trace.hash),
            "nontrivial": self.nontrivial,
            "abandoned": self.abandoned,
            "steps": self.steps,
            "sim_ms": self.sim_ms,
            "faults": self.faults,
            "probes": self.probes,
            "events": self.trace.events,
            "n_events": self.trace.n,
        })
    }
}
